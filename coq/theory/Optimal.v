(* Optimality of a blockwise-constant monotone fit from a block certificate.
   Self-contained: standard library only. *)
From Coq Require Import Reals Lra Psatz Lia List.
Import ListNotations.
Open Scope R_scope.

Section Opt.
Variable E : Type.
Variables Vp Vm : E -> R -> R.
Variable L : E -> R -> R.
Variable g : R -> R.
Variable kap : E -> R.
Variable dom : R -> Prop.
Hypothesis g_mono : forall a b, dom a -> dom b -> a <= b -> g a <= g b.
Hypothesis kap_nonneg : forall e, 0 <= kap e.
(* generalised sub-gradient inequalities *)
Hypothesis SGp : forall e t u, dom t -> dom u -> t <= u ->
   L e u - L e t >= (g u - g t) * Vp e t + kap e * (u - t)^2.
Hypothesis SGm : forall e t u, dom t -> dom u -> u <= t ->
   L e u - L e t >= (g u - g t) * Vm e t + kap e * (u - t)^2.

Fixpoint sumV (V : E -> R -> R) (S : list E) (t : R) : R :=
  match S with [] => 0 | e :: S' => V e t + sumV V S' t end.

(* block certificate: every non-empty suffix has non-negative upper sum,
   every non-empty prefix non-positive lower sum *)
Definition bcert (B : list E) (t : R) : Prop :=
  B <> [] /\
  (forall p s, B = p ++ s -> s <> [] -> 0 <= sumV Vp s t) /\
  (forall p s, B = p ++ s -> p <> [] -> sumV Vm p t <= 0).

Fixpoint sortedR (l : list R) : Prop :=
  match l with
  | [] => True
  | x :: l' => match l' with [] => True | y :: _ => x <= y /\ sortedR l' end
  end.

(* total loss of a candidate sequence u against data l (same length) *)
Fixpoint loss (l : list E) (u : list R) {struct l} : R :=
  match l, u with e :: l', x :: u' => L e x + loss l' u' | _, _ => 0 end.

(* sum kap e_i (u_i - v_i)^2 *)
Fixpoint kdist (l : list E) (u v : list R) {struct l} : R :=
  match l, u, v with
  | e :: l', x :: u', y :: v' => kap e * (x - y)^2 + kdist l' u' v'
  | _, _, _ => 0
  end.

(* ------------------------------------------------------------------ *)
(* Sorted lists                                                        *)
(* ------------------------------------------------------------------ *)

Lemma sortedR_cons2 : forall x y l,
  sortedR (x :: y :: l) <-> (x <= y /\ sortedR (y :: l)).
Proof. intros x y l. reflexivity. Qed.

Lemma sortedR_tail : forall x l, sortedR (x :: l) -> sortedR l.
Proof.
  intros x l Hs. destruct l as [|y l'].
  - exact I.
  - destruct (proj1 (sortedR_cons2 x y l') Hs) as [_ Hs']. exact Hs'.
Qed.

Lemma sortedR_app : forall a b, sortedR (a ++ b) -> sortedR a /\ sortedR b.
Proof.
  induction a as [|x a' IH]; intros b Hs.
  - split; [exact I | exact Hs].
  - destruct a' as [|z a''].
    + split; [exact I|]. apply (sortedR_tail x). exact Hs.
    + change (sortedR (x :: z :: (a'' ++ b))) in Hs.
      apply sortedR_cons2 in Hs. destruct Hs as [Hxz Hs].
      destruct (IH b Hs) as [Ha Hb].
      split; [|exact Hb].
      apply sortedR_cons2. split; assumption.
Qed.

Lemma sortedR_map : forall (f : R -> R) u,
  (forall a b, dom a -> dom b -> a <= b -> f a <= f b) ->
  sortedR u -> Forall dom u -> sortedR (map f u).
Proof.
  intros f u Hf. induction u as [|x u' IH]; intros Hs Hd.
  - exact I.
  - destruct u' as [|y u''].
    + exact I.
    + apply sortedR_cons2 in Hs. destruct Hs as [Hxy Hs].
      inversion Hd as [|x0 l0 Hdx Hd' Heq]; subst.
      change (sortedR (f x :: f y :: map f u'')).
      apply sortedR_cons2. split.
      * apply Hf; [exact Hdx | | exact Hxy].
        inversion Hd' as [|y0 l1 Hdy Hd'' Heq']; subst. exact Hdy.
      * apply (IH Hs Hd').
Qed.

(* ------------------------------------------------------------------ *)
(* 1. Abel summation                                                   *)
(* ------------------------------------------------------------------ *)

Fixpoint sumR (l : list R) : R :=
  match l with [] => 0 | x :: l' => x + sumR l' end.

Fixpoint dotR (e d : list R) {struct e} : R :=
  match e, d with x :: e', y :: d' => x * y + dotR e' d' | _, _ => 0 end.

Lemma abel_suffix_strong : forall e d, length e = length d ->
  (forall p s, e = p ++ s -> s <> [] -> 0 <= sumR s) ->
  sortedR d -> sumR e * hd 0 d <= dotR e d.
Proof.
  induction e as [|x e' IH]; intros d Hlen Hsuf Hsort.
  - simpl. lra.
  - destruct d as [|y d']; [discriminate Hlen|].
    simpl in Hlen. injection Hlen as Hlen.
    assert (Hsuf' : forall p s, e' = p ++ s -> s <> [] -> 0 <= sumR s).
    { intros p s Hp Hs. apply (Hsuf (x :: p) s); [rewrite Hp; reflexivity | exact Hs]. }
    destruct d' as [|y' d''].
    + destruct e' as [|z e'']; [|discriminate Hlen]. simpl. lra.
    + apply sortedR_cons2 in Hsort. destruct Hsort as [Hyy Hs'].
      pose proof (IH (y' :: d'') Hlen Hsuf' Hs') as IH'.
      assert (Hge : 0 <= sumR e').
      { destruct e' as [|z e'']; [discriminate Hlen|].
        apply (Hsuf [x] (z :: e'')); [reflexivity | discriminate]. }
      change (hd 0 (y' :: d'')) with y' in IH'.
      change ((x + sumR e') * y <= x * y + dotR e' (y' :: d'')).
      nra.
Qed.

Lemma abel_suffix : forall e d, length e = length d ->
  (forall p s, e = p ++ s -> s <> [] -> 0 <= sumR s) ->
  sortedR d -> Forall (fun x => 0 <= x) d -> 0 <= dotR e d.
Proof.
  intros e d Hlen Hsuf Hsort Hpos.
  pose proof (abel_suffix_strong e d Hlen Hsuf Hsort) as Hs.
  destruct e as [|x e'].
  - simpl. lra.
  - destruct d as [|y d']; [discriminate Hlen|].
    assert (Hsum : 0 <= sumR (x :: e')).
    { apply (Hsuf [] (x :: e')); [reflexivity | discriminate]. }
    assert (Hy : 0 <= y).
    { inversion Hpos as [|y0 l0 Hy0 Hrest Heq]; subst. exact Hy0. }
    change (hd 0 (y :: d')) with y in Hs.
    nra.
Qed.

Lemma abel_prefix_strong : forall e d acc, length e = length d ->
  (forall p s, e = p ++ s -> p <> [] -> acc + sumR p <= 0) ->
  sortedR d -> Forall (fun x => x <= 0) d ->
  0 <= dotR e d + acc * hd 0 d.
Proof.
  induction e as [|x e' IH]; intros d acc Hlen Hpre Hsort Hneg.
  - destruct d as [|y d']; [|discriminate Hlen]. simpl. lra.
  - destruct d as [|y d']; [discriminate Hlen|].
    simpl in Hlen. injection Hlen as Hlen.
    assert (Hx : acc + x <= 0).
    { pose proof (Hpre [x] e' eq_refl) as Hx.
      simpl in Hx. assert (Hne : [x] <> []) by discriminate.
      specialize (Hx Hne). lra. }
    assert (Hy : y <= 0).
    { inversion Hneg as [|y0 l0 Hy0 Hrest Heq]; subst. exact Hy0. }
    assert (Hneg' : Forall (fun x => x <= 0) d').
    { inversion Hneg as [|y0 l0 Hy0 Hrest Heq]; subst. exact Hrest. }
    assert (Hpre' : forall p s, e' = p ++ s -> p <> [] -> (acc + x) + sumR p <= 0).
    { intros p s Hp Hne.
      assert (Hc : x :: p <> []) by discriminate.
      pose proof (Hpre (x :: p) s) as Hq.
      rewrite Hp in Hq. specialize (Hq eq_refl Hc).
      simpl in Hq. lra. }
    destruct d' as [|y' d''].
    + destruct e' as [|z e'']; [|discriminate Hlen].
      change (0 <= x * y + 0 + acc * y). nra.
    + apply sortedR_cons2 in Hsort. destruct Hsort as [Hyy Hs'].
      pose proof (IH (y' :: d'') (acc + x) Hlen Hpre' Hs' Hneg') as IH'.
      change (hd 0 (y' :: d'')) with y' in IH'.
      change (0 <= x * y + dotR e' (y' :: d'') + acc * y).
      nra.
Qed.

Lemma abel_prefix : forall e d, length e = length d ->
  (forall p s, e = p ++ s -> p <> [] -> sumR p <= 0) ->
  sortedR d -> Forall (fun x => x <= 0) d -> 0 <= dotR e d.
Proof.
  intros e d Hlen Hpre Hsort Hneg.
  assert (Hpre0 : forall p s, e = p ++ s -> p <> [] -> 0 + sumR p <= 0).
  { intros p s Hp Hne. pose proof (Hpre p s Hp Hne). lra. }
  pose proof (abel_prefix_strong e d 0 Hlen Hpre0 Hsort Hneg) as Hs.
  lra.
Qed.

(* ------------------------------------------------------------------ *)
(* 2. One block                                                        *)
(* ------------------------------------------------------------------ *)

Lemma sumV_sumR : forall V S t, sumV V S t = sumR (map (fun e => V e t) S).
Proof.
  intros V S t. induction S as [|e S' IH].
  - reflexivity.
  - simpl. rewrite IH. reflexivity.
Qed.

Definition dpos (t x : R) : R := Rmax (g x - g t) 0.
Definition dneg (t x : R) : R := Rmin (g x - g t) 0.

Lemma point_ineq : forall e t x, dom t -> dom x ->
  L e x - L e t >= dpos t x * Vp e t + dneg t x * Vm e t + kap e * (x - t)^2.
Proof.
  intros e t x Ht Hx. unfold dpos, dneg.
  destruct (Rle_dec t x) as [Hle|Hnle].
  - pose proof (g_mono t x Ht Hx Hle) as Hg.
    pose proof (SGp e t x Ht Hx Hle) as Hsg.
    rewrite (Rmax_left (g x - g t) 0) by lra.
    rewrite (Rmin_right (g x - g t) 0) by lra.
    lra.
  - assert (Hle : x <= t) by lra.
    pose proof (g_mono x t Hx Ht Hle) as Hg.
    pose proof (SGm e t x Ht Hx Hle) as Hsg.
    rewrite (Rmax_right (g x - g t) 0) by lra.
    rewrite (Rmin_left (g x - g t) 0) by lra.
    lra.
Qed.

Lemma block_sum_ineq : forall B t u, dom t -> length u = length B -> Forall dom u ->
  loss B u - loss B (repeat t (length B)) >=
    dotR (map (fun e => Vp e t) B) (map (dpos t) u)
  + dotR (map (fun e => Vm e t) B) (map (dneg t) u)
  + kdist B u (repeat t (length B)).
Proof.
  intros B t. induction B as [|e B' IH]; intros u Ht Hlen Hd.
  - simpl. lra.
  - destruct u as [|x u']; [discriminate Hlen|].
    simpl in Hlen. injection Hlen as Hlen.
    inversion Hd as [|x0 l0 Hdx Hd' Heq]; subst.
    pose proof (IH u' Ht Hlen Hd') as IH'.
    pose proof (point_ineq e t x Ht Hdx) as Hp.
    cbn [loss kdist dotR map repeat length].
    lra.
Qed.

Lemma dpos_mono : forall t a b, dom a -> dom b -> a <= b -> dpos t a <= dpos t b.
Proof.
  intros t a b Ha Hb Hab. pose proof (g_mono a b Ha Hb Hab) as Hg.
  unfold dpos, Rmax.
  destruct (Rle_dec (g a - g t) 0); destruct (Rle_dec (g b - g t) 0); lra.
Qed.

Lemma dneg_mono : forall t a b, dom a -> dom b -> a <= b -> dneg t a <= dneg t b.
Proof.
  intros t a b Ha Hb Hab. pose proof (g_mono a b Ha Hb Hab) as Hg.
  unfold dneg, Rmin.
  destruct (Rle_dec (g a - g t) 0); destruct (Rle_dec (g b - g t) 0); lra.
Qed.

Theorem block_opt : forall B t u, bcert B t -> dom t -> length u = length B ->
  sortedR u -> Forall dom u ->
  loss B u >= loss B (repeat t (length B)) + kdist B u (repeat t (length B)).
Proof using All.
  intros B t u [Hne [Hsuf Hpre]] Ht Hlen Hsort Hd.
  pose proof (block_sum_ineq B t u Ht Hlen Hd) as Hsum.
  assert (Hp : 0 <= dotR (map (fun e => Vp e t) B) (map (dpos t) u)).
  { apply abel_suffix.
    - rewrite !map_length. symmetry. exact Hlen.
    - intros p s Heq Hs.
      destruct (map_eq_app _ _ _ _ Heq) as [p' [s' [HB [Hp' Hs']]]].
      subst s. rewrite <- (sumV_sumR Vp s' t).
      apply (Hsuf p' s' HB).
      intro Hnil. apply Hs. rewrite Hnil. reflexivity.
    - apply sortedR_map; [apply dpos_mono | exact Hsort | exact Hd].
    - apply Forall_forall. intros y Hy.
      apply in_map_iff in Hy. destruct Hy as [x [Hxy Hin]]. subst y.
      unfold dpos. apply Rmax_r. }
  assert (Hm : 0 <= dotR (map (fun e => Vm e t) B) (map (dneg t) u)).
  { apply abel_prefix.
    - rewrite !map_length. symmetry. exact Hlen.
    - intros p s Heq Hs.
      destruct (map_eq_app _ _ _ _ Heq) as [p' [s' [HB [Hp' Hs']]]].
      subst p. rewrite <- (sumV_sumR Vm p' t).
      apply (Hpre p' s' HB).
      intro Hnil. apply Hs. rewrite Hnil. reflexivity.
    - apply sortedR_map; [apply dneg_mono | exact Hsort | exact Hd].
    - apply Forall_forall. intros y Hy.
      apply in_map_iff in Hy. destruct Hy as [x [Hxy Hin]]. subst y.
      unfold dneg. apply Rmin_r. }
  lra.
Qed.

(* ------------------------------------------------------------------ *)
(* 3. Whole sequence                                                   *)
(* ------------------------------------------------------------------ *)

Definition bdata (bs : list (list E * R)) : list E := concat (map fst bs).
Definition bfit (bs : list (list E * R)) : list R :=
  flat_map (fun b => repeat (snd b) (length (fst b))) bs.

Lemma bdata_cons : forall b bs, bdata (b :: bs) = fst b ++ bdata bs.
Proof. reflexivity. Qed.

Lemma bfit_cons : forall b bs,
  bfit (b :: bs) = repeat (snd b) (length (fst b)) ++ bfit bs.
Proof. reflexivity. Qed.

Lemma bfit_length : forall bs, length (bfit bs) = length (bdata bs).
Proof.
  induction bs as [|b bs' IH].
  - reflexivity.
  - rewrite bdata_cons, bfit_cons, !app_length, repeat_length, IH. reflexivity.
Qed.

Lemma loss_app : forall A B ua ub, length ua = length A ->
  loss (A ++ B) (ua ++ ub) = loss A ua + loss B ub.
Proof.
  induction A as [|e A' IH]; intros B ua ub Hlen.
  - destruct ua as [|x ua']; [|discriminate Hlen]. simpl. lra.
  - destruct ua as [|x ua']; [discriminate Hlen|].
    simpl in Hlen. injection Hlen as Hlen.
    cbn [app loss]. rewrite (IH B ua' ub Hlen). lra.
Qed.

Lemma kdist_app : forall A B ua ub va vb,
  length ua = length A -> length va = length A ->
  kdist (A ++ B) (ua ++ ub) (va ++ vb) = kdist A ua va + kdist B ub vb.
Proof.
  induction A as [|e A' IH]; intros B ua ub va vb Hlu Hlv.
  - destruct ua as [|x ua']; [|discriminate Hlu].
    destruct va as [|y va']; [|discriminate Hlv]. cbn [app kdist]. lra.
  - destruct ua as [|x ua']; [discriminate Hlu|].
    destruct va as [|y va']; [discriminate Hlv|].
    simpl in Hlu, Hlv. injection Hlu as Hlu. injection Hlv as Hlv.
    cbn [app kdist]. rewrite (IH B ua' ub va' vb Hlu Hlv). lra.
Qed.

Lemma split_length : forall (A B : list E) (u : list R),
  length u = length (A ++ B) ->
  exists ua ub, u = ua ++ ub /\ length ua = length A /\ length ub = length B.
Proof.
  intros A B u Hlen. rewrite app_length in Hlen.
  exists (firstn (length A) u), (skipn (length A) u).
  split; [symmetry; apply firstn_skipn|].
  rewrite firstn_length, skipn_length. split; lia.
Qed.

Theorem cert_optimal : forall bs u,
  Forall (fun b => bcert (fst b) (snd b) /\ dom (snd b)) bs ->
  length u = length (bdata bs) -> sortedR u -> Forall dom u ->
  loss (bdata bs) u >= loss (bdata bs) (bfit bs) + kdist (bdata bs) u (bfit bs).
Proof using All.
  induction bs as [|b bs' IH]; intros u Hc Hlen Hsort Hd.
  - simpl. lra.
  - inversion Hc as [|b0 l0 [Hcb Hdb] Hc' Heq]; subst.
    rewrite bdata_cons in Hlen.
    destruct (split_length _ _ _ Hlen) as [ua [ub [Hu [Hla Hlb]]]].
    subst u.
    apply sortedR_app in Hsort. destruct Hsort as [Hsa Hsb].
    apply Forall_app in Hd. destruct Hd as [Hda Hdb'].
    pose proof (block_opt (fst b) (snd b) ua Hcb Hdb Hla Hsa Hda) as Hblock.
    pose proof (IH ub Hc' Hlb Hsb Hdb') as Hrest.
    rewrite bdata_cons, bfit_cons.
    rewrite (loss_app (fst b) (bdata bs') ua ub Hla).
    rewrite (loss_app (fst b) (bdata bs') _ (bfit bs') (repeat_length _ _)).
    rewrite (kdist_app (fst b) (bdata bs') ua ub _ (bfit bs') Hla (repeat_length _ _)).
    lra.
Qed.

(* ------------------------------------------------------------------ *)
(* 4. Uniqueness under strictly positive kap                           *)
(* ------------------------------------------------------------------ *)

Lemma kdist_nonneg : forall l u v, 0 <= kdist l u v.
Proof.
  induction l as [|e l' IH]; intros u v.
  - simpl. lra.
  - destruct u as [|x u']; [simpl; lra|].
    destruct v as [|y v']; [simpl; lra|].
    cbn [kdist].
    pose proof (IH u' v') as IH'.
    pose proof (kap_nonneg e) as Hk.
    pose proof (pow2_ge_0 (x - y)) as Hsq.
    assert (0 <= kap e * (x - y)^2) by (apply Rmult_le_pos; assumption).
    lra.
Qed.

Lemma kdist_zero_eq : (forall e, 0 < kap e) -> forall l u v,
  kdist l u v = 0 -> length u = length l -> length v = length l -> u = v.
Proof.
  intros Hkpos. induction l as [|e l' IH]; intros u v Hk Hlu Hlv.
  - destruct u as [|x u']; [|discriminate Hlu].
    destruct v as [|y v']; [|discriminate Hlv]. reflexivity.
  - destruct u as [|x u']; [discriminate Hlu|].
    destruct v as [|y v']; [discriminate Hlv|].
    simpl in Hlu, Hlv. injection Hlu as Hlu. injection Hlv as Hlv.
    cbn [kdist] in Hk.
    pose proof (kdist_nonneg l' u' v') as Hnn.
    pose proof (Hkpos e) as Hke.
    pose proof (pow2_ge_0 (x - y)) as Hsq.
    assert (Hprod : 0 <= kap e * (x - y)^2) by (apply Rmult_le_pos; lra).
    assert (Hp0 : kap e * (x - y)^2 = 0) by lra.
    assert (Hr0 : kdist l' u' v' = 0) by lra.
    assert (Hsq0 : (x - y)^2 = 0).
    { destruct (Rmult_integral _ _ Hp0) as [H0|H0]; [lra | exact H0]. }
    assert (Hxy : x = y).
    { replace ((x - y)^2) with ((x - y) * (x - y)) in Hsq0 by ring.
      destruct (Rmult_integral _ _ Hsq0) as [H0|H0]; lra. }
    rewrite Hxy. f_equal. apply (IH u' v' Hr0 Hlu Hlv).
Qed.

Theorem cert_unique : (forall e, 0 < kap e) -> forall bs u,
  Forall (fun b => bcert (fst b) (snd b) /\ dom (snd b)) bs ->
  length u = length (bdata bs) -> sortedR u -> Forall dom u ->
  loss (bdata bs) u <= loss (bdata bs) (bfit bs) -> u = bfit bs.
Proof using All.
  intros Hkpos bs u Hc Hlen Hsort Hd Hle.
  pose proof (cert_optimal bs u Hc Hlen Hsort Hd) as Hopt.
  pose proof (kdist_nonneg (bdata bs) u (bfit bs)) as Hnn.
  apply (kdist_zero_eq Hkpos (bdata bs)).
  - lra.
  - exact Hlen.
  - apply bfit_length.
Qed.

(* ------------------------------------------------------------------ *)
(* 5. Constant competitors                                             *)
(* ------------------------------------------------------------------ *)

Lemma const_sum_p : forall S t c, dom t -> dom c -> t <= c ->
  loss S (repeat c (length S)) - loss S (repeat t (length S)) >=
  (g c - g t) * sumV Vp S t.
Proof.
  intros S t c Ht Hc Hle. induction S as [|e S' IH].
  - simpl. lra.
  - cbn [length repeat loss sumV].
    pose proof (SGp e t c Ht Hc Hle) as Hsg.
    pose proof (kap_nonneg e) as Hk.
    pose proof (pow2_ge_0 (c - t)) as Hsq.
    assert (0 <= kap e * (c - t)^2) by (apply Rmult_le_pos; assumption).
    lra.
Qed.

Lemma const_sum_m : forall S t c, dom t -> dom c -> c <= t ->
  loss S (repeat c (length S)) - loss S (repeat t (length S)) >=
  (g c - g t) * sumV Vm S t.
Proof.
  intros S t c Ht Hc Hle. induction S as [|e S' IH].
  - simpl. lra.
  - cbn [length repeat loss sumV].
    pose proof (SGm e t c Ht Hc Hle) as Hsg.
    pose proof (kap_nonneg e) as Hk.
    pose proof (pow2_ge_0 (c - t)) as Hsq.
    assert (0 <= kap e * (c - t)^2) by (apply Rmult_le_pos; assumption).
    lra.
Qed.

Theorem const_optimal : forall S t c, S <> [] -> dom t -> dom c ->
  0 <= sumV Vp S t -> sumV Vm S t <= 0 ->
  loss S (repeat c (length S)) >= loss S (repeat t (length S)).
Proof using All.
  intros S t c Hne Ht Hc Hp Hm.
  destruct (Rle_dec t c) as [Hle|Hnle].
  - pose proof (const_sum_p S t c Ht Hc Hle) as Hs.
    pose proof (g_mono t c Ht Hc Hle) as Hg.
    assert (0 <= (g c - g t) * sumV Vp S t) by (apply Rmult_le_pos; lra).
    lra.
  - assert (Hle : c <= t) by lra.
    pose proof (const_sum_m S t c Ht Hc Hle) as Hs.
    pose proof (g_mono c t Hc Ht Hle) as Hg.
    assert (0 <= (g c - g t) * sumV Vm S t) by nra.
    lra.
Qed.

End Opt.

Print Assumptions cert_optimal.
Print Assumptions cert_unique.
Print Assumptions const_optimal.
