(* The three concrete optimality theorems for the output of the model loop
   (model/Gpava.v), against arbitrary REAL monotone competitor sequences:

   (a) weighted mean      : least squares           sum w_i (y_i - u_i)^2
   (b) weighted expectile : asymmetric least squares sum w_i |1{y_i<=u_i} - a| (y_i - u_i)^2
   (c) lower quantile     : pinball loss            sum (1{y_i<=u_i} - a) (u_i - y_i)

   Each is obtained from the Q-world certificate of the instance
   (theory/GpavaCert.v), transported along Q2R (theory/Transport.v), and the
   R-world optimality theorem (theory/Optimal.v).

   Optimal.v needs its hypotheses (sub-gradient inequalities, kap >= 0, and for
   uniqueness kap > 0) for EVERY element, also those of non-positive weight.
   We therefore run the generic theorem with the clamped weight
       wp e = w e  if 0 < w e,   1 otherwise
   which is strictly positive everywhere and agrees with the plain weight on
   admissible elements; the final statements are in terms of the plain weight. *)
From Coq Require Import QArith Qreals Reals Lqa Lra Lia List Bool Sorted.
(* Lra after Lqa: unqualified [lra]/[nra] are the real-number tactics. *)
Import ListNotations.
From MD Require Import lib.QLists model.Functionals model.Gpava
  theory.GpavaMerge theory.GInst theory.GpavaCert theory.Optimal
  theory.InstMean theory.InstExpectile theory.InstQuantile theory.Transport.
Local Open Scope R_scope.

Local Notation y e := (Q2R (ey e)).
Local Notation w e := (Q2R (ew e)).

(* ------------------------------------------------------------------ *)
(* The textbook losses, with the plain weights                         *)
(* ------------------------------------------------------------------ *)

(* sum w_i (y_i - u_i)^2 *)
Fixpoint lossSq (l : list elt) (u : list R) {struct l} : R :=
  match l, u with
  | e :: l', x :: u' => w e * (y e - x)^2 + lossSq l' u'
  | _, _ => 0
  end.

(* sum w_i (u_i - v_i)^2 *)
Fixpoint wdist (l : list elt) (u v : list R) {struct l} : R :=
  match l, u, v with
  | e :: l', x :: u', z :: v' => w e * (x - z)^2 + wdist l' u' v'
  | _, _, _ => 0
  end.

(* sum w_i |1{y_i <= u_i} - a| (y_i - u_i)^2 *)
Fixpoint lossAs (a : Q) (l : list elt) (u : list R) {struct l} : R :=
  match l, u with
  | e :: l', x :: u' =>
      w e * (if Rle_dec (y e) x then 1 - Q2R a else Q2R a) * (y e - x)^2 + lossAs a l' u'
  | _, _ => 0
  end.

(* sum (1{y_i <= u_i} - a) (u_i - y_i) *)
Fixpoint lossPin (a : Q) (l : list elt) (u : list R) {struct l} : R :=
  match l, u with
  | e :: l', x :: u' =>
      (if Rle_dec (y e) x then 1 - Q2R a else - Q2R a) * (x - y e) + lossPin a l' u'
  | _, _ => 0
  end.

(* ------------------------------------------------------------------ *)
(* The clamped weight                                                  *)
(* ------------------------------------------------------------------ *)

Definition wp (e : elt) : R := if Rlt_dec 0 (w e) then w e else 1.

Lemma wp_pos e : 0 < wp e.
Proof. unfold wp. destruct (Rlt_dec 0 (w e)) as [H|H]; lra. Qed.

Lemma posw_R e : posw e -> 0 < w e.
Proof. unfold posw. intros H. apply Qlt_Rlt in H. rewrite Q2R_0 in H. exact H. Qed.

Lemma wp_posw e : posw e -> wp e = w e.
Proof.
  intros H. apply posw_R in H. unfold wp.
  destruct (Rlt_dec 0 (w e)) as [H'|H']; [reflexivity| contradiction].
Qed.

Lemma all_dom (A : Type) (l : list A) : Forall (fun _ : A => True) l.
Proof. apply Forall_forall. intros x _. exact I. Qed.

Lemma level_R a : (0 < a /\ a < 1)%Q -> 0 < Q2R a < 1.
Proof.
  intros [H0 H1]. apply Qlt_Rlt in H0. apply Qlt_Rlt in H1.
  rewrite Q2R_0 in H0. rewrite Q2R_1 in H1. split; assumption.
Qed.

(* comparisons in Q and in R *)
Lemma leb_Rle_dec (A : Type) (p q : Q) (c d : A) :
  (if leb p q then c else d) = (if Rle_dec (Q2R p) (Q2R q) then c else d).
Proof.
  destruct (leb_spec p q) as [[H ->]|[H ->]]; destruct (Rle_dec (Q2R p) (Q2R q)) as [H'|H'].
  - reflexivity.
  - exfalso. apply H'. apply Qle_Rle. exact H.
  - exfalso. apply Qlt_Rlt in H. lra.
  - reflexivity.
Qed.

Lemma leb_Rlt_dec (A : Type) (p q : Q) (c d : A) :
  (if leb p q then c else d) = (if Rlt_dec (Q2R q) (Q2R p) then d else c).
Proof.
  destruct (leb_spec p q) as [[H ->]|[H ->]]; destruct (Rlt_dec (Q2R q) (Q2R p)) as [H'|H'].
  - exfalso. apply Qle_Rle in H. lra.
  - reflexivity.
  - reflexivity.
  - exfalso. apply H'. apply Qlt_Rlt. exact H.
Qed.

(* ------------------------------------------------------------------ *)
(* (a) Mean: least squares                                             *)
(* ------------------------------------------------------------------ *)

Definition VR_mean (e : elt) (t : R) : R := wp e * (t - y e).
Definition Lsq (e : elt) (u : R) : R := wp e * (y e - u)^2.
Definition g_mean (u : R) : R := 2 * u.
Definition domT (_ : R) : Prop := True.

Lemma mean_VR_ok (e : g_elt mean_inst) (t : Q) :
  g_good mean_inst e -> Q2R (g_Vp mean_inst e t) = VR_mean e (Q2R t).
Proof.
  simpl. intros He. unfold V_mean, VR_mean.
  rewrite Q2R_mult, Q2R_minus, (wp_posw e He). reflexivity.
Qed.

Lemma g_mean_mono : forall p q, domT p -> domT q -> p <= q -> g_mean p <= g_mean q.
Proof. unfold g_mean. intros p q _ _ H. lra. Qed.

Lemma wp_nonneg : forall e : elt, 0 <= wp e.
Proof. intros e. pose proof (wp_pos e). lra. Qed.

Lemma mean_SG : forall (e : elt) t u,
  Lsq e u - Lsq e t >= (g_mean u - g_mean t) * VR_mean e t + wp e * (u - t)^2.
Proof. intros e t u. unfold Lsq, g_mean, VR_mean. apply Req_ge. ring. Qed.

Lemma lossSq_loss l : Forall posw l -> forall u, lossSq l u = loss elt Lsq l u.
Proof.
  intros G. induction G as [|e l Ge G IH]; intros u; [reflexivity|].
  destruct u as [|x u']; [reflexivity|].
  cbn [lossSq loss]. rewrite IH. unfold Lsq. rewrite (wp_posw e Ge). reflexivity.
Qed.

Lemma wdist_kdist l : Forall posw l -> forall u v, wdist l u v = kdist elt wp l u v.
Proof.
  intros G. induction G as [|e l Ge G IH]; intros u v; [reflexivity|].
  destruct u as [|x u']; [reflexivity|]. destruct v as [|z v']; [reflexivity|].
  cbn [wdist kdist]. rewrite IH, (wp_posw e Ge). reflexivity.
Qed.

Theorem gpava_mean_optimal : forall l stk, Forall posw l ->
  gpava_blocks elt ey wmean l = Some stk ->
  let fit := map Q2R (expand elt stk) in
  sortedR fit /\ length fit = length l /\
  forall u, length u = length l -> sortedR u ->
    (lossSq l u >= lossSq l fit + wdist l u fit)%R.
Proof.
  intros l stk Gl HL fit.
  pose proof (gpava_transport_optimal mean_inst VR_mean VR_mean mean_VR_ok mean_VR_ok
                Lsq g_mean wp domT g_mean_mono wp_nonneg
                (fun e t u _ _ _ => mean_SG e t u) (fun e t u _ _ _ => mean_SG e t u)
                l stk Gl HL (all_dom _ stk)) as H.
  cbv zeta in H. destruct H as (H1 & H2 & H3).
  split; [exact H1|]. split; [exact H2|].
  intros u Hlen Hs.
  rewrite !(lossSq_loss l Gl), (wdist_kdist l Gl).
  exact (H3 u Hlen Hs (all_dom _ u)).
Qed.

Theorem gpava_mean_unique : forall l stk, Forall posw l ->
  gpava_blocks elt ey wmean l = Some stk ->
  let fit := map Q2R (expand elt stk) in
  forall u, length u = length l -> sortedR u ->
    (lossSq l u <= lossSq l fit)%R -> u = fit.
Proof.
  intros l stk Gl HL fit u Hlen Hs Hle.
  rewrite !(lossSq_loss l Gl) in Hle.
  exact (gpava_transport_unique mean_inst VR_mean VR_mean mean_VR_ok mean_VR_ok
           Lsq g_mean wp domT g_mean_mono wp_nonneg
           (fun e t u _ _ _ => mean_SG e t u) (fun e t u _ _ _ => mean_SG e t u)
           l stk wp_pos Gl HL (all_dom _ stk) u Hlen Hs (all_dom _ u) Hle).
Qed.

(* ------------------------------------------------------------------ *)
(* (b) Expectile: asymmetric least squares                             *)
(* ------------------------------------------------------------------ *)

(* |1{yy <= t} - al| *)
Definition kR (al yy t : R) : R := if Rle_dec yy t then 1 - al else al.

Lemma asym_sq (al yy t u : R) : 0 < al < 1 ->
  0 <= kR al yy u * (u - yy)^2 - kR al yy t * (t - yy)^2
       - ((u - t) * (2 * kR al yy t * (t - yy)) + Rmin al (1 - al) * (u - t)^2).
Proof.
  intros [H0 H1]. unfold kR, Rmin.
  destruct (Rle_dec al (1 - al)) as [Hm|Hm];
  destruct (Rle_dec yy u) as [Hu|Hu]; destruct (Rle_dec yy t) as [Ht|Ht].
  - replace ((1 - al) * (u - yy)^2 - (1 - al) * (t - yy)^2
             - ((u - t) * (2 * (1 - al) * (t - yy)) + al * (u - t)^2))
      with ((1 - 2 * al) * (u - t)^2) by ring.
    apply Rmult_le_pos; [lra| apply pow2_ge_0].
  - replace ((1 - al) * (u - yy)^2 - al * (t - yy)^2
             - ((u - t) * (2 * al * (t - yy)) + al * (u - t)^2))
      with ((1 - 2 * al) * (u - yy)^2) by ring.
    apply Rmult_le_pos; [lra| apply pow2_ge_0].
  - replace (al * (u - yy)^2 - (1 - al) * (t - yy)^2
             - ((u - t) * (2 * (1 - al) * (t - yy)) + al * (u - t)^2))
      with ((1 - 2 * al) * ((t - yy) * ((yy - u) + (t - u)))) by ring.
    apply Rmult_le_pos; [lra|]. apply Rmult_le_pos; lra.
  - replace (al * (u - yy)^2 - al * (t - yy)^2
             - ((u - t) * (2 * al * (t - yy)) + al * (u - t)^2))
      with 0 by ring.
    lra.
  - replace ((1 - al) * (u - yy)^2 - (1 - al) * (t - yy)^2
             - ((u - t) * (2 * (1 - al) * (t - yy)) + (1 - al) * (u - t)^2))
      with 0 by ring.
    lra.
  - replace ((1 - al) * (u - yy)^2 - al * (t - yy)^2
             - ((u - t) * (2 * al * (t - yy)) + (1 - al) * (u - t)^2))
      with ((2 * al - 1) * ((yy - t) * ((u - yy) + (u - t)))) by ring.
    apply Rmult_le_pos; [lra|]. apply Rmult_le_pos; lra.
  - replace (al * (u - yy)^2 - (1 - al) * (t - yy)^2
             - ((u - t) * (2 * (1 - al) * (t - yy)) + (1 - al) * (u - t)^2))
      with ((2 * al - 1) * (u - yy)^2) by ring.
    apply Rmult_le_pos; [lra| apply pow2_ge_0].
  - replace (al * (u - yy)^2 - al * (t - yy)^2
             - ((u - t) * (2 * al * (t - yy)) + (1 - al) * (u - t)^2))
      with ((2 * al - 1) * (u - t)^2) by ring.
    apply Rmult_le_pos; [lra| apply pow2_ge_0].
Qed.

Section Expectile.
Variable a : Q.
Hypothesis Ha : (0 < a /\ a < 1)%Q.

Definition VR_exp (e : elt) (t : R) : R := wp e * (2 * kR (Q2R a) (y e) t * (t - y e)).
Definition Las (e : elt) (u : R) : R := wp e * kR (Q2R a) (y e) u * (y e - u)^2.
Definition g_id (u : R) : R := u.
Definition kap_exp (e : elt) : R := wp e * Rmin (Q2R a) (1 - Q2R a).

Lemma Q2R_kfac yq t : Q2R (kfac a yq t) = kR (Q2R a) (Q2R yq) (Q2R t).
Proof.
  unfold kfac, kR. rewrite (leb_Rle_dec Q yq t).
  destruct (Rle_dec (Q2R yq) (Q2R t)) as [H|H]; [|reflexivity].
  rewrite Q2R_minus, Q2R_1. reflexivity.
Qed.

Lemma exp_VR_ok (e : g_elt (expectile_inst a Ha)) (t : Q) :
  g_good (expectile_inst a Ha) e -> Q2R (g_Vp (expectile_inst a Ha) e t) = VR_exp e (Q2R t).
Proof.
  simpl. intros He. unfold V_expectile, VR_exp.
  rewrite !Q2R_mult, Q2R_minus, Q2R_kfac, Q2R_2, (wp_posw e He). reflexivity.
Qed.

Lemma g_id_mono : forall p q, domT p -> domT q -> p <= q -> g_id p <= g_id q.
Proof. unfold g_id. intros p q _ _ H. exact H. Qed.

Lemma rmin_level_pos : 0 < Rmin (Q2R a) (1 - Q2R a).
Proof.
  pose proof (level_R a Ha) as [H0 H1]. unfold Rmin.
  destruct (Rle_dec (Q2R a) (1 - Q2R a)); lra.
Qed.

Lemma kap_exp_pos : forall e, 0 < kap_exp e.
Proof.
  intros e. unfold kap_exp. apply Rmult_lt_0_compat; [apply wp_pos| apply rmin_level_pos].
Qed.

Lemma kap_exp_nonneg : forall e, 0 <= kap_exp e.
Proof. intros e. pose proof (kap_exp_pos e). lra. Qed.

Lemma exp_SG : forall (e : elt) t u,
  Las e u - Las e t >= (g_id u - g_id t) * VR_exp e t + kap_exp e * (u - t)^2.
Proof.
  intros e t u. pose proof (asym_sq (Q2R a) (y e) t u (level_R a Ha)) as H.
  pose proof (wp_nonneg e) as Hw.
  pose proof (Rmult_le_pos _ _ Hw H) as HP.
  unfold Las, g_id, VR_exp, kap_exp.
  replace ((y e - u)^2) with ((u - y e)^2) by ring.
  replace ((y e - t)^2) with ((t - y e)^2) by ring.
  lra.
Qed.

Lemma lossAs_loss l : Forall posw l -> forall u, lossAs a l u = loss elt Las l u.
Proof.
  intros G. induction G as [|e l Ge G IH]; intros u; [reflexivity|].
  destruct u as [|x u']; [reflexivity|].
  cbn [lossAs loss]. rewrite IH. unfold Las, kR. rewrite (wp_posw e Ge). reflexivity.
Qed.

Lemma wdist_kdist_exp l : Forall posw l -> forall u v,
  Rmin (Q2R a) (1 - Q2R a) * wdist l u v = kdist elt kap_exp l u v.
Proof.
  intros G. induction G as [|e l Ge G IH]; intros u v; [simpl; ring|].
  destruct u as [|x u']; [simpl; ring|]. destruct v as [|z v']; [simpl; ring|].
  cbn [wdist kdist]. rewrite <- IH. unfold kap_exp. rewrite (wp_posw e Ge). ring.
Qed.

Theorem gpava_expectile_optimal_sec : forall l stk, Forall posw l ->
  gpava_blocks elt ey (expectile_Q a) l = Some stk ->
  let fit := map Q2R (expand elt stk) in
  sortedR fit /\ length fit = length l /\
  forall u, length u = length l -> sortedR u ->
    (lossAs a l u >= lossAs a l fit + Rmin (Q2R a) (1 - Q2R a) * wdist l u fit)%R.
Proof using Ha.
  intros l stk Gl HL fit.
  pose proof (gpava_transport_optimal (expectile_inst a Ha) VR_exp VR_exp exp_VR_ok exp_VR_ok
                Las g_id kap_exp domT g_id_mono kap_exp_nonneg
                (fun e t u _ _ _ => exp_SG e t u) (fun e t u _ _ _ => exp_SG e t u)
                l stk Gl HL (all_dom _ stk)) as H.
  cbv zeta in H. destruct H as (H1 & H2 & H3).
  split; [exact H1|]. split; [exact H2|].
  intros u Hlen Hs.
  rewrite !(lossAs_loss l Gl), (wdist_kdist_exp l Gl).
  exact (H3 u Hlen Hs (all_dom _ u)).
Qed.

Theorem gpava_expectile_unique_sec : forall l stk, Forall posw l ->
  gpava_blocks elt ey (expectile_Q a) l = Some stk ->
  let fit := map Q2R (expand elt stk) in
  forall u, length u = length l -> sortedR u ->
    (lossAs a l u <= lossAs a l fit)%R -> u = fit.
Proof using Ha.
  intros l stk Gl HL fit u Hlen Hs Hle.
  rewrite !(lossAs_loss l Gl) in Hle.
  exact (gpava_transport_unique (expectile_inst a Ha) VR_exp VR_exp exp_VR_ok exp_VR_ok
           Las g_id kap_exp domT g_id_mono kap_exp_nonneg
           (fun e t u _ _ _ => exp_SG e t u) (fun e t u _ _ _ => exp_SG e t u)
           l stk kap_exp_pos Gl HL (all_dom _ stk) u Hlen Hs (all_dom _ u) Hle).
Qed.

End Expectile.

Theorem gpava_expectile_optimal : forall a (Ha : (0 < a /\ a < 1)%Q) l stk, Forall posw l ->
  gpava_blocks elt ey (expectile_Q a) l = Some stk ->
  let fit := map Q2R (expand elt stk) in
  sortedR fit /\ length fit = length l /\
  forall u, length u = length l -> sortedR u ->
    (lossAs a l u >= lossAs a l fit + Rmin (Q2R a) (1 - Q2R a) * wdist l u fit)%R.
Proof. exact gpava_expectile_optimal_sec. Qed.

Theorem gpava_expectile_unique : forall a (Ha : (0 < a /\ a < 1)%Q) l stk, Forall posw l ->
  gpava_blocks elt ey (expectile_Q a) l = Some stk ->
  let fit := map Q2R (expand elt stk) in
  forall u, length u = length l -> sortedR u ->
    (lossAs a l u <= lossAs a l fit)%R -> u = fit.
Proof. exact gpava_expectile_unique_sec. Qed.

(* ------------------------------------------------------------------ *)
(* (c) Lower quantile: pinball loss                                    *)
(* ------------------------------------------------------------------ *)

Section Quantile.
Variable a : Q.
Hypothesis Ha : (0 < a /\ a < 1)%Q.

Definition VpR_q (e : elt) (t : R) : R := (if Rle_dec (y e) t then 1 else 0) - Q2R a.
Definition VmR_q (e : elt) (t : R) : R := (if Rlt_dec (y e) t then 1 else 0) - Q2R a.
Definition Lpin (e : elt) (u : R) : R :=
  (if Rle_dec (y e) u then 1 - Q2R a else - Q2R a) * (u - y e).
Definition kap0 (_ : elt) : R := 0.

Lemma q_VpR_ok (e : g_elt (quantile_inst a Ha)) (t : Q) :
  g_good (quantile_inst a Ha) e -> Q2R (g_Vp (quantile_inst a Ha) e t) = VpR_q e (Q2R t).
Proof.
  simpl. intros _. unfold Vp_quantile, VpR_q.
  rewrite Q2R_minus, (leb_Rle_dec Q (ey e) t).
  destruct (Rle_dec (y e) (Q2R t)); [rewrite Q2R_1| rewrite Q2R_0]; reflexivity.
Qed.

Lemma q_VmR_ok (e : g_elt (quantile_inst a Ha)) (t : Q) :
  g_good (quantile_inst a Ha) e -> Q2R (g_Vm (quantile_inst a Ha) e t) = VmR_q e (Q2R t).
Proof.
  simpl. intros _. unfold Vm_quantile, VmR_q.
  rewrite Q2R_minus, (leb_Rlt_dec Q t (ey e)).
  destruct (Rlt_dec (y e) (Q2R t)); [rewrite Q2R_1| rewrite Q2R_0]; reflexivity.
Qed.

Lemma kap0_nonneg : forall e, 0 <= kap0 e.
Proof. intros e. unfold kap0. lra. Qed.

Lemma pin_SGp : forall (e : elt) t u, domT t -> domT u -> t <= u ->
  Lpin e u - Lpin e t >= (g_id u - g_id t) * VpR_q e t + kap0 e * (u - t)^2.
Proof.
  intros e t u _ _ Htu. pose proof (level_R a Ha) as [H0 H1].
  unfold Lpin, g_id, VpR_q, kap0.
  destruct (Rle_dec (y e) u) as [Hu|Hu]; destruct (Rle_dec (y e) t) as [Ht|Ht];
    timeout 60 nra.
Qed.

Lemma pin_SGm : forall (e : elt) t u, domT t -> domT u -> u <= t ->
  Lpin e u - Lpin e t >= (g_id u - g_id t) * VmR_q e t + kap0 e * (u - t)^2.
Proof.
  intros e t u _ _ Hut. pose proof (level_R a Ha) as [H0 H1].
  unfold Lpin, g_id, VmR_q, kap0.
  destruct (Rle_dec (y e) u) as [Hu|Hu]; destruct (Rle_dec (y e) t) as [Ht|Ht];
    destruct (Rlt_dec (y e) t) as [Ht'|Ht']; timeout 60 nra.
Qed.

Lemma lossPin_loss l : forall u, lossPin a l u = loss elt Lpin l u.
Proof.
  induction l as [|e l IH]; intros u; [reflexivity|].
  destruct u as [|x u']; [reflexivity|].
  cbn [lossPin loss]. rewrite IH. reflexivity.
Qed.

Theorem gpava_quantile_lower_optimal_sec : forall l stk,
  gpava_blocks elt ey (qlow a) l = Some stk ->
  let fit := map Q2R (expand elt stk) in
  sortedR fit /\ length fit = length l /\
  forall u, length u = length l -> sortedR u ->
    (lossPin a l u >= lossPin a l fit)%R.
Proof using Ha.
  intros l stk HL fit.
  pose proof (gpava_transport_optimal (quantile_inst a Ha) VpR_q VmR_q q_VpR_ok q_VmR_ok
                Lpin g_id kap0 domT g_id_mono kap0_nonneg pin_SGp pin_SGm
                l stk (all_dom _ l) HL (all_dom _ stk)) as H.
  cbv zeta in H. destruct H as (H1 & H2 & H3).
  split; [exact H1|]. split; [exact H2|].
  intros u Hlen Hs.
  rewrite !lossPin_loss.
  pose proof (H3 u Hlen Hs (all_dom _ u)) as H4.
  pose proof (kdist_nonneg elt kap0 kap0_nonneg l u (map Q2R (expand elt stk))) as H5.
  cbn [g_elt quantile_inst] in H4. unfold fit. lra.
Qed.

End Quantile.

Theorem gpava_quantile_lower_optimal : forall a (Ha : (0 < a /\ a < 1)%Q) l stk,
  gpava_blocks elt ey (qlow a) l = Some stk ->
  let fit := map Q2R (expand elt stk) in
  sortedR fit /\ length fit = length l /\
  forall u, length u = length l -> sortedR u ->
    (lossPin a l u >= lossPin a l fit)%R.
Proof. exact gpava_quantile_lower_optimal_sec. Qed.

Print Assumptions gpava_mean_optimal.
Print Assumptions gpava_mean_unique.
Print Assumptions gpava_expectile_optimal.
Print Assumptions gpava_expectile_unique.
Print Assumptions gpava_quantile_lower_optimal.
