(* The lower quantile (numpy "inverted_cdf") as an instance of the generic
   GPAVA theory, with the characterisation of qlow and qupp.  No axioms. *)
From Coq Require Import QArith Qreduction Lqa Lia List Bool ZArith.
Import ListNotations.
Open Scope Q_scope.
From MD Require Import lib.QLists model.Functionals theory.GpavaMerge theory.GInst.

(* ---------- Qnat ---------- *)
Lemma Qnat_S k : Qnat (S k) == Qnat k + 1.
Proof. unfold Qnat. rewrite Nat2Z.inj_succ. unfold Z.succ. rewrite inject_Z_plus. reflexivity. Qed.
Lemma Qnat_plus n m : Qnat (n + m) == Qnat n + Qnat m.
Proof. unfold Qnat. rewrite Nat2Z.inj_add, inject_Z_plus. reflexivity. Qed.
Lemma Qnat_le n m : (n <= m)%nat <-> Qnat n <= Qnat m.
Proof. unfold Qnat. rewrite <- Zle_Qle. lia. Qed.
Lemma Qnat_lt n m : (n < m)%nat <-> Qnat n < Qnat m.
Proof. unfold Qnat. rewrite <- Zlt_Qlt. lia. Qed.
Lemma Qnat_nonneg n : 0 <= Qnat n.
Proof. apply (Qnat_le 0 n). lia. Qed.
Lemma Qnat_pos_ge1 k : 0 < Qnat k -> (1 <= k)%nat.
Proof. intros H. apply (proj2 (Qnat_lt 0 k)). exact H. Qed.
Lemma Qnat_length_pos (l : list elt) : l <> [] -> 1 <= Qnat (length l).
Proof.
  intros Hn. destruct l as [|x l]; [congruence|]. simpl length. rewrite Qnat_S.
  pose proof (Qnat_nonneg (length l)) as H. lra.
Qed.

(* ---------- booleans and comparisons ---------- *)
Lemma bool_eq_iff (b1 b2 : bool) : (b1 = true <-> b2 = true) -> b1 = b2.
Proof.
  destruct b1, b2; intros [H1 H2]; try reflexivity.
  - symmetry. apply H1. reflexivity.
  - apply H2. reflexivity.
Qed.
Lemma leb_true_iff x y : leb x y = true <-> x <= y.
Proof. unfold leb. apply Qle_bool_iff. Qed.
Lemma leb_false_iff x y : leb x y = false <-> y < x.
Proof.
  unfold leb. split; intros H.
  - apply Qnot_le_lt. intros C. apply Qle_bool_iff in C. congruence.
  - destruct (Qle_bool x y) eqn:E; [|reflexivity]. apply Qle_bool_iff in E. lra.
Qed.
Lemma nleb_true_iff x y : negb (leb x y) = true <-> y < x.
Proof. rewrite negb_true_iff. apply leb_false_iff. Qed.

(* ---------- counting ---------- *)
Definition cnt (p : elt -> bool) (l : list elt) : nat := length (filter p l).
Lemma count_le_cnt l t : count_le l t = cnt (fun e => leb (ey e) t) l.
Proof. reflexivity. Qed.
Lemma count_lt_cnt l t : count_lt l t = cnt (fun e => negb (leb t (ey e))) l.
Proof. reflexivity. Qed.

Lemma cnt_cons p e l : cnt p (e :: l) = if p e then S (cnt p l) else cnt p l.
Proof. unfold cnt; simpl; destruct (p e); reflexivity. Qed.
Lemma cnt_ext p q l : (forall e, In e l -> p e = q e) -> cnt p l = cnt q l.
Proof.
  induction l as [|x l IH]; intros H; [reflexivity|]. rewrite !cnt_cons.
  rewrite (H x (or_introl eq_refl)). rewrite IH; [reflexivity|].
  intros e He; apply H; right; exact He.
Qed.
Lemma cnt_mono p q l : (forall e, In e l -> p e = true -> q e = true) -> (cnt p l <= cnt q l)%nat.
Proof.
  induction l as [|x l IH]; intros H; [apply le_n|]. rewrite !cnt_cons.
  assert (IH' := IH (fun e He => H e (or_intror He))).
  pose proof (H x (or_introl eq_refl)) as Hx.
  destruct (p x), (q x); try lia; specialize (Hx eq_refl); discriminate.
Qed.
Lemma cnt_le_length p l : (cnt p l <= length l)%nat.
Proof. induction l as [|x l IH]; [apply le_n|]. rewrite cnt_cons. simpl length. destruct (p x); lia. Qed.
Lemma cnt_all p l : (forall e, In e l -> p e = true) -> cnt p l = length l.
Proof.
  induction l as [|x l IH]; intros H; [reflexivity|]. rewrite cnt_cons.
  rewrite (H x (or_introl eq_refl)). simpl length. rewrite IH; [reflexivity|].
  intros e He; apply H; right; exact He.
Qed.
Lemma cnt_ex p l : (1 <= cnt p l)%nat -> exists e, In e l /\ p e = true.
Proof.
  induction l as [|x l IH]; intros H; [unfold cnt in H; simpl in H; lia|].
  rewrite cnt_cons in H. destruct (p x) eqn:E.
  - exists x. split; [left; reflexivity| exact E].
  - destruct (IH H) as [e [He Hp]]. exists e. split; [right; exact He| exact Hp].
Qed.
Lemma cnt_map p (f : elt -> elt) l : cnt p (map f l) = cnt (fun e => p (f e)) l.
Proof.
  induction l as [|x l IH]; [reflexivity|]. simpl map. rewrite !cnt_cons, IH. reflexivity.
Qed.
Lemma cnt_negb p l : (cnt p l + cnt (fun e => negb (p e)) l)%nat = length l.
Proof.
  induction l as [|x l IH]; [reflexivity|]. rewrite !cnt_cons. simpl length.
  destruct (p x); cbn [negb]; lia.
Qed.

Lemma count_le_proper l t t' : t == t' -> count_le l t = count_le l t'.
Proof.
  intros E. rewrite !count_le_cnt. apply cnt_ext. intros e _.
  apply bool_eq_iff. rewrite !leb_true_iff. rewrite E. tauto.
Qed.
Lemma count_lt_proper l t t' : t == t' -> count_lt l t = count_lt l t'.
Proof.
  intros E. rewrite !count_lt_cnt. apply cnt_ext. intros e _.
  apply bool_eq_iff. rewrite !nleb_true_iff. rewrite E. tauto.
Qed.
Lemma count_le_mono l t t' : t <= t' -> (count_le l t <= count_le l t')%nat.
Proof.
  intros L. rewrite !count_le_cnt. apply cnt_mono. intros e _.
  rewrite !leb_true_iff. intros H. lra.
Qed.
Lemma count_le_lt l t t' : t < t' -> (count_le l t <= count_lt l t')%nat.
Proof.
  intros L. rewrite count_le_cnt, count_lt_cnt. apply cnt_mono. intros e _.
  rewrite leb_true_iff, nleb_true_iff. intros H. lra.
Qed.
Lemma count_lt_le l t : (count_lt l t <= count_le l t)%nat.
Proof.
  rewrite count_le_cnt, count_lt_cnt. apply cnt_mono. intros e _.
  rewrite leb_true_iff, nleb_true_iff. intros H. lra.
Qed.

(* ---------- maxima of finite lists, minQ ---------- *)
Lemma exists_max (l : list elt) : l <> [] ->
  exists m, In m l /\ forall e, In e l -> ey e <= ey m.
Proof.
  induction l as [|x l IH]; intros Hn; [congruence|].
  destruct l as [|y l].
  - exists x. split; [left; reflexivity|]. intros e [<-|[]]. lra.
  - destruct IH as [m [Hm Hmax]]; [discriminate|].
    destruct (Qlt_le_dec (ey m) (ey x)) as [Hlt|Hle].
    + exists x. split; [left; reflexivity|].
      intros e [<-|He]; [lra|]. specialize (Hmax e He). lra.
    + exists m. split; [right; exact Hm|].
      intros e [<-|He]; [exact Hle| apply Hmax; exact He].
Qed.

Lemma exists_max_p (p : elt -> bool) l : (exists e, In e l /\ p e = true) ->
  exists m, In m l /\ p m = true /\ forall e, In e l -> p e = true -> ey e <= ey m.
Proof.
  intros [e [He Hp]].
  destruct (exists_max (filter p l)) as [m [Hm Hmax]].
  - intros E. assert (Hin : In e (filter p l)) by (apply filter_In; auto).
    rewrite E in Hin. destruct Hin.
  - apply filter_In in Hm. destruct Hm as [Hm1 Hm2].
    exists m. split; [exact Hm1|]. split; [exact Hm2|].
    intros e' He' Hp'. apply Hmax. apply filter_In. auto.
Qed.

Lemma minQ_in x l : minQ x l = x \/ In (minQ x l) l.
Proof.
  revert x. induction l as [|y l IH]; intros x; simpl; [left; reflexivity|].
  destruct (IH (if Qle_bool y x then y else x)) as [E|E].
  - rewrite E. destruct (Qle_bool y x); [right; left; reflexivity| left; reflexivity].
  - right; right; exact E.
Qed.
Lemma minQ_le x l : minQ x l <= x /\ forall y, In y l -> minQ x l <= y.
Proof.
  revert x. induction l as [|y l IH]; intros x; simpl.
  - split; [lra| intros y []].
  - destruct (IH (if Qle_bool y x then y else x)) as [H1 H2].
    destruct (Qle_bool y x) eqn:Eb.
    + apply Qle_bool_iff in Eb. split; [lra|].
      intros z [<-|Hz]; [exact H1| apply H2; exact Hz].
    + apply (leb_false_iff y x) in Eb. split; [exact H1|].
      intros z [<-|Hz]; [lra| apply H2; exact Hz].
Qed.

(* ---------- the lower quantile ---------- *)
Section Quantile.
Variable a : Q.
Hypothesis Ha : 0 < a /\ a < 1.

Lemma reaches_iff l t : reaches a l t = true <-> a * Qnat (length l) <= Qnat (count_le l t).
Proof. unfold reaches. apply leb_true_iff. Qed.

Lemma hi_quantile l t :
  hi elt (Vp_quantile a) l t == Qnat (count_le l t) - a * Qnat (length l).
Proof.
  induction l as [|e l IH].
  - unfold count_le, Qnat. simpl. ring.
  - simpl hi. rewrite IH. rewrite !count_le_cnt, cnt_cons. simpl length. rewrite Qnat_S.
    unfold Vp_quantile. destruct (leb (ey e) t); [rewrite Qnat_S|]; ring.
Qed.

Lemma lo_quantile l t :
  lo elt (Vm_quantile a) l t == Qnat (count_lt l t) - a * Qnat (length l).
Proof.
  induction l as [|e l IH].
  - unfold count_lt, Qnat. simpl. ring.
  - simpl lo. rewrite IH. rewrite !count_lt_cnt, cnt_cons. simpl length. rewrite Qnat_S.
    unfold Vm_quantile. destruct (leb t (ey e)); cbn [negb]; [|rewrite Qnat_S]; ring.
Qed.

(* qlow is a data value that reaches the level, and the least such *)
Lemma qlow_char l : l <> [] ->
  exists e, In e l /\ qlow a l = ey e /\ reaches a l (ey e) = true /\
            forall e', In e' l -> reaches a l (ey e') = true -> qlow a l <= ey e'.
Proof.
  intros Hn. destruct Ha as [Ha0 Ha1].
  destruct (exists_max l Hn) as [m [Hm Hmax]].
  assert (Rm : reaches a l (ey m) = true).
  { apply reaches_iff. rewrite count_le_cnt. rewrite (cnt_all _ l).
    - pose proof (Qnat_nonneg (length l)) as Hl. nra.
    - intros e He. apply leb_true_iff. apply Hmax; exact He. }
  unfold qlow.
  remember (filter (fun e => reaches a l (ey e)) l) as F eqn:EF.
  assert (HF : forall e, In e F <-> In e l /\ reaches a l (ey e) = true)
    by (intros e; rewrite EF; apply filter_In).
  assert (HmF : In m F) by (apply HF; auto).
  destruct F as [|x xs]; [destruct HmF|]. simpl map.
  assert (Hmin : forall e', In e' l -> reaches a l (ey e') = true ->
                            minQ (ey x) (map ey xs) <= ey e').
  { intros e' H1 H2. destruct (minQ_le (ey x) (map ey xs)) as [M1 M2].
    assert (Hin : In e' (x :: xs)) by (apply HF; auto).
    destruct Hin as [<-|Hin]; [exact M1| apply M2; apply in_map; exact Hin]. }
  destruct (minQ_in (ey x) (map ey xs)) as [E|E].
  - exists x. destruct (proj1 (HF x) (or_introl eq_refl)) as [Hx1 Hx2].
    split; [exact Hx1|]. split; [exact E|]. split; [exact Hx2| exact Hmin].
  - apply in_map_iff in E. destruct E as [e [Ee He]].
    destruct (proj1 (HF e) (or_intror He)) as [He1 He2].
    exists e. split; [exact He1|]. split; [symmetry; exact Ee|]. split; [exact He2| exact Hmin].
Qed.

Lemma qlow_in_eq S : S <> [] -> exists e, In e S /\ qlow a S = ey e.
Proof.
  intros Sn. destruct (qlow_char S Sn) as [e [H1 [H2 _]]]. exists e. auto.
Qed.

Lemma qlow_in S : S <> [] -> exists e, In e S /\ qlow a S == ey e.
Proof.
  intros Sn. destruct (qlow_in_eq S Sn) as [e [H1 H2]]. exists e. rewrite H2. split; [exact H1| reflexivity].
Qed.

Lemma qlow_reaches S : S <> [] -> a * Qnat (length S) <= Qnat (count_le S (qlow a S)).
Proof.
  intros Sn. destruct (qlow_char S Sn) as [e [_ [H2 [H3 _]]]].
  rewrite H2. apply reaches_iff. exact H3.
Qed.

Lemma qlow_least S t : S <> [] -> a * Qnat (length S) <= Qnat (count_le S t) -> qlow a S <= t.
Proof.
  intros Sn H. destruct Ha as [Ha0 Ha1].
  pose proof (Qnat_length_pos S Sn) as Hn.
  assert (Hc : (1 <= count_le S t)%nat).
  { apply Qnat_pos_ge1. nra. }
  rewrite count_le_cnt in Hc.
  destruct (exists_max_p _ S (cnt_ex _ S Hc)) as [m [Hm [Pm Hmax]]].
  apply leb_true_iff in Pm.
  assert (Ec : count_le S (ey m) = count_le S t).
  { rewrite !count_le_cnt. apply cnt_ext. intros e He. apply bool_eq_iff.
    rewrite !leb_true_iff. split; intros Hle.
    - lra.
    - apply Hmax; [exact He|]. apply leb_true_iff. exact Hle. }
  destruct (qlow_char S Sn) as [e [_ [_ [_ Hmin]]]].
  assert (Hq : qlow a S <= ey m).
  { apply Hmin; [exact Hm|]. apply reaches_iff. rewrite Ec. exact H. }
  lra.
Qed.

(* if the strict count at t already reaches the level, qlow lies strictly below t *)
Lemma qlow_lt_of_count_lt S t : S <> [] ->
  a * Qnat (length S) <= Qnat (count_lt S t) -> qlow a S < t.
Proof.
  intros Sn H. destruct Ha as [Ha0 Ha1].
  pose proof (Qnat_length_pos S Sn) as Hn.
  assert (Hc : (1 <= count_lt S t)%nat).
  { apply Qnat_pos_ge1. nra. }
  rewrite count_lt_cnt in Hc.
  destruct (exists_max_p _ S (cnt_ex _ S Hc)) as [m [Hm [Pm Hmax]]].
  apply nleb_true_iff in Pm.
  assert (Ec : count_le S (ey m) = count_lt S t).
  { rewrite count_le_cnt, count_lt_cnt. apply cnt_ext. intros e He. apply bool_eq_iff.
    rewrite leb_true_iff, nleb_true_iff. split; intros Hle.
    - lra.
    - apply Hmax; [exact He|]. apply nleb_true_iff. exact Hle. }
  destruct (qlow_char S Sn) as [e [_ [_ [_ Hmin]]]].
  assert (Hq : qlow a S <= ey m).
  { apply Hmin; [exact Hm|]. apply reaches_iff. rewrite Ec. exact H. }
  lra.
Qed.

Lemma qlow_below S : S <> [] -> Qnat (count_lt S (qlow a S)) < a * Qnat (length S).
Proof.
  intros Sn.
  destruct (Qlt_le_dec (Qnat (count_lt S (qlow a S))) (a * Qnat (length S))) as [Hlt|Hge];
    [exact Hlt|].
  exfalso. pose proof (qlow_lt_of_count_lt S (qlow a S) Sn Hge) as C. lra.
Qed.

Lemma qlow_greatest S t : S <> [] -> Qnat (count_lt S t) < a * Qnat (length S) -> t <= qlow a S.
Proof.
  intros Sn H.
  destruct (Qlt_le_dec (qlow a S) t) as [Hlt|Hge]; [|exact Hge].
  exfalso. pose proof (qlow_reaches S Sn) as R.
  pose proof (proj1 (Qnat_le _ _) (count_le_lt S (qlow a S) t Hlt)) as M. lra.
Qed.

(* ---------- the instance ---------- *)
Lemma quant_V1 (e : elt) (t : Q) : True -> Vm_quantile a e t <= Vp_quantile a e t.
Proof.
  intros _. unfold Vm_quantile, Vp_quantile.
  destruct (leb t (ey e)) eqn:E1; destruct (leb (ey e) t) eqn:E2; try lra.
  apply leb_false_iff in E1. apply leb_false_iff in E2. lra.
Qed.

Lemma quant_V2 (e : elt) (t t' : Q) : True -> t < t' -> Vp_quantile a e t <= Vm_quantile a e t'.
Proof.
  intros _ L. unfold Vm_quantile, Vp_quantile.
  destruct (leb (ey e) t) eqn:E1; destruct (leb t' (ey e)) eqn:E2; try lra.
  apply leb_true_iff in E1. apply leb_true_iff in E2. lra.
Qed.

Lemma quant_V3 (e : elt) (t : Q) : True -> ey e <= t -> Vp_quantile a e t >= 0.
Proof.
  intros _ L. destruct Ha as [Ha0 Ha1]. unfold Vp_quantile.
  apply leb_true_iff in L. rewrite L. lra.
Qed.

Lemma quant_V4 (e : elt) (t : Q) : True -> t <= ey e -> Neg true (Vm_quantile a e t).
Proof.
  intros _ L. destruct Ha as [Ha0 Ha1]. unfold Vm_quantile, Neg.
  apply leb_true_iff in L. rewrite L. lra.
Qed.

Lemma quant_Vp_proper (e : elt) (t t' : Q) : t == t' -> Vp_quantile a e t == Vp_quantile a e t'.
Proof.
  intros E. unfold Vp_quantile.
  assert (Eb : leb (ey e) t = leb (ey e) t').
  { apply bool_eq_iff. rewrite !leb_true_iff. rewrite E. tauto. }
  rewrite Eb. reflexivity.
Qed.

Lemma quant_Vm_proper (e : elt) (t t' : Q) : t == t' -> Vm_quantile a e t == Vm_quantile a e t'.
Proof.
  intros E. unfold Vm_quantile.
  assert (Eb : leb t (ey e) = leb t' (ey e)).
  { apply bool_eq_iff. rewrite !leb_true_iff. rewrite E. tauto. }
  rewrite Eb. reflexivity.
Qed.

Lemma quant_T1 S : S <> [] -> Forall (fun _ : elt => True) S ->
  hi elt (Vp_quantile a) S (qlow a S) >= 0.
Proof. intros Sn _. rewrite hi_quantile. pose proof (qlow_reaches S Sn) as H. lra. Qed.

Lemma quant_T2 S : S <> [] -> Forall (fun _ : elt => True) S ->
  Neg true (lo elt (Vm_quantile a) S (qlow a S)).
Proof. intros Sn _. unfold Neg. rewrite lo_quantile. pose proof (qlow_below S Sn) as H. lra. Qed.

Lemma quant_T3 S t : S <> [] -> Forall (fun _ : elt => True) S ->
  hi elt (Vp_quantile a) S t >= 0 -> qlow a S <= t.
Proof. intros Sn _ H. rewrite hi_quantile in H. apply qlow_least; [exact Sn| lra]. Qed.

Lemma quant_T4 S t : S <> [] -> Forall (fun _ : elt => True) S ->
  Neg true (lo elt (Vm_quantile a) S t) -> t <= qlow a S.
Proof. intros Sn _ H. unfold Neg in H. rewrite lo_quantile in H. apply qlow_greatest; [exact Sn| lra]. Qed.

Lemma quant_T0 (e : elt) : True -> qlow a [e] == ey e.
Proof.
  intros _. destruct (qlow_in [e]) as [e' [He' E]]; [discriminate|].
  destruct He' as [<-|[]]. exact E.
Qed.

Definition quantile_inst : GInst :=
  {| g_elt := elt; g_yv := ey; g_good := fun _ => True;
     g_Vp := Vp_quantile a; g_Vm := Vm_quantile a; g_strict := true; g_T := qlow a;
     g_V1 := quant_V1; g_V2 := quant_V2; g_V3 := quant_V3; g_V4 := quant_V4;
     g_Vp_proper := quant_Vp_proper; g_Vm_proper := quant_Vm_proper;
     g_T1 := quant_T1; g_T2 := quant_T2; g_T3 := quant_T3; g_T4 := quant_T4;
     g_T0 := quant_T0 |}.

End Quantile.

(* ---------- the upper quantile ---------- *)
Lemma level_compl a : 0 < a /\ a < 1 -> 0 < 1 - a /\ 1 - a < 1.
Proof. intros [H0 H1]. split; lra. Qed.

Lemma ey_negy e : ey (negy e) = - ey e.
Proof. reflexivity. Qed.

Lemma count_lt_neg l t : (count_lt (map negy l) (- t) + count_le l t)%nat = length l.
Proof.
  rewrite count_lt_cnt, count_le_cnt, cnt_map.
  rewrite <- (cnt_negb (fun e => leb (ey e) t) l). rewrite Nat.add_comm. f_equal.
  apply cnt_ext. intros e _. apply bool_eq_iff.
  rewrite !nleb_true_iff, ey_negy. split; intros H; lra.
Qed.

Lemma count_le_neg l t : (count_le (map negy l) (- t) + count_lt l t)%nat = length l.
Proof.
  rewrite count_lt_cnt, count_le_cnt, cnt_map.
  rewrite <- (cnt_negb (fun e => leb t (ey e)) l). f_equal.
  apply cnt_ext. intros e _. apply bool_eq_iff.
  rewrite !leb_true_iff, ey_negy. split; intros H; lra.
Qed.

Lemma count_lt_neg_Q l t :
  Qnat (count_lt (map negy l) (- t)) + Qnat (count_le l t) == Qnat (length l).
Proof. rewrite <- Qnat_plus, count_lt_neg. reflexivity. Qed.

Lemma count_le_neg_Q l t :
  Qnat (count_le (map negy l) (- t)) + Qnat (count_lt l t) == Qnat (length l).
Proof. rewrite <- Qnat_plus, count_le_neg. reflexivity. Qed.

Section Upper.
Variable a : Q.
Hypothesis Ha : 0 < a /\ a < 1.

Lemma negy_nonempty (S : list elt) : S <> [] -> map negy S <> [].
Proof. intros Sn. destruct S; [congruence| discriminate]. Qed.

Lemma qupp_neg S : - qupp a S == qlow (1 - a) (map negy S).
Proof. unfold qupp. ring. Qed.

Lemma qupp_in S : S <> [] -> exists e, In e S /\ qupp a S == ey e.
Proof.
  intros Sn.
  destruct (qlow_in (1 - a) (level_compl a Ha) (map negy S) (negy_nonempty S Sn)) as [e' [He' E]].
  apply in_map_iff in He'. destruct He' as [e [Ee He]]. subst e'.
  exists e. split; [exact He|]. unfold qupp. rewrite E, ey_negy. ring.
Qed.

Lemma qupp_spec1 S : S <> [] -> Qnat (count_lt S (qupp a S)) <= a * Qnat (length S).
Proof.
  intros Sn.
  pose proof (qlow_reaches (1 - a) (level_compl a Ha) (map negy S) (negy_nonempty S Sn)) as R.
  rewrite map_length in R.
  rewrite <- (count_le_proper _ _ _ (qupp_neg S)) in R.
  pose proof (count_le_neg_Q S (qupp a S)) as E. lra.
Qed.

(* the In hypothesis is not needed; see qupp_greatest *)
Lemma qupp_greatest S t : S <> [] -> Qnat (count_lt S t) <= a * Qnat (length S) -> t <= qupp a S.
Proof.
  intros Sn H.
  pose proof (count_le_neg_Q S t) as E.
  assert (L : qlow (1 - a) (map negy S) <= - t).
  { apply (qlow_least (1 - a) (level_compl a Ha)); [apply negy_nonempty; exact Sn|].
    rewrite map_length. lra. }
  unfold qupp. lra.
Qed.

Lemma qupp_spec2 S t : S <> [] -> In t (map ey S) ->
  Qnat (count_lt S t) <= a * Qnat (length S) -> t <= qupp a S.
Proof. intros Sn _ H. apply qupp_greatest; assumption. Qed.

Lemma qlow_le_qupp S : S <> [] -> qlow a S <= qupp a S.
Proof.
  intros Sn. apply (qlow_least a Ha); [exact Sn|].
  pose proof (qlow_below (1 - a) (level_compl a Ha) (map negy S) (negy_nonempty S Sn)) as B.
  rewrite map_length in B.
  rewrite <- (count_lt_proper _ _ _ (qupp_neg S)) in B.
  pose proof (count_lt_neg_Q S (qupp a S)) as E. lra.
Qed.

(* strictly above qupp the strict count exceeds the level *)
Lemma qupp_above S t : S <> [] -> qupp a S < t -> a * Qnat (length S) < Qnat (count_lt S t).
Proof.
  intros Sn L.
  destruct (Qlt_le_dec (a * Qnat (length S)) (Qnat (count_lt S t))) as [Hlt|Hge]; [exact Hlt|].
  exfalso. pose proof (qupp_greatest S t Sn Hge) as C. lra.
Qed.

End Upper.

Print Assumptions quantile_inst.
