(* Analytic facts behind the closed-form scores of spec/Scores.v: the scores are
   Bregman divergences of convex generators (tangent-line inequalities, monotone
   derivatives), and the quantile-type transform G is increasing. *)
From Coq Require Import Reals Lra Psatz List Bool.
Import ListNotations. Open Scope R_scope.
From MD Require Import lib.NumpyR spec.Scores.

(* ------------------------------------------------------------------ *)
(* A. basic inequalities                                               *)

Lemma ln_le_sub1 x : 0 < x -> ln x <= x - 1.
Proof.
  intros Hx.
  pose proof (exp_ineq1_le (ln x)) as H.
  rewrite (exp_ln x Hx) in H. lra.
Qed.

Lemma Rpower_pos x h : 0 < Rpower x h.
Proof. unfold Rpower. apply exp_pos. Qed.

Lemma Rpower_base1 h : Rpower 1 h = 1.
Proof. unfold Rpower. rewrite ln_1, Rmult_0_r, exp_0. reflexivity. Qed.

(* weighted AM-GM *)
Lemma amgm a b l : 0 < a -> 0 < b -> 0 <= l <= 1 ->
  Rpower a l * Rpower b (1 - l) <= l * a + (1 - l) * b.
Proof.
  intros Ha Hb Hl.
  set (A := l * a + (1 - l) * b).
  assert (HA : 0 < A) by (unfold A; timeout 60 nra).
  assert (HiA : 0 < / A) by (apply Rinv_0_lt_compat; exact HA).
  assert (H1 : ln (a / A) <= a / A - 1).
  { apply ln_le_sub1. unfold Rdiv. apply Rmult_lt_0_compat; assumption. }
  assert (H2 : ln (b / A) <= b / A - 1).
  { apply ln_le_sub1. unfold Rdiv. apply Rmult_lt_0_compat; assumption. }
  unfold Rdiv in H1, H2.
  rewrite ln_mult in H1 by assumption.
  rewrite ln_mult in H2 by assumption.
  rewrite ln_Rinv in H1 by assumption.
  rewrite ln_Rinv in H2 by assumption.
  assert (E : l * (a * / A - 1) + (1 - l) * (b * / A - 1) = 0).
  { unfold A. field. fold A. lra. }
  assert (H3 : l * ln a + (1 - l) * ln b <= ln A).
  { assert (H1' : l * (ln a + - ln A) <= l * (a * / A - 1))
      by (apply Rmult_le_compat_l; lra).
    assert (H2' : (1 - l) * (ln b + - ln A) <= (1 - l) * (b * / A - 1))
      by (apply Rmult_le_compat_l; lra).
    lra. }
  unfold Rpower. rewrite <- exp_plus.
  fold A.
  apply Rle_trans with (exp (ln A)); [| rewrite (exp_ln A HA); lra].
  destruct H3 as [H3 | H3].
  - left. apply exp_increasing. lra.
  - right. f_equal. lra.
Qed.

Lemma bernoulli_01 t h : 0 < t -> 0 <= h <= 1 -> Rpower t h <= 1 + h * (t - 1).
Proof.
  intros Ht Hh.
  pose proof (amgm t 1 h Ht Rlt_0_1 Hh) as H.
  rewrite Rpower_base1 in H. lra.
Qed.

Lemma bernoulli_ge1 t h : 0 < t -> 1 <= h -> Rpower t h >= 1 + h * (t - 1).
Proof.
  intros Ht Hh.
  destruct (Rle_lt_dec (1 + h * (t - 1)) 0) as [Hs | Hs].
  - pose proof (Rpower_pos t h). lra.
  - set (s := 1 + h * (t - 1)) in *.
    assert (Hih : 0 < / h) by (apply Rinv_0_lt_compat; lra).
    assert (Hih1 : / h <= 1).
    { rewrite <- Rinv_1. apply Rinv_le_contravar; lra. }
    assert (H : Rpower s (/ h) <= 1 + / h * (s - 1)).
    { apply bernoulli_01; lra. }
    assert (E : 1 + / h * (s - 1) = t) by (unfold s; field; lra).
    rewrite E in H.
    assert (H2 : Rpower (Rpower s (/ h)) h <= Rpower t h).
    { apply Rle_Rpower_l; [lra |]. split; [apply Rpower_pos | exact H]. }
    rewrite Rpower_mult in H2.
    replace (/ h * h) with 1 in H2 by (field; lra).
    rewrite Rpower_1 in H2 by exact Hs. lra.
Qed.

Lemma bernoulli_neg t h : 0 < t -> h <= 0 -> Rpower t h >= 1 + h * (t - 1).
Proof.
  intros Ht Hh.
  destruct Hh as [Hh | Hh].
  2:{ subst h. rewrite Rpower_O by exact Ht. lra. }
  set (l := / (1 - h)).
  assert (Hl0 : 0 < l) by (apply Rinv_0_lt_compat; lra).
  assert (Hl1 : l <= 1).
  { unfold l. rewrite <- Rinv_1. apply Rinv_le_contravar; lra. }
  assert (Hp : 0 < Rpower t h) by apply Rpower_pos.
  assert (Hl : 0 <= l <= 1) by lra.
  pose proof (amgm (Rpower t h) t l Hp Ht Hl) as H.
  rewrite Rpower_mult, <- Rpower_plus in H.
  replace (h * l + (1 - l)) with 0 in H by (unfold l; field; lra).
  rewrite Rpower_O in H by exact Ht.
  assert (E : (1 - h) * l = 1) by (unfold l; field; lra).
  assert (H' : (1 - h) * 1 <= (1 - h) * (l * Rpower t h + (1 - l) * t)).
  { apply Rmult_le_compat_l; lra. }
  replace ((1 - h) * (l * Rpower t h + (1 - l) * t))
    with (((1 - h) * l) * Rpower t h + ((1 - h) - (1 - h) * l) * t) in H' by ring.
  rewrite E in H'. lra.
Qed.

Lemma Rpower_pred z h : 0 < z -> Rpower z (h - 1) = Rpower z h / z.
Proof.
  intros Hz. unfold Rminus. rewrite Rpower_plus, Rpower_Ropp, Rpower_1 by exact Hz.
  reflexivity.
Qed.

Lemma Rpower_ratio y z h : 0 < y -> 0 < z -> Rpower y h = Rpower z h * Rpower (y / z) h.
Proof.
  intros Hy Hz.
  rewrite Rpower_mult_distr.
  - f_equal. field. lra.
  - exact Hz.
  - unfold Rdiv. apply Rmult_lt_0_compat; [exact Hy | apply Rinv_0_lt_compat; exact Hz].
Qed.

Lemma rpower_conv y z h : 0 < y -> 0 < z ->
  (h >= 1 \/ h <= 0 -> Rpower y h >= Rpower z h + h * Rpower z (h - 1) * (y - z)) /\
  (0 <= h <= 1 -> Rpower y h <= Rpower z h + h * Rpower z (h - 1) * (y - z)).
Proof.
  intros Hy Hz.
  assert (Ht : 0 < y / z).
  { unfold Rdiv. apply Rmult_lt_0_compat; [exact Hy | apply Rinv_0_lt_compat; exact Hz]. }
  assert (Hp : 0 < Rpower z h) by apply Rpower_pos.
  assert (E : Rpower z h + h * Rpower z (h - 1) * (y - z)
              = Rpower z h * (1 + h * (y / z - 1))).
  { rewrite Rpower_pred by exact Hz. field. lra. }
  rewrite E. rewrite (Rpower_ratio y z h Hy Hz).
  split.
  - intros [Hh | Hh].
    + apply Rle_ge. apply Rmult_le_compat_l; [lra |].
      apply Rge_le. apply bernoulli_ge1; [exact Ht | lra].
    + apply Rle_ge. apply Rmult_le_compat_l; [lra |].
      apply Rge_le. apply bernoulli_neg; [exact Ht | lra].
  - intros Hh. apply Rmult_le_compat_l; [lra |].
    apply bernoulli_01; assumption.
Qed.

Lemma ln_mono a b : 0 < a -> a <= b -> ln a <= ln b.
Proof.
  intros Ha [Hab | Hab].
  - left. apply ln_increasing; assumption.
  - subst b. right. reflexivity.
Qed.

(* Rpower is non-increasing in the base for a non-positive exponent *)
Lemma Rpower_anti a b k : k <= 0 -> 0 < a <= b -> Rpower b k <= Rpower a k.
Proof.
  intros Hk Hab.
  assert (E : forall x, Rpower x k = / Rpower x (- k)).
  { intros x. rewrite <- Rpower_Ropp. f_equal. ring. }
  rewrite (E a), (E b).
  apply Rinv_le_contravar; [apply Rpower_pos |].
  apply Rle_Rpower_l; lra.
Qed.

(* ------------------------------------------------------------------ *)
(* numpy vocabulary on the ranges we need                              *)

Lemma pw_pos x h : 0 < x -> pw x h = Rpower x h.
Proof.
  intros Hx. unfold pw, np_power.
  destruct (Rltb 0 x) eqn:E; [reflexivity |].
  apply Rltb_false in E. lra.
Qed.

Lemma pw_0 h : h <> 0 -> pw 0 h = 0.
Proof.
  intros Hh. unfold pw, np_power.
  destruct (Rltb 0 0) eqn:E; [apply Rltb_true in E; lra |].
  destruct (Reqb 0 0) eqn:E0; [| apply Reqb_false in E0; lra].
  destruct (Reqb h 0) eqn:Eh; [apply Reqb_true in Eh; contradiction | reflexivity].
Qed.

Lemma pw_abs_nonneg x h : 0 <= pw (Rabs x) h.
Proof.
  destruct (Rabs_pos x) as [Hx | Hx].
  - rewrite pw_pos by exact Hx. left. apply Rpower_pos.
  - rewrite <- Hx. unfold pw, np_power.
    destruct (Rltb 0 0) eqn:E; [apply Rltb_true in E; lra |].
    destruct (Reqb 0 0) eqn:E0; [| apply Reqb_false in E0; lra].
    destruct (Reqb h 0); lra.
Qed.

Lemma np_sign_pos x : 0 < x -> np_sign x = 1.
Proof.
  intros Hx. unfold np_sign.
  destruct (Rltb 0 x) eqn:E; [reflexivity | apply Rltb_false in E; lra].
Qed.

Lemma np_sign_neg x : x < 0 -> np_sign x = -1.
Proof.
  intros Hx. unfold np_sign.
  destruct (Rltb 0 x) eqn:E; [apply Rltb_true in E; lra |].
  destruct (Rltb x 0) eqn:E'; [reflexivity | apply Rltb_false in E'; lra].
Qed.

Lemma np_sign_0 : np_sign 0 = 0.
Proof.
  unfold np_sign.
  destruct (Rltb 0 0) eqn:E; [apply Rltb_true in E; lra |]. reflexivity.
Qed.

Lemma np_sign_opp x : np_sign (- x) = - np_sign x.
Proof.
  destruct (Rtotal_order x 0) as [Hx | [Hx | Hx]].
  - rewrite (np_sign_neg x Hx), np_sign_pos by lra. ring.
  - subst x. rewrite Ropp_0, np_sign_0. ring.
  - rewrite (np_sign_pos x Hx), np_sign_neg by lra. ring.
Qed.

Lemma hrange_cases h :
  (1 < h /\ hrange_of h = Hgt1) \/ (h = 1 /\ hrange_of h = Heq1) \/
  (h = 0 /\ hrange_of h = Heq0) \/ (h < 1 /\ h <> 0 /\ hrange_of h = Hlt1).
Proof.
  unfold hrange_of.
  destruct (Rltb 1 h) eqn:E1; [apply Rltb_true in E1 | apply Rltb_false in E1].
  - left. split; [exact E1 | reflexivity].
  - destruct (Reqb h 1) eqn:E2; [apply Reqb_true in E2 | apply Reqb_false in E2].
    + right; left. split; [exact E2 | reflexivity].
    + destruct (Reqb h 0) eqn:E3; [apply Reqb_true in E3 | apply Reqb_false in E3].
      * right; right; left. split; [exact E3 | reflexivity].
      * right; right; right. split; [lra | split; [exact E3 | reflexivity]].
Qed.

(* the signed power  sign(x) |x|^k  and  |x|^h *)
Definition spw (k x : R) : R := np_sign x * pw (Rabs x) k.

Lemma spw_pos k x : 0 < x -> spw k x = Rpower x k.
Proof.
  intros Hx. unfold spw.
  rewrite (np_sign_pos x Hx), Rabs_pos_eq, pw_pos by lra. ring.
Qed.

Lemma spw_neg k x : x < 0 -> spw k x = - Rpower (- x) k.
Proof.
  intros Hx. unfold spw.
  rewrite (np_sign_neg x Hx), Rabs_left, pw_pos by lra. ring.
Qed.

Lemma spw_0 k : spw k 0 = 0.
Proof. unfold spw. rewrite np_sign_0. ring. Qed.

Lemma spw_mono k a b : 0 <= k -> a <= b -> spw k a <= spw k b.
Proof.
  intros Hk Hab.
  destruct (Rtotal_order a 0) as [Ha | [Ha | Ha]];
  destruct (Rtotal_order b 0) as [Hb | [Hb | Hb]]; try lra.
  - rewrite (spw_neg k a Ha), (spw_neg k b Hb).
    apply Ropp_le_contravar. apply Rle_Rpower_l; lra.
  - subst b. rewrite (spw_neg k a Ha), spw_0.
    pose proof (Rpower_pos (- a) k). lra.
  - rewrite (spw_neg k a Ha), (spw_pos k b Hb).
    pose proof (Rpower_pos (- a) k). pose proof (Rpower_pos b k). lra.
  - subst a. subst b. lra.
  - subst a. rewrite spw_0, (spw_pos k b Hb).
    pose proof (Rpower_pos b k). lra.
  - rewrite (spw_pos k a Ha), (spw_pos k b Hb).
    apply Rle_Rpower_l; lra.
Qed.

(* ------------------------------------------------------------------ *)
(* B. the generator family phi_h                                       *)

(* h > 1, prediction z > 0 *)
Lemma gt1_core_zpos h y z : 1 < h -> 0 < z ->
  0 <= pw (Rabs y) h - pw (Rabs z) h - h * spw (h - 1) z * (y - z).
Proof.
  intros Hh Hz.
  rewrite (spw_pos (h - 1) z Hz).
  rewrite (Rabs_pos_eq z) by lra. rewrite (pw_pos z h Hz).
  assert (HP : 0 < Rpower z h) by apply Rpower_pos.
  assert (HQ : 0 < Rpower z (h - 1)) by apply Rpower_pos.
  assert (HPQ : Rpower z (h - 1) * z = Rpower z h).
  { rewrite Rpower_pred by exact Hz. field. lra. }
  destruct (Rtotal_order y 0) as [Hy | [Hy | Hy]].
  - rewrite (Rabs_left y Hy), pw_pos by lra.
    assert (HY : 0 < Rpower (- y) h) by apply Rpower_pos.
    set (P := Rpower z h) in *. set (Q := Rpower z (h - 1)) in *.
    set (Y := Rpower (- y) h) in *.
    assert (H1 : 0 <= h * Q * (- y)).
    { apply Rmult_le_pos; [apply Rmult_le_pos |]; lra. }
    assert (H2 : 0 <= (h - 1) * P) by (apply Rmult_le_pos; lra).
    replace (Y - P - h * Q * (y - z))
      with (Y + h * Q * (- y) + (h * (Q * z) - P)) by ring.
    rewrite HPQ. lra.
  - subst y. rewrite Rabs_R0, pw_0 by lra.
    set (P := Rpower z h) in *. set (Q := Rpower z (h - 1)) in *.
    replace (0 - P - h * Q * (0 - z)) with (h * (Q * z) - P) by ring.
    rewrite HPQ.
    assert (H2 : 0 <= (h - 1) * P) by (apply Rmult_le_pos; lra). lra.
  - rewrite (Rabs_pos_eq y), pw_pos by lra.
    destruct (rpower_conv y z h Hy Hz) as [Hc _].
    assert (Hh' : h >= 1 \/ h <= 0) by (left; lra).
    specialize (Hc Hh'). lra.
Qed.

Lemma gt1_core h y z : 1 < h ->
  0 <= pw (Rabs y) h - pw (Rabs z) h - h * spw (h - 1) z * (y - z).
Proof.
  intros Hh.
  destruct (Rtotal_order z 0) as [Hz | [Hz | Hz]].
  - assert (Hz' : 0 < - z) by lra.
    pose proof (gt1_core_zpos h (- y) (- z) Hh Hz') as H.
    rewrite !Rabs_Ropp in H.
    unfold spw in H. rewrite np_sign_opp, Rabs_Ropp in H.
    unfold spw.
    replace (h * (np_sign z * pw (Rabs z) (h - 1)) * (y - z))
      with (h * (- np_sign z * pw (Rabs z) (h - 1)) * (- y - - z)) by ring.
    exact H.
  - subst z. rewrite spw_0, Rabs_R0, pw_0 by lra.
    pose proof (pw_abs_nonneg y h). lra.
  - apply gt1_core_zpos; assumption.
Qed.

Lemma xlogy_nz x y : x <> 0 -> xlogy x y = x * ln y.
Proof.
  intros Hx. unfold xlogy.
  destruct (Reqb x 0) eqn:E; [apply Reqb_true in E; contradiction | reflexivity].
Qed.

Lemma xlogy_0 y : xlogy 0 y = 0.
Proof.
  unfold xlogy.
  destruct (Reqb 0 0) eqn:E; [reflexivity | apply Reqb_false in E; lra].
Qed.

(* y ln (y / z) >= y - z : the common core of the h = 1 case and of Gibbs *)
Lemma kl_core y z : 0 < y -> 0 < z -> y * (ln z - ln y) <= z - y.
Proof.
  intros Hy Hz.
  assert (Hiy : 0 < / y) by (apply Rinv_0_lt_compat; exact Hy).
  assert (H : ln (z / y) <= z / y - 1).
  { apply ln_le_sub1. unfold Rdiv. apply Rmult_lt_0_compat; assumption. }
  unfold Rdiv in H. rewrite ln_mult, ln_Rinv in H by assumption.
  assert (H' : y * (ln z + - ln y) <= y * (z * / y - 1))
    by (apply Rmult_le_compat_l; lra).
  replace (y * (z * / y - 1)) with (z - y) in H' by (field; lra).
  lra.
Qed.

Lemma div_nonneg a d : 0 <= a -> 0 < d -> 0 <= a / d.
Proof.
  intros Ha Hd. unfold Rdiv. apply Rmult_le_pos; [exact Ha |].
  left. apply Rinv_0_lt_compat. exact Hd.
Qed.

Lemma div_nonpos_neg a d : a <= 0 -> d < 0 -> 0 <= a / d.
Proof.
  intros Ha Hd.
  replace (a / d) with ((- a) / (- d)) by (field; lra).
  apply div_nonneg; lra.
Qed.

Lemma breg_core_nonneg h y z :
  hes_dom h y z -> 0 <= phi h y - phi h z - dphi h z * (y - z).
Proof.
  unfold hes_dom, domY, domZ, phi, dphi.
  destruct (hrange_cases h) as [[Hh E] | [[Hh E] | [[Hh E] | [Hh [Hh0 E]]]]];
    rewrite E; intros [HY HZ].
  - (* h > 1 *)
    pose proof (gt1_core h y z Hh) as H. unfold spw in H.
    replace (pw (Rabs y) h / (h * (h - 1)) - pw (Rabs z) h / (h * (h - 1)) -
             np_sign z * pw (Rabs z) (h - 1) / (h - 1) * (y - z))
      with ((pw (Rabs y) h - pw (Rabs z) h -
             h * (np_sign z * pw (Rabs z) (h - 1)) * (y - z)) / (h * (h - 1)))
      by (field; lra).
    apply div_nonneg; [exact H |]. apply Rmult_lt_0_compat; lra.
  - (* h = 1 *)
    rewrite (xlogy_nz z z) by lra.
    destruct HY as [HY | HY].
    + rewrite (xlogy_nz y y) by lra.
      pose proof (kl_core y z HY HZ) as H. lra.
    + subst y. rewrite xlogy_0. lra.
  - (* h = 0 *)
    assert (Hiz : 0 < / z) by (apply Rinv_0_lt_compat; exact HZ).
    assert (H : ln (y / z) <= y / z - 1).
    { apply ln_le_sub1. unfold Rdiv. apply Rmult_lt_0_compat; assumption. }
    unfold Rdiv in H. rewrite ln_mult, ln_Rinv in H by assumption.
    replace (- / z * (y - z)) with (- (y * / z - 1)) by (field; lra).
    lra.
  - (* h < 1, h <> 0 *)
    rewrite (pw_pos z h HZ), (pw_pos z (h - 1) HZ).
    assert (HY' : 0 < y \/ (y = 0 /\ 0 < h)).
    { destruct (Rltb 0 h) eqn:E0; [apply Rltb_true in E0 | left; exact HY].
      destruct HY as [HY | HY]; [left; exact HY | right; split; [symmetry; exact HY | exact E0]]. }
    clear HY. destruct HY' as [HY | [HY Hpos]].
    + rewrite (pw_pos y h HY).
      destruct (rpower_conv y z h HY HZ) as [Hc1 Hc2].
      replace (Rpower y h / (h * (h - 1)) - Rpower z h / (h * (h - 1)) -
               Rpower z (h - 1) / (h - 1) * (y - z))
        with ((Rpower y h - Rpower z h - h * Rpower z (h - 1) * (y - z)) / (h * (h - 1)))
        by (field; lra).
      destruct (Rlt_le_dec h 0) as [Hneg | Hnn].
      * apply div_nonneg.
        -- assert (Hh' : h >= 1 \/ h <= 0) by (right; lra).
           specialize (Hc1 Hh'). lra.
        -- replace (h * (h - 1)) with ((- h) * (1 - h)) by ring.
           apply Rmult_lt_0_compat; lra.
      * apply div_nonpos_neg.
        -- assert (Hh' : 0 <= h <= 1) by lra.
           specialize (Hc2 Hh'). lra.
        -- assert (0 < h * (1 - h)) by (apply Rmult_lt_0_compat; lra). lra.
    + subst y. rewrite (pw_0 h Hh0).
      assert (HP : 0 < Rpower z h) by apply Rpower_pos.
      rewrite (Rpower_pred z h HZ).
      replace (0 / (h * (h - 1)) - Rpower z h / (h * (h - 1)) -
               Rpower z h / z / (h - 1) * (0 - z))
        with (Rpower z h / h) by (field; lra).
      apply div_nonneg; lra.
Qed.

Lemma dphi_mono h a b : domZ h a -> domZ h b -> a <= b -> dphi h a <= dphi h b.
Proof.
  unfold domZ, dphi.
  destruct (hrange_cases h) as [[Hh E] | [[Hh E] | [[Hh E] | [Hh [Hh0 E]]]]];
    rewrite E; intros Ha Hb Hab.
  - assert (Hk : 0 <= h - 1) by lra.
    pose proof (spw_mono (h - 1) a b Hk Hab) as H. unfold spw in H.
    unfold Rdiv. apply Rmult_le_compat_r; [| exact H].
    left. apply Rinv_0_lt_compat. lra.
  - apply ln_mono; assumption.
  - apply Ropp_le_contravar. apply Rinv_le_contravar; assumption.
  - rewrite (pw_pos a (h - 1) Ha), (pw_pos b (h - 1) Hb).
    assert (H : Rpower b (h - 1) <= Rpower a (h - 1)).
    { apply Rpower_anti; lra. }
    assert (Hi : 0 < / (1 - h)) by (apply Rinv_0_lt_compat; lra).
    replace (Rpower a (h - 1) / (h - 1)) with (- Rpower a (h - 1) * / (1 - h)) by (field; lra).
    replace (Rpower b (h - 1) / (h - 1)) with (- Rpower b (h - 1) * / (1 - h)) by (field; lra).
    apply Rmult_le_compat_r; lra.
Qed.

Lemma domZ_sub h x : domZ h x -> domY h x.
Proof.
  unfold domZ, domY. destruct (hrange_of h); intros H; try lra.
  destruct (Rltb 0 h); lra.
Qed.

Lemma domZ_convex h a b x : domZ h a -> domZ h b -> a <= x <= b -> domZ h x.
Proof.
  unfold domZ. destruct (hrange_of h); intros Ha Hb Hx; try exact I; lra.
Qed.

Lemma hes_domb_spec h y z : hes_domb h y z = true <-> hes_dom h y z.
Proof.
  unfold hes_domb, hes_dom, domY, domZ.
  destruct (hrange_of h).
  - split; [intros _; split; exact I | intros _; reflexivity].
  - rewrite andb_true_iff, Rleb_true, Rltb_true. reflexivity.
  - rewrite andb_true_iff, !Rltb_true. reflexivity.
  - rewrite andb_true_iff, Rltb_true.
    destruct (Rltb 0 h); [rewrite Rleb_true | rewrite Rltb_true]; reflexivity.
Qed.

(* ------------------------------------------------------------------ *)
(* C. log loss                                                         *)

Lemma ll_nonneg y z : 0 <= y <= 1 -> 0 < z < 1 ->
  0 <= phi_ll y - phi_ll z - dphi_ll z * (y - z).
Proof.
  intros [Hy0 Hy1] [Hz0 Hz1].
  unfold phi_ll, dphi_ll.
  rewrite (xlogy_nz z z), (xlogy_nz (1 - z) (1 - z)) by lra.
  assert (Hlz : ln z <= z - 1) by (apply ln_le_sub1; lra).
  assert (Hl1z : ln (1 - z) <= (1 - z) - 1) by (apply ln_le_sub1; lra).
  destruct Hy0 as [Hy0 | Hy0].
  - destruct Hy1 as [Hy1 | Hy1].
    + rewrite (xlogy_nz y y), (xlogy_nz (1 - y) (1 - y)) by lra.
      pose proof (kl_core y z Hy0 Hz0) as H1.
      assert (Hy1' : 0 < 1 - y) by lra.
      assert (Hz1' : 0 < 1 - z) by lra.
      pose proof (kl_core (1 - y) (1 - z) Hy1' Hz1') as H2.
      lra.
    + subst y. replace (1 - 1) with 0 by ring.
      rewrite xlogy_0, (xlogy_nz 1 1), ln_1 by lra. lra.
  - subst y. replace (1 - 0) with 1 by ring.
    rewrite xlogy_0, (xlogy_nz 1 1), ln_1 by lra. lra.
Qed.

Lemma dphi_ll_mono a b : 0 < a < 1 -> 0 < b < 1 -> a <= b -> dphi_ll a <= dphi_ll b.
Proof.
  intros Ha Hb Hab. unfold dphi_ll.
  assert (H1 : ln a <= ln b) by (apply ln_mono; lra).
  assert (H2 : ln (1 - b) <= ln (1 - a)) by (apply ln_mono; lra).
  lra.
Qed.

(* ------------------------------------------------------------------ *)
(* D. the quantile-type transform                                      *)

Lemma np_power_pos x h : 0 < x -> np_power x h = Rpower x h.
Proof. exact (pw_pos x h). Qed.

Lemma np_power_odd x h : np_mod h 2 = 1 -> h <> 0 -> np_power x h = spw h x.
Proof.
  intros Hm Hh.
  destruct (Rtotal_order x 0) as [Hx | [Hx | Hx]].
  - rewrite (spw_neg h x Hx). unfold np_power.
    destruct (Rltb 0 x) eqn:E1; [apply Rltb_true in E1; lra |].
    destruct (Reqb x 0) eqn:E2; [apply Reqb_true in E2; lra |].
    destruct (Reqb (np_mod h 2) 1) eqn:E3; [reflexivity |].
    apply Reqb_false in E3. contradiction.
  - subst x. rewrite spw_0. exact (pw_0 h Hh).
  - rewrite (spw_pos h x Hx). apply np_power_pos. exact Hx.
Qed.

Lemma Gq_mono h a b :
  (hqs_whole_line h = true \/ (0 < a /\ 0 < b)) -> a <= b -> Gq h a <= Gq h b.
Proof.
  unfold hqs_whole_line, Gq. intros Hdom Hab.
  destruct (Reqb h 1) eqn:E1; [exact Hab | apply Reqb_false in E1].
  destruct (odd_gt1 h) eqn:E2.
  - unfold odd_gt1 in E2. apply andb_true_iff in E2. destruct E2 as [Hh Hm].
    apply Rltb_true in Hh. apply Reqb_true in Hm.
    rewrite !(np_power_odd _ h Hm) by lra.
    unfold Rdiv. apply Rmult_le_compat_r.
    + left. apply Rinv_0_lt_compat. lra.
    + apply spw_mono; lra.
  - simpl in Hdom. destruct Hdom as [Hdom | [Ha Hb]]; [discriminate |].
    destruct (Reqb h 0) eqn:E3; [apply Reqb_true in E3 | apply Reqb_false in E3].
    + apply ln_mono; assumption.
    + rewrite (np_power_pos a h Ha), (np_power_pos b h Hb).
      destruct (Rlt_le_dec h 0) as [Hneg | Hnn].
      * assert (H : Rpower b h <= Rpower a h) by (apply Rpower_anti; lra).
        assert (Hi : 0 < / (- h)) by (apply Rinv_0_lt_compat; lra).
        replace (Rpower a h / h) with (- Rpower a h * / (- h)) by (field; lra).
        replace (Rpower b h / h) with (- Rpower b h * / (- h)) by (field; lra).
        apply Rmult_le_compat_r; lra.
      * unfold Rdiv. apply Rmult_le_compat_r.
        -- left. apply Rinv_0_lt_compat. lra.
        -- apply Rle_Rpower_l; lra.
Qed.

Print Assumptions breg_core_nonneg.
Print Assumptions dphi_mono.
Print Assumptions ll_nonneg.
Print Assumptions Gq_mono.
