(* Transport of the Q-world GPAVA certificate (theory/GpavaCert.v) of an
   arbitrary instance [I : GInst] to the R-world block certificate of
   theory/Optimal.v along [Q2R], and the resulting generic optimality theorem
   for the output of the model loop against REAL competitor sequences.

   The compatibility hypotheses between the rational identification functions
   and their real counterparts are only required on admissible elements
   ([g_good I e]); admissibility of every block is part of the block
   invariant, so it is always available where it is needed. *)
From Coq Require Import QArith Qreals Reals Lqa Lra Lia List Bool Sorted.
(* Lra after Lqa: unqualified [lra]/[nra] are the real-number tactics; the
   rational ones are [Lqa.lra]/[Lqa.nra]. *)
Import ListNotations.
From MD Require Import lib.QLists model.Gpava theory.GpavaMerge theory.GInst theory.GpavaCert theory.Optimal.

Lemma Q2R_0 : Q2R 0 = 0%R.
Proof. unfold Q2R. simpl. lra. Qed.

Lemma Q2R_1 : Q2R 1 = 1%R.
Proof. unfold Q2R. simpl. lra. Qed.

Lemma Q2R_2 : Q2R 2 = 2%R.
Proof. unfold Q2R. simpl. lra. Qed.

Lemma map_repeat_Q2R (v : Q) (n : nat) : map Q2R (repeat v n) = repeat (Q2R v) n.
Proof. induction n as [|n IH]; simpl; [reflexivity| rewrite IH; reflexivity]. Qed.

Lemma sortedR_map_Q2R l : sortedQ l -> sortedR (map Q2R l).
Proof.
  induction l as [|x l IH]; intros Hs.
  - exact Logic.I.
  - destruct l as [|z l'].
    + exact Logic.I.
    + destruct Hs as [Hxz Hs'].
      change (sortedR (Q2R x :: Q2R z :: map Q2R l')).
      apply sortedR_cons2. split.
      * apply Qle_Rle. exact Hxz.
      * exact (IH Hs').
Qed.

Section Transport.
Variable I : GInst.
Variables VpR VmR : g_elt I -> R -> R.
Hypothesis VpR_ok : forall e t, g_good I e -> Q2R (g_Vp I e t) = VpR e (Q2R t).
Hypothesis VmR_ok : forall e t, g_good I e -> Q2R (g_Vm I e t) = VmR e (Q2R t).

Lemma Q2R_hi S t : Forall (g_good I) S ->
  Q2R (hi (g_elt I) (g_Vp I) S t) = sumV (g_elt I) VpR S (Q2R t).
Proof.
  intros G. induction G as [|e S Ge G IH]; simpl.
  - exact Q2R_0.
  - rewrite Q2R_plus, IH, (VpR_ok e t Ge). reflexivity.
Qed.

Lemma Q2R_lo S t : Forall (g_good I) S ->
  Q2R (lo (g_elt I) (g_Vm I) S t) = sumV (g_elt I) VmR S (Q2R t).
Proof.
  intros G. induction G as [|e S Ge G IH]; simpl.
  - exact Q2R_0.
  - rewrite Q2R_plus, IH, (VmR_ok e t Ge). reflexivity.
Qed.

Lemma Neg_R x : Neg (g_strict I) x -> (Q2R x <= 0)%R.
Proof.
  intros H. apply Neg_nonpos in H. rewrite <- Q2R_0. apply Qle_Rle. exact H.
Qed.

Theorem Inv_bcert B t : IInv I B t -> bcert (g_elt I) VpR VmR B (Q2R t).
Proof.
  intros (Bn & GB & _ & SB & PB).
  split; [exact Bn|]. split.
  - intros p s E sn.
    assert (Gs : Forall (g_good I) s).
    { rewrite E in GB. apply Forall_app in GB. exact (proj2 GB). }
    rewrite <- (Q2R_hi s t Gs), <- Q2R_0. apply Qle_Rle. exact (SB p s E sn).
  - intros p s E pn.
    assert (Gp : Forall (g_good I) p).
    { rewrite E in GB. apply Forall_app in GB. exact (proj1 GB). }
    rewrite <- (Q2R_lo p t Gp). apply Neg_R. exact (PB p s E pn).
Qed.

(* the R-world blocks of a stack, in data order *)
Definition rblocks (stk : list (blk (g_elt I))) : list (list (g_elt I) * R) :=
  map (fun b => (bel b, Q2R (bv b))) (rev stk).

Theorem stack_rblocks stk : stack_ok I stk ->
  Forall (fun b => bcert (g_elt I) VpR VmR (fst b) (snd b)) (rblocks stk).
Proof.
  intros [HF _]. apply Forall_forall. intros rb Hin.
  unfold rblocks in Hin. apply in_map_iff in Hin. destruct Hin as (b & Eb & Hb).
  subst rb. simpl. apply Inv_bcert.
  apply in_rev in Hb. rewrite Forall_forall in HF. exact (HF b Hb).
Qed.

Lemma bdata_rblocks stk : bdata (g_elt I) (rblocks stk) = flat (g_elt I) stk.
Proof.
  unfold bdata, rblocks, flat. rewrite map_map. simpl. reflexivity.
Qed.

Lemma bfit_map (bs : list (blk (g_elt I))) :
  bfit (g_elt I) (map (fun b => (bel b, Q2R (bv b))) bs) =
  map Q2R (flat_map (fun b => repeat (bv b) (length (bel b))) bs).
Proof.
  induction bs as [|b bs IH]; [reflexivity|].
  change (map (fun b0 => (bel b0, Q2R (bv b0))) (b :: bs))
    with ((bel b, Q2R (bv b)) :: map (fun b0 => (bel b0, Q2R (bv b0))) bs).
  rewrite bfit_cons, IH. simpl. rewrite map_app, map_repeat_Q2R. reflexivity.
Qed.

Lemma bfit_rblocks stk : bfit (g_elt I) (rblocks stk) = map Q2R (expand (g_elt I) stk).
Proof. unfold rblocks, expand. apply bfit_map. Qed.

Lemma rblocks_dom (dom : R -> Prop) stk :
  Forall (fun b => dom (Q2R (bv b))) stk ->
  Forall (fun b : list (g_elt I) * R => dom (snd b)) (rblocks stk).
Proof.
  intros HF. apply Forall_forall. intros rb Hin.
  unfold rblocks in Hin. apply in_map_iff in Hin. destruct Hin as (b & Eb & Hb).
  subst rb. simpl. apply in_rev in Hb. rewrite Forall_forall in HF. exact (HF b Hb).
Qed.

(* ---------- the generic optimality theorem for the model loop ---------- *)

Variable L : g_elt I -> R -> R.
Variable g : R -> R.
Variable kap : g_elt I -> R.
Variable dom : R -> Prop.
Hypothesis g_mono : forall a b, dom a -> dom b -> (a <= b)%R -> (g a <= g b)%R.
Hypothesis kap_nonneg : forall e, (0 <= kap e)%R.
Hypothesis SGp : forall e t u, dom t -> dom u -> (t <= u)%R ->
   (L e u - L e t >= (g u - g t) * VpR e t + kap e * (u - t)^2)%R.
Hypothesis SGm : forall e t u, dom t -> dom u -> (u <= t)%R ->
   (L e u - L e t >= (g u - g t) * VmR e t + kap e * (u - t)^2)%R.

Lemma gpava_stack l stk : Forall (g_good I) l ->
  gpava_blocks (g_elt I) (g_yv I) (g_T I) l = Some stk ->
  stack_ok I stk /\ flat (g_elt I) stk = l.
Proof.
  intros Gl HL. unfold gpava_blocks in HL.
  destruct (loop_cert I _ _ _ _ (stack_ok_nil I) Gl HL) as [H1 H2].
  split; [exact H1|]. rewrite H2, flat_nil. reflexivity.
Qed.

Lemma rblocks_cert_dom stk : stack_ok I stk ->
  Forall (fun b => dom (Q2R (bv b))) stk ->
  Forall (fun b => bcert (g_elt I) VpR VmR (fst b) (snd b) /\ dom (snd b)) (rblocks stk).
Proof.
  intros Hok Hd.
  pose proof (stack_rblocks stk Hok) as H1. pose proof (rblocks_dom dom stk Hd) as H2.
  rewrite Forall_forall in *. intros b Hb. split; [exact (H1 b Hb)| exact (H2 b Hb)].
Qed.

Theorem gpava_transport_optimal l stk : Forall (g_good I) l ->
  gpava_blocks (g_elt I) (g_yv I) (g_T I) l = Some stk ->
  Forall (fun b => dom (Q2R (bv b))) stk ->
  let fit := map Q2R (expand (g_elt I) stk) in
  sortedR fit /\ length fit = length l /\
  forall u, length u = length l -> sortedR u -> Forall dom u ->
    (loss (g_elt I) L l u >= loss (g_elt I) L l fit + kdist (g_elt I) kap l u fit)%R.
Proof.
  intros Gl HL Hd fit.
  destruct (gpava_stack l stk Gl HL) as [Hok Hflat].
  split; [apply sortedR_map_Q2R, expand_sorted; exact Hok|].
  split; [unfold fit; rewrite map_length, expand_length, Hflat; reflexivity|].
  intros u Hlen Hsort Hdu.
  pose proof (cert_optimal (g_elt I) VpR VmR L g kap dom g_mono kap_nonneg SGp SGm
                (rblocks stk) u (rblocks_cert_dom stk Hok Hd)) as H.
  rewrite bdata_rblocks, bfit_rblocks, Hflat in H.
  exact (H Hlen Hsort Hdu).
Qed.

Theorem gpava_transport_unique l stk : (forall e, (0 < kap e)%R) ->
  Forall (g_good I) l ->
  gpava_blocks (g_elt I) (g_yv I) (g_T I) l = Some stk ->
  Forall (fun b => dom (Q2R (bv b))) stk ->
  let fit := map Q2R (expand (g_elt I) stk) in
  forall u, length u = length l -> sortedR u -> Forall dom u ->
    (loss (g_elt I) L l u <= loss (g_elt I) L l fit)%R -> u = fit.
Proof.
  intros Hk Gl HL Hd fit u Hlen Hsort Hdu Hle.
  destruct (gpava_stack l stk Gl HL) as [Hok Hflat].
  pose proof (cert_unique (g_elt I) VpR VmR L g kap dom g_mono kap_nonneg SGp SGm Hk
                (rblocks stk) u (rblocks_cert_dom stk Hok Hd)) as H.
  rewrite bdata_rblocks, bfit_rblocks, Hflat in H.
  exact (H Hlen Hsort Hdu Hle).
Qed.

End Transport.

Print Assumptions Inv_bcert.
Print Assumptions gpava_transport_optimal.
Print Assumptions gpava_transport_unique.
