(* Abstract real-number algebra of the three families of consistent scoring
   functions: Bregman-type (mean / expectile), quantile-type, and elementary
   scores.  Everything here is pointwise in (observation, prediction); the key
   results are the generalised sub-gradient inequalities
       S(y,u) - S(y,t) >= (g u - g t) * V(y,t)
   (g non-decreasing, V the identification function) that drive both isotonic
   optimality and consistency. *)
From Coq Require Import Reals Lra Psatz List Bool.
Import ListNotations. Open Scope R_scope.
From MD Require Import lib.NumpyR spec.Scores.

(* ------------------------------------------------------------------ *)
(* indicator helpers                                                   *)
Lemma ge_ind_ge z y : y <= z -> ge_ind z y = 1.
Proof. intros H. unfold ge_ind. rewrite (proj2 (Rleb_true y z) H). reflexivity. Qed.
Lemma ge_ind_lt z y : z < y -> ge_ind z y = 0.
Proof. intros H. unfold ge_ind. rewrite (proj2 (Rleb_false y z) H). reflexivity. Qed.
Lemma le_ind_le a b : a <= b -> le_ind a b = 1.
Proof. intros H. unfold le_ind. rewrite (proj2 (Rleb_true a b) H). reflexivity. Qed.
Lemma le_ind_gt a b : b < a -> le_ind a b = 0.
Proof. intros H. unfold le_ind. rewrite (proj2 (Rleb_false a b) H). reflexivity. Qed.

(* ------------------------------------------------------------------ *)
(* the asymmetry factor 2|1{z>=y} - a|                                  *)
Lemma asym_ge a y z : y <= z -> asym a y z = 2 * Rabs (1 - a).
Proof. intros H. unfold asym. rewrite (ge_ind_ge z y H). reflexivity. Qed.

Lemma asym_ge_lvl a y z : y <= z -> 0 < a < 1 -> asym a y z = 2 * (1 - a).
Proof.
  intros H Ha. rewrite (asym_ge a y z H).
  rewrite Rabs_pos_eq by lra. reflexivity.
Qed.

Lemma asym_lt a y z : z < y -> 0 < a < 1 -> asym a y z = 2 * a.
Proof.
  intros H Ha. unfold asym. rewrite (ge_ind_lt z y H).
  rewrite Rabs_left by lra. lra.
Qed.

Lemma asym_pos a y z : 0 < a < 1 -> 0 < asym a y z.
Proof.
  intros Ha. destruct (Rle_dec y z) as [H|H].
  - rewrite (asym_ge_lvl a y z H Ha). lra.
  - rewrite (asym_lt a y z) by lra. lra.
Qed.

Lemma asym_half y z : asym (1/2) y z = 1.
Proof.
  destruct (Rle_dec y z) as [H|H].
  - rewrite (asym_ge_lvl (1/2) y z H) by lra. lra.
  - rewrite (asym_lt (1/2) y z) by lra. lra.
Qed.

(* ================================================================== *)
(* SECTION 1: Bregman-type (mean / expectile) scores                   *)
Section BregmanScores.
Variables dY dZ : R -> Prop.          (* admissible observations / predictions *)
Variables phi dphi : R -> R.
Hypothesis dZ_sub : forall x, dZ x -> dY x.
Hypothesis dZ_convex : forall a b x, dZ a -> dZ b -> a <= x <= b -> dZ x.
Hypothesis D_nonneg : forall y z, dY y -> dZ z -> 0 <= phi y - phi z - dphi z * (y - z).
Hypothesis dphi_mono : forall a b, dZ a -> dZ b -> a <= b -> dphi a <= dphi b.
Definition D (y z : R) : R := phi y - phi z - dphi z * (y - z).
Definition Sa (a y z : R) : R := asym a y z * D y z.      (* the level-a asymmetric score *)

Lemma D_self z : D z z = 0.
Proof. unfold D. ring. Qed.

Lemma three_point y z1 z2 :
  D y z2 - D y z1 = D z1 z2 + (dphi z2 - dphi z1) * (z1 - y).
Proof. unfold D. ring. Qed.

Lemma D_first_arg y1 y2 z :
  D y1 z - D y2 z = D y1 y2 + (dphi y2 - dphi z) * (y1 - y2).
Proof. unfold D. ring. Qed.

Lemma D_mean_identity y m c :
  D y c - D y m = D m c + (dphi c - dphi m) * (m - y).
Proof. apply three_point. Qed.

Lemma D_ge0 y z : dY y -> dZ z -> 0 <= D y z.
Proof. intros Hy Hz. unfold D. apply D_nonneg; assumption. Qed.

Lemma D_order_right y z1 z2 :
  dY y -> dZ z1 -> dZ z2 -> y <= z1 -> z1 <= z2 -> D y z1 <= D y z2.
Proof.
  intros Hy H1 H2 Hy1 H12.
  pose proof (three_point y z1 z2) as TP.
  pose proof (D_ge0 z1 z2 (dZ_sub _ H1) H2) as Hd.
  pose proof (dphi_mono z1 z2 H1 H2 H12) as Hm.
  assert (0 <= (dphi z2 - dphi z1) * (z1 - y)) as Hp
    by (apply Rmult_le_pos; lra).
  lra.
Qed.

Lemma D_order_left y z1 z2 :
  dY y -> dZ z1 -> dZ z2 -> z2 <= z1 -> z1 <= y -> D y z1 <= D y z2.
Proof.
  intros Hy H1 H2 H21 H1y.
  pose proof (three_point y z1 z2) as TP.
  pose proof (D_ge0 z1 z2 (dZ_sub _ H1) H2) as Hd.
  pose proof (dphi_mono z2 z1 H2 H1 H21) as Hm.
  assert (0 <= (dphi z1 - dphi z2) * (y - z1)) as Hp
    by (apply Rmult_le_pos; lra).
  lra.
Qed.

Lemma Sa_nonneg a y z : 0 < a < 1 -> dY y -> dZ z -> 0 <= Sa a y z.
Proof.
  intros Ha Hy Hz. unfold Sa. apply Rmult_le_pos.
  - left. apply asym_pos; assumption.
  - apply D_ge0; assumption.
Qed.

Lemma Sa_zero a z : Sa a z z = 0.
Proof. unfold Sa. rewrite D_self. ring. Qed.

Lemma Sa_order_sensitive a y z1 z2 :
  0 < a < 1 -> dY y -> dZ z1 -> dZ z2 ->
  (y <= z1 <= z2 \/ z2 <= z1 <= y) -> Sa a y z1 <= Sa a y z2.
Proof.
  intros Ha Hy H1 H2 [[Hy1 H12]|[H21 H1y]].
  - unfold Sa.
    rewrite (asym_ge_lvl a y z1 Hy1 Ha).
    rewrite (asym_ge_lvl a y z2) by (assumption || lra).
    pose proof (D_order_right y z1 z2 Hy H1 H2 Hy1 H12) as Ho.
    apply Rmult_le_compat_l; lra.
  - destruct (Req_dec z1 y) as [E|NE].
    + subst z1. rewrite Sa_zero. apply Sa_nonneg; assumption.
    + unfold Sa.
      rewrite (asym_lt a y z1) by (assumption || lra).
      rewrite (asym_lt a y z2) by (assumption || lra).
      pose proof (D_order_left y z1 z2 Hy H1 H2 H21 H1y) as Ho.
      apply Rmult_le_compat_l; lra.
Qed.

(* first argument further away from the prediction, on the same side *)
Lemma D_far_first t y u :
  dZ t -> dZ u -> (t <= y <= u \/ u <= y <= t) -> D y u <= D t u.
Proof.
  intros Ht Hu Hside.
  assert (dZ y) as Hzy.
  { destruct Hside as [H|H].
    - apply (dZ_convex t u); assumption.
    - apply (dZ_convex u t); assumption. }
  pose proof (D_first_arg t y u) as FA.
  pose proof (D_ge0 t y (dZ_sub _ Ht) Hzy) as Hd.
  destruct Hside as [[H1 H2]|[H1 H2]].
  - pose proof (dphi_mono y u Hzy Hu H2) as Hm.
    assert (0 <= (dphi u - dphi y) * (y - t)) as Hp
      by (apply Rmult_le_pos; lra).
    lra.
  - pose proof (dphi_mono u y Hu Hzy H1) as Hm.
    assert (0 <= (dphi y - dphi u) * (t - y)) as Hp
      by (apply Rmult_le_pos; lra).
    lra.
Qed.

(* the generalised sub-gradient inequality *)
Lemma Sa_subgrad a y t u :
  0 < a < 1 -> dY y -> dZ t -> dZ u ->
  Sa a y u - Sa a y t >= (dphi u - dphi t) * V_expectile a y t.
Proof.
  intros Ha Hy Ht Hu. unfold Sa, V_expectile.
  pose proof (three_point y t u) as TP.
  pose proof (D_ge0 t u (dZ_sub _ Ht) Hu) as Dtu.
  pose proof (D_ge0 y u Hy Hu) as Dyu.
  assert (D y u = D y t + D t u + (dphi u - dphi t) * (t - y)) as E by lra.
  destruct (Rle_dec y t) as [Hyt|Hyt]; destruct (Rle_dec y u) as [Hyu|Hyu].
  - (* y <= t, y <= u *)
    rewrite (asym_ge_lvl a y t Hyt Ha), (asym_ge_lvl a y u Hyu Ha).
    assert (0 <= (1 - a) * D t u) as Hp by (apply Rmult_le_pos; lra).
    rewrite E. lra.
  - (* u < y <= t *)
    rewrite (asym_ge_lvl a y t Hyt Ha).
    rewrite (asym_lt a y u) by (assumption || lra).
    assert (D y u <= D t u) as Hf
      by (apply D_far_first; try assumption; right; lra).
    assert (0 <= (1 - a) * (D t u - D y u)) as Hp1 by (apply Rmult_le_pos; lra).
    assert (0 <= a * D y u) as Hp2 by (apply Rmult_le_pos; lra).
    assert (D y t = D y u - D t u - (dphi u - dphi t) * (t - y)) as E' by lra.
    rewrite E'. lra.
  - (* t < y <= u *)
    rewrite (asym_ge_lvl a y u Hyu Ha).
    rewrite (asym_lt a y t) by (assumption || lra).
    assert (D y u <= D t u) as Hf
      by (apply D_far_first; try assumption; left; lra).
    assert (0 <= a * (D t u - D y u)) as Hp1 by (apply Rmult_le_pos; lra).
    assert (0 <= (1 - a) * D y u) as Hp2 by (apply Rmult_le_pos; lra).
    assert (D y t = D y u - D t u - (dphi u - dphi t) * (t - y)) as E' by lra.
    rewrite E'. lra.
  - (* t < y, u < y *)
    rewrite (asym_lt a y t) by (assumption || lra).
    rewrite (asym_lt a y u) by (assumption || lra).
    assert (0 <= a * D t u) as Hp by (apply Rmult_le_pos; lra).
    rewrite E. lra.
Qed.

End BregmanScores.

(* ================================================================== *)
(* SECTION 2: quantile-type scores                                     *)
Section QuantileScores.
Variable dQ : R -> Prop.              (* common domain of observations and predictions *)
Variable G : R -> R.
Hypothesis G_mono : forall a b, dQ a -> dQ b -> a <= b -> G a <= G b.
Definition Sq (a y z : R) : R := (ge_ind z y - a) * (G z - G y).
Definition Vp_q (a y t : R) : R := ge_ind t y - a.                      (* 1{t >= y} - a *)
Definition Vm_q (a y t : R) : R := (if Rltb y t then 1 else 0) - a.     (* 1{t >  y} - a *)

Lemma Sq_zero a z : Sq a z z = 0.
Proof. unfold Sq. ring. Qed.

Lemma Sq_nonneg a y z : 0 < a < 1 -> dQ y -> dQ z -> 0 <= Sq a y z.
Proof.
  intros Ha Hy Hz. unfold Sq.
  destruct (Rle_dec y z) as [H|H].
  - rewrite (ge_ind_ge z y H).
    pose proof (G_mono y z Hy Hz H) as Hm.
    apply Rmult_le_pos; lra.
  - rewrite (ge_ind_lt z y) by lra.
    assert (z <= y) as H' by lra.
    pose proof (G_mono z y Hz Hy H') as Hm.
    assert (0 <= a * (G y - G z)) as Hp by (apply Rmult_le_pos; lra).
    lra.
Qed.

Lemma Sq_half y z : dQ y -> dQ z -> Sq (1/2) y z = 1/2 * Rabs (G z - G y).
Proof.
  intros Hy Hz. unfold Sq.
  destruct (Rle_dec y z) as [H|H].
  - rewrite (ge_ind_ge z y H).
    pose proof (G_mono y z Hy Hz H) as Hm.
    rewrite Rabs_pos_eq by lra. lra.
  - rewrite (ge_ind_lt z y) by lra.
    assert (z <= y) as H' by lra.
    pose proof (G_mono z y Hz Hy H') as Hm.
    destruct (Req_dec (G z) (G y)) as [E|NE].
    + rewrite E. replace (G y - G y) with 0 by ring. rewrite Rabs_R0. ring.
    + rewrite Rabs_left by lra. lra.
Qed.

Lemma Sq_order_sensitive a y z1 z2 :
  0 < a < 1 -> dQ y -> dQ z1 -> dQ z2 ->
  (y <= z1 <= z2 \/ z2 <= z1 <= y) -> Sq a y z1 <= Sq a y z2.
Proof.
  intros Ha Hy H1 H2 [[Hy1 H12]|[H21 H1y]].
  - unfold Sq.
    rewrite (ge_ind_ge z1 y Hy1).
    rewrite (ge_ind_ge z2 y) by lra.
    pose proof (G_mono z1 z2 H1 H2 H12) as Hm.
    assert (0 <= (1 - a) * (G z2 - G z1)) as Hp by (apply Rmult_le_pos; lra).
    lra.
  - destruct (Req_dec z1 y) as [E|NE].
    + subst z1. rewrite Sq_zero. apply Sq_nonneg; assumption.
    + unfold Sq.
      rewrite (ge_ind_lt z1 y) by lra.
      rewrite (ge_ind_lt z2 y) by lra.
      pose proof (G_mono z2 z1 H2 H1 H21) as Hm.
      assert (0 <= a * (G z1 - G z2)) as Hp by (apply Rmult_le_pos; lra).
      lra.
Qed.

Lemma Sq_subgrad_p a y t u :
  0 < a < 1 -> dQ y -> dQ t -> dQ u -> t <= u ->
  Sq a y u - Sq a y t >= (G u - G t) * Vp_q a y t.
Proof.
  intros Ha Hy Ht Hu Htu. unfold Sq, Vp_q.
  destruct (Rle_dec y t) as [Hyt|Hyt].
  - rewrite (ge_ind_ge t y Hyt). rewrite (ge_ind_ge u y) by lra. lra.
  - rewrite (ge_ind_lt t y) by lra.
    destruct (Rle_dec y u) as [Hyu|Hyu].
    + rewrite (ge_ind_ge u y Hyu).
      pose proof (G_mono y u Hy Hu Hyu) as Hm. lra.
    + rewrite (ge_ind_lt u y) by lra. lra.
Qed.

Lemma Sq_subgrad_m a y t u :
  0 < a < 1 -> dQ y -> dQ t -> dQ u -> u <= t ->
  Sq a y u - Sq a y t >= (G u - G t) * Vm_q a y t.
Proof.
  intros Ha Hy Ht Hu Hut. unfold Sq, Vm_q.
  destruct (Rltb y t) eqn:E; [apply Rltb_true in E | apply Rltb_false in E].
  - (* y < t *)
    rewrite (ge_ind_ge t y) by lra.
    destruct (Rle_dec y u) as [Hyu|Hyu].
    + rewrite (ge_ind_ge u y Hyu). lra.
    + rewrite (ge_ind_lt u y) by lra.
      assert (u <= y) as H' by lra.
      pose proof (G_mono u y Hu Hy H') as Hm. lra.
  - (* t <= y *)
    destruct (Req_dec t y) as [Ety|Nty].
    + subst t. rewrite (ge_ind_ge y y) by lra.
      destruct (Req_dec u y) as [Euy|Nuy].
      * subst u. rewrite (ge_ind_ge y y) by lra. lra.
      * rewrite (ge_ind_lt u y) by lra. lra.
    + rewrite (ge_ind_lt t y) by lra.
      rewrite (ge_ind_lt u y) by lra. lra.
Qed.

End QuantileScores.

(* ================================================================== *)
(* SECTION 3: elementary scores                                        *)
Section Elementary.
Variable V : R -> R -> R.                         (* V y t, non-decreasing in t *)
Hypothesis V_mono : forall y t t', t <= t' -> V y t <= V y t'.
Hypothesis V_sign_lo : forall y t, t < y -> V y t <= 0.
Hypothesis V_sign_hi : forall y t, y <= t -> 0 <= V y t.
Definition Se (eta y z : R) : R := (le_ind eta z - le_ind eta y) * V y eta.
Definition gE (eta u : R) : R := le_ind eta u.    (* the monotone transform for the sub-gradient inequality *)

Lemma Se_zero eta z : Se eta z z = 0.
Proof. unfold Se. ring. Qed.

(* non-negativity given the sign of V y eta whenever eta <= y *)
Lemma Se_nonneg_aux eta y z : (eta <= y -> V y eta <= 0) -> 0 <= Se eta y z.
Proof.
  intros Hlo. unfold Se.
  destruct (Rle_dec eta z) as [Hz|Hz]; destruct (Rle_dec eta y) as [Hy|Hy].
  - rewrite (le_ind_le eta z Hz), (le_ind_le eta y Hy). lra.
  - rewrite (le_ind_le eta z Hz). rewrite (le_ind_gt eta y) by lra.
    assert (y <= eta) as H' by lra.
    pose proof (V_sign_hi y eta H') as Hv. lra.
  - rewrite (le_ind_gt eta z) by lra. rewrite (le_ind_le eta y Hy).
    pose proof (Hlo Hy) as Hv. lra.
  - rewrite (le_ind_gt eta z) by lra. rewrite (le_ind_gt eta y) by lra. lra.
Qed.

Lemma Se_nonneg_strict eta y z : eta <> y -> 0 <= Se eta y z.
Proof.
  intros Hne. apply Se_nonneg_aux. intros Hle.
  apply V_sign_lo. lra.
Qed.

Lemma Se_nonneg_cont eta y z : V y y = 0 -> 0 <= Se eta y z.
Proof.
  intros H0. apply Se_nonneg_aux. intros Hle.
  destruct (Req_dec eta y) as [E|NE].
  - subst eta. lra.
  - apply V_sign_lo. lra.
Qed.

Lemma gE_mono eta a b : a <= b -> gE eta a <= gE eta b.
Proof.
  intros Hab. unfold gE.
  destruct (Rle_dec eta a) as [Ha|Ha].
  - rewrite (le_ind_le eta a Ha). rewrite (le_ind_le eta b) by lra. lra.
  - rewrite (le_ind_gt eta a) by lra.
    destruct (Rle_dec eta b) as [Hb|Hb].
    + rewrite (le_ind_le eta b Hb). lra.
    + rewrite (le_ind_gt eta b) by lra. lra.
Qed.

Lemma Se_subgrad_p eta y t u :
  t <= u -> Se eta y u - Se eta y t >= (gE eta u - gE eta t) * V y t.
Proof.
  intros Htu. unfold Se, gE.
  destruct (Rle_dec eta t) as [Ht|Ht].
  - rewrite (le_ind_le eta t Ht). rewrite (le_ind_le eta u) by lra. lra.
  - rewrite (le_ind_gt eta t) by lra.
    destruct (Rle_dec eta u) as [Hu|Hu].
    + rewrite (le_ind_le eta u Hu).
      assert (t <= eta) as H' by lra.
      pose proof (V_mono y t eta H') as Hm. lra.
    + rewrite (le_ind_gt eta u) by lra. lra.
Qed.

Lemma Se_subgrad_m eta y t u :
  u <= t -> Se eta y u - Se eta y t >= (gE eta u - gE eta t) * V y t.
Proof.
  intros Hut. unfold Se, gE.
  destruct (Rle_dec eta u) as [Hu|Hu].
  - rewrite (le_ind_le eta u Hu). rewrite (le_ind_le eta t) by lra. lra.
  - rewrite (le_ind_gt eta u) by lra.
    destruct (Rle_dec eta t) as [Ht|Ht].
    + rewrite (le_ind_le eta t Ht).
      pose proof (V_mono y eta t Ht) as Hm. lra.
    + rewrite (le_ind_gt eta t) by lra. lra.
Qed.

End Elementary.

(* ================================================================== *)
(* The three concrete identification functions of spec/Scores.v        *)

(* --- mean --- *)
Lemma V_mean_mono y t t' : t <= t' -> V_mean y t <= V_mean y t'.
Proof. unfold V_mean. intros H. lra. Qed.
Lemma V_mean_sign_lo y t : t < y -> V_mean y t <= 0.
Proof. unfold V_mean. intros H. lra. Qed.
Lemma V_mean_sign_hi y t : y <= t -> 0 <= V_mean y t.
Proof. unfold V_mean. intros H. lra. Qed.
Lemma V_mean_self y : V_mean y y = 0.
Proof. unfold V_mean. ring. Qed.

(* --- expectile --- *)
Lemma V_expectile_sign_lo a : 0 < a < 1 -> forall y t, t < y -> V_expectile a y t <= 0.
Proof.
  intros Ha y t H. unfold V_expectile.
  rewrite (asym_lt a y t H Ha).
  assert (0 <= a * (y - t)) as Hp by (apply Rmult_le_pos; lra).
  lra.
Qed.
Lemma V_expectile_sign_hi a : 0 < a < 1 -> forall y t, y <= t -> 0 <= V_expectile a y t.
Proof.
  intros Ha y t H. unfold V_expectile.
  rewrite (asym_ge_lvl a y t H Ha).
  assert (0 <= (1 - a) * (t - y)) as Hp by (apply Rmult_le_pos; lra).
  lra.
Qed.
Lemma V_expectile_mono a :
  0 < a < 1 -> forall y t t', t <= t' -> V_expectile a y t <= V_expectile a y t'.
Proof.
  intros Ha y t t' H.
  destruct (Rle_dec y t) as [Ht|Ht].
  - unfold V_expectile.
    rewrite (asym_ge_lvl a y t Ht Ha).
    rewrite (asym_ge_lvl a y t') by (assumption || lra).
    assert (0 <= (1 - a) * (t' - t)) as Hp by (apply Rmult_le_pos; lra).
    lra.
  - destruct (Rle_dec y t') as [Ht'|Ht'].
    + assert (t < y) as Hlt by lra.
      pose proof (V_expectile_sign_lo a Ha y t Hlt) as H1.
      pose proof (V_expectile_sign_hi a Ha y t' Ht') as H2.
      lra.
    + unfold V_expectile.
      rewrite (asym_lt a y t) by (assumption || lra).
      rewrite (asym_lt a y t') by (assumption || lra).
      assert (0 <= a * (t' - t)) as Hp by (apply Rmult_le_pos; lra).
      lra.
Qed.
Lemma V_expectile_self a y : V_expectile a y y = 0.
Proof. unfold V_expectile. ring. Qed.

(* --- quantile --- *)
Lemma V_quantile_sign_lo a : 0 < a < 1 -> forall y t, t < y -> V_quantile a y t <= 0.
Proof.
  intros Ha y t H. unfold V_quantile. rewrite (ge_ind_lt t y H). lra.
Qed.
Lemma V_quantile_sign_hi a : 0 < a < 1 -> forall y t, y <= t -> 0 <= V_quantile a y t.
Proof.
  intros Ha y t H. unfold V_quantile. rewrite (ge_ind_ge t y H). lra.
Qed.
Lemma V_quantile_mono a :
  0 < a < 1 -> forall y t t', t <= t' -> V_quantile a y t <= V_quantile a y t'.
Proof.
  intros Ha y t t' H. unfold V_quantile.
  destruct (Rle_dec y t) as [Ht|Ht].
  - rewrite (ge_ind_ge t y Ht). rewrite (ge_ind_ge t' y) by lra. lra.
  - rewrite (ge_ind_lt t y) by lra.
    destruct (Rle_dec y t') as [Ht'|Ht'].
    + rewrite (ge_ind_ge t' y Ht'). lra.
    + rewrite (ge_ind_lt t' y) by lra. lra.
Qed.
Lemma V_quantile_self a y : V_quantile a y y = 1 - a.
Proof. unfold V_quantile. rewrite (ge_ind_ge y y) by lra. reflexivity. Qed.

(* --- Section 3 instantiated --- *)
Lemma Se_mean_nonneg eta y z : 0 <= Se V_mean eta y z.
Proof.
  apply (Se_nonneg_cont V_mean V_mean_sign_lo V_mean_sign_hi). apply V_mean_self.
Qed.
Lemma Se_mean_subgrad_p eta y t u :
  t <= u -> Se V_mean eta y u - Se V_mean eta y t >= (gE eta u - gE eta t) * V_mean y t.
Proof. apply (Se_subgrad_p V_mean V_mean_mono). Qed.
Lemma Se_mean_subgrad_m eta y t u :
  u <= t -> Se V_mean eta y u - Se V_mean eta y t >= (gE eta u - gE eta t) * V_mean y t.
Proof. apply (Se_subgrad_m V_mean V_mean_mono). Qed.

Lemma Se_expectile_nonneg a eta y z :
  0 < a < 1 -> 0 <= Se (V_expectile a) eta y z.
Proof.
  intros Ha.
  apply (Se_nonneg_cont (V_expectile a)
           (V_expectile_sign_lo a Ha) (V_expectile_sign_hi a Ha)).
  apply V_expectile_self.
Qed.
Lemma Se_expectile_subgrad_p a eta y t u :
  0 < a < 1 -> t <= u ->
  Se (V_expectile a) eta y u - Se (V_expectile a) eta y t
    >= (gE eta u - gE eta t) * V_expectile a y t.
Proof. intros Ha. apply (Se_subgrad_p (V_expectile a) (V_expectile_mono a Ha)). Qed.
Lemma Se_expectile_subgrad_m a eta y t u :
  0 < a < 1 -> u <= t ->
  Se (V_expectile a) eta y u - Se (V_expectile a) eta y t
    >= (gE eta u - gE eta t) * V_expectile a y t.
Proof. intros Ha. apply (Se_subgrad_m (V_expectile a) (V_expectile_mono a Ha)). Qed.

Lemma Se_quantile_nonneg a eta y z :
  0 < a < 1 -> eta <> y -> 0 <= Se (V_quantile a) eta y z.
Proof.
  intros Ha.
  apply (Se_nonneg_strict (V_quantile a)
           (V_quantile_sign_lo a Ha) (V_quantile_sign_hi a Ha)).
Qed.
Lemma Se_quantile_subgrad_p a eta y t u :
  0 < a < 1 -> t <= u ->
  Se (V_quantile a) eta y u - Se (V_quantile a) eta y t
    >= (gE eta u - gE eta t) * V_quantile a y t.
Proof. intros Ha. apply (Se_subgrad_p (V_quantile a) (V_quantile_mono a Ha)). Qed.
Lemma Se_quantile_subgrad_m a eta y t u :
  0 < a < 1 -> u <= t ->
  Se (V_quantile a) eta y u - Se (V_quantile a) eta y t
    >= (gE eta u - gE eta t) * V_quantile a y t.
Proof. intros Ha. apply (Se_subgrad_m (V_quantile a) (V_quantile_mono a Ha)). Qed.

Print Assumptions Sa_subgrad.
Print Assumptions Sq_subgrad_p.
Print Assumptions Se_subgrad_p.
