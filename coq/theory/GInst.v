(* A bundled instance of the generic GPAVA theory: element type, observation,
   admissibility, right/left identification functions, strictness flag, the
   functional, and the hypotheses V1-V4, T0-T4 of theory/GpavaMerge.v.
   Every concrete functional (mean, expectile, lower quantile) is one value of
   this record, so no hypothesis is ever assumed globally.  No axioms. *)
From Coq Require Import QArith Lqa Lia List Bool.
Import ListNotations.
Open Scope Q_scope.
From MD Require Import theory.GpavaMerge.

Record GInst : Type := mkGInst {
  g_elt : Type;
  g_yv : g_elt -> Q;
  g_good : g_elt -> Prop;
  g_Vp : g_elt -> Q -> Q;
  g_Vm : g_elt -> Q -> Q;
  g_strict : bool;
  g_T : list g_elt -> Q;
  g_V1 : forall e t, g_good e -> g_Vm e t <= g_Vp e t;
  g_V2 : forall e t t', g_good e -> t < t' -> g_Vp e t <= g_Vm e t';
  g_V3 : forall e t, g_good e -> g_yv e <= t -> g_Vp e t >= 0;
  g_V4 : forall e t, g_good e -> t <= g_yv e -> Neg g_strict (g_Vm e t);
  g_Vp_proper : forall e t t', t == t' -> g_Vp e t == g_Vp e t';
  g_Vm_proper : forall e t t', t == t' -> g_Vm e t == g_Vm e t';
  g_T1 : forall S, S <> [] -> Forall g_good S -> hi g_elt g_Vp S (g_T S) >= 0;
  g_T2 : forall S, S <> [] -> Forall g_good S -> Neg g_strict (lo g_elt g_Vm S (g_T S));
  g_T3 : forall S t, S <> [] -> Forall g_good S -> hi g_elt g_Vp S t >= 0 -> g_T S <= t;
  g_T4 : forall S t, S <> [] -> Forall g_good S -> Neg g_strict (lo g_elt g_Vm S t) -> t <= g_T S;
  g_T0 : forall e, g_good e -> g_T [e] == g_yv e
}.

Section WithInst.
Variable I : GInst.

Definition IInv (B : list (g_elt I)) (t : Q) : Prop :=
  Inv (g_elt I) (g_good I) (g_Vp I) (g_Vm I) (g_strict I) (g_T I) B t.
Definition Ihi := hi (g_elt I) (g_Vp I).
Definition Ilo := lo (g_elt I) (g_Vm I).
Definition INeg := Neg (g_strict I).

Lemma I_merge A B a b : IInv A a -> IInv B b -> b <= a ->
  let c := g_T I (A ++ B) in b <= c /\ c <= a /\ IInv (A ++ B) c.
Proof.
  apply (merge (g_elt I) (g_good I) (g_Vp I) (g_Vm I) (g_strict I) (g_T I)
           (g_V1 I) (g_V2 I) (g_Vp_proper I) (g_Vm_proper I)
           (g_T1 I) (g_T2 I) (g_T3 I) (g_T4 I)).
Qed.

Lemma I_single e : g_good I e -> IInv [e] (g_yv I e).
Proof.
  apply (Inv_single (g_elt I) (g_yv I) (g_good I) (g_Vp I) (g_Vm I) (g_strict I) (g_T I)
           (g_V3 I) (g_V4 I) (g_T0 I)).
Qed.

Lemma I_T_le_max S m : S <> [] -> Forall (g_good I) S ->
  (forall e, In e S -> g_yv I e <= m) -> g_T I S <= m.
Proof.
  apply (T_le_max (g_elt I) (g_yv I) (g_good I) (g_Vp I) (g_T I) (g_V3 I) (g_T3 I)).
Qed.

Lemma I_T_ge_min S m : S <> [] -> Forall (g_good I) S ->
  (forall e, In e S -> m <= g_yv I e) -> m <= g_T I S.
Proof.
  apply (T_ge_min (g_elt I) (g_yv I) (g_good I) (g_Vm I) (g_strict I) (g_T I) (g_V4 I) (g_T4 I)).
Qed.
End WithInst.
