(* Generic theory of the generalised pool-adjacent-violators algorithm for
   identifiable functionals, world Q.  Part 1: the block invariant and the
   merge lemma.  No axioms. *)
From Coq Require Import QArith Lqa Lia List Bool.
Import ListNotations.
Open Scope Q_scope.

Section Gen.
Variable elt : Type.
Variable yv : elt -> Q.                 (* the observation carried by an element *)
Variable good : elt -> Prop.            (* admissible elements, e.g. weight > 0 *)
Variables Vp Vm : elt -> Q -> Q.        (* right / left identification function in t *)
Variable strict : bool.
Variable T : list elt -> Q.             (* the functional on a pooled block *)

Definition Neg (x : Q) : Prop := if strict then x < 0 else x <= 0.

Fixpoint hi (S : list elt) (t : Q) : Q :=
  match S with [] => 0 | e :: S' => Vp e t + hi S' t end.
Fixpoint lo (S : list elt) (t : Q) : Q :=
  match S with [] => 0 | e :: S' => Vm e t + lo S' t end.

Hypothesis V1 : forall e t, good e -> Vm e t <= Vp e t.
Hypothesis V2 : forall e t t', good e -> t < t' -> Vp e t <= Vm e t'.
Hypothesis V3 : forall e t, good e -> yv e <= t -> Vp e t >= 0.
Hypothesis V4 : forall e t, good e -> t <= yv e -> Neg (Vm e t).
Hypothesis Vp_proper : forall e t t', t == t' -> Vp e t == Vp e t'.
Hypothesis Vm_proper : forall e t t', t == t' -> Vm e t == Vm e t'.
Hypothesis T1 : forall S, S <> [] -> Forall good S -> hi S (T S) >= 0.
Hypothesis T2 : forall S, S <> [] -> Forall good S -> Neg (lo S (T S)).
Hypothesis T3 : forall S t, S <> [] -> Forall good S -> hi S t >= 0 -> T S <= t.
Hypothesis T4 : forall S t, S <> [] -> Forall good S -> Neg (lo S t) -> t <= T S.

Lemma hi_app A B t : hi (A ++ B) t == hi A t + hi B t.
Proof. induction A; simpl; [ring| rewrite IHA; ring]. Qed.
Lemma lo_app A B t : lo (A ++ B) t == lo A t + lo B t.
Proof. induction A; simpl; [ring| rewrite IHA; ring]. Qed.
Lemma hi_proper S t t' : t == t' -> hi S t == hi S t'.
Proof. intros E; induction S; simpl; [reflexivity| rewrite IHS, (Vp_proper a t t' E); reflexivity]. Qed.
Lemma lo_proper S t t' : t == t' -> lo S t == lo S t'.
Proof. intros E; induction S; simpl; [reflexivity| rewrite IHS, (Vm_proper a t t' E); reflexivity]. Qed.
Lemma lo_le_hi S t : Forall good S -> lo S t <= hi S t.
Proof. induction 1 as [|a S Ga _ IH]; simpl; [lra| pose proof (V1 a t Ga); lra]. Qed.
Lemma hi_lt_lo S t t' : Forall good S -> t < t' -> hi S t <= lo S t'.
Proof. intros G L; induction G as [|a S Ga _ IH]; simpl; [lra| pose proof (V2 a t t' Ga L); lra]. Qed.
Lemma hi_mono S t t' : Forall good S -> t <= t' -> hi S t <= hi S t'.
Proof. intros G L. destruct (Qlt_le_dec t t') as [H|H].
  - pose proof (hi_lt_lo S t t' G H). pose proof (lo_le_hi S t' G). lra.
  - assert (E : t == t') by lra. rewrite (hi_proper S t t' E). lra. Qed.
Lemma lo_mono S t t' : Forall good S -> t <= t' -> lo S t <= lo S t'.
Proof. intros G L. destruct (Qlt_le_dec t t') as [H|H].
  - pose proof (hi_lt_lo S t t' G H). pose proof (lo_le_hi S t G). lra.
  - assert (E : t == t') by lra. rewrite (lo_proper S t t' E). lra. Qed.
Lemma Neg_le x y : Neg x -> y <= x -> Neg y.  Proof. unfold Neg; destruct strict; intros; lra. Qed.
Lemma Neg_add x y : Neg x -> Neg y -> Neg (x + y).  Proof. unfold Neg; destruct strict; intros; lra. Qed.
Lemma Neg_nonpos x : Neg x -> x <= 0.  Proof. unfold Neg; destruct strict; intros; lra. Qed.
Lemma Neg_proper x y : x == y -> Neg x -> Neg y.  Proof. unfold Neg; destruct strict; intros; lra. Qed.

(* The block invariant: t is the functional of the block, every non-empty
   suffix has non-negative upper identification sum at t, every non-empty
   prefix has negative (non-positive) lower identification sum at t. *)
Definition Inv (B : list elt) (t : Q) : Prop :=
  B <> [] /\ Forall good B /\ t == T B /\
  (forall p s, B = p ++ s -> s <> [] -> hi s t >= 0) /\
  (forall p s, B = p ++ s -> p <> [] -> Neg (lo p t)).

Lemma split_app (A B p s : list elt) : A ++ B = p ++ s ->
  (exists m, A = p ++ m /\ s = m ++ B) \/ (exists m, p = A ++ m /\ B = m ++ s).
Proof.
  revert p. induction A as [|a A IH]; intros p E; simpl in *.
  - right. exists p. auto.
  - destruct p as [|x p]; simpl in *.
    + left. exists (a :: A). subst s. auto.
    + injection E as -> E. destruct (IH p E) as [[m [-> ->]]|[m [-> ->]]]; [left|right]; exists m; auto.
Qed.

Lemma Forall_app_l (P : elt -> Prop) A B : Forall P (A ++ B) -> Forall P A.
Proof. intros H. apply Forall_app in H. tauto. Qed.
Lemma Forall_app_r (P : elt -> Prop) A B : Forall P (A ++ B) -> Forall P B.
Proof. intros H. apply Forall_app in H. tauto. Qed.

Lemma merge A B a b : Inv A a -> Inv B b -> b <= a ->
  let c := T (A ++ B) in b <= c /\ c <= a /\ Inv (A ++ B) c.
Proof.
  intros (An & GA & Ea & SA & PA) (Bn & GB & Eb & SB & PB) Hba c.
  assert (Cn : A ++ B <> []) by (destruct A; simpl; congruence).
  assert (GC : Forall good (A ++ B)) by (apply Forall_app; auto).
  assert (HA0 : hi A a >= 0) by (apply (SA [] A); auto).
  assert (HB0 : hi B b >= 0) by (apply (SB [] B); auto).
  assert (LA0 : Neg (lo A a)) by (apply (PA A []); auto using app_nil_r).
  assert (LB0 : Neg (lo B b)) by (apply (PB B []); auto using app_nil_r).
  assert (Hca : c <= a).
  { apply T3; auto. rewrite hi_app. pose proof (hi_mono B b a GB Hba). lra. }
  assert (Hbc : b <= c).
  { apply T4; auto. eapply Neg_proper; [symmetry; apply lo_app|].
    apply Neg_add; auto. eapply Neg_le; [exact LA0| apply lo_mono; auto]. }
  split; [exact Hbc|]. split; [exact Hca|].
  split; [exact Cn|]. split; [exact GC|]. split; [reflexivity|]. split.
  - intros p s E sn. destruct (split_app _ _ _ _ E) as [[m [EA Es]]|[m [Ep EB]]].
    + subst s. destruct m as [|x m].
      * simpl. pose proof (hi_mono B b c GB Hbc). lra.
      * rewrite hi_app. destruct (Qlt_le_dec c a) as [Hlt|Hge].
        -- destruct p as [|x0 p].
           ++ simpl in EA. subst A. rewrite <- hi_app. apply T1; auto.
           ++ assert (Hp : Neg (lo (x0 :: p) a)) by (apply (PA (x0::p) (x::m)); auto; discriminate).
              assert (Gp : Forall good (x0 :: p)) by (rewrite EA in GA; apply Forall_app_l in GA; exact GA).
              pose proof (hi_lt_lo (x0::p) c a Gp Hlt). pose proof (Neg_nonpos _ Hp).
              assert (Hall : hi (A ++ B) c >= 0) by (apply T1; auto).
              rewrite EA in Hall. rewrite <- app_assoc in Hall. rewrite hi_app in Hall. rewrite hi_app in Hall. lra.
        -- assert (Ec : c == a) by lra.
           assert (hi (x :: m) a >= 0) by (apply (SA p (x::m)); auto; discriminate).
           rewrite (hi_proper _ c a Ec), (hi_proper B c a Ec). pose proof (hi_mono B b a GB Hba). lra.
    + assert (hi s b >= 0) by (apply (SB m s); auto).
      assert (Gs : Forall good s) by (rewrite EB in GB; apply Forall_app_r in GB; exact GB).
      pose proof (hi_mono s b c Gs Hbc). lra.
  - intros p s E pn. destruct (split_app _ _ _ _ E) as [[m [EA Es]]|[m [Ep EB]]].
    + assert (Neg (lo p a)) by (apply (PA p m); auto).
      assert (Gp : Forall good p) by (rewrite EA in GA; apply Forall_app_l in GA; exact GA).
      eapply Neg_le; [eassumption| apply lo_mono; auto].
    + subst p. destruct m as [|x m].
      * rewrite app_nil_r. eapply Neg_le; [exact LA0| apply lo_mono; auto].
      * eapply Neg_proper; [symmetry; apply lo_app|].
        destruct (Qlt_le_dec b c) as [Hlt|Hge].
        -- destruct s as [|x0 s].
           ++ rewrite app_nil_r in EB. subst B. eapply Neg_proper; [apply lo_app|]. apply T2; auto.
           ++ assert (Hs : hi (x0 :: s) b >= 0) by (apply (SB (x::m) (x0::s)); auto; discriminate).
              assert (Gs : Forall good (x0 :: s)) by (rewrite EB in GB; apply Forall_app_r in GB; exact GB).
              pose proof (hi_lt_lo (x0::s) b c Gs Hlt).
              assert (Hall : Neg (lo (A ++ B) c)) by (apply T2; auto).
              eapply Neg_le; [exact Hall|]. rewrite EB, lo_app, lo_app. lra.
        -- assert (Ec : c == b) by lra.
           assert (Neg (lo (x :: m) b)) by (apply (PB (x::m) s); auto; discriminate).
           apply Neg_add.
           ++ eapply Neg_le; [exact LA0|]. apply lo_mono; auto; lra.
           ++ eapply Neg_proper; [symmetry; apply (lo_proper _ c b Ec)| assumption].
Qed.

(* Singleton blocks satisfy the invariant as soon as T [e] == yv e. *)
Hypothesis T0 : forall e, good e -> T [e] == yv e.

Lemma Inv_single e : good e -> Inv [e] (yv e).
Proof.
  intros G. split; [discriminate|]. split; [constructor; auto|]. split; [symmetry; apply T0; auto|]. split.
  - intros p s E sn. destruct p as [|x p].
    + simpl in E. subst s. simpl. pose proof (V3 e (yv e) G). lra.
    + destruct p; simpl in E; [injection E as _ <-; congruence| discriminate].
  - intros p s E pn. destruct p as [|x p]; [congruence|].
    destruct p; simpl in E.
    + injection E as <- _. simpl. eapply Neg_proper with (x := Vm e (yv e)); [ring|].
      apply V4; auto; lra.
    + destruct p; discriminate.
Qed.

(* Range: the functional of a block lies within the block's observations. *)
Lemma T_le_max S m : S <> [] -> Forall good S -> (forall e, In e S -> yv e <= m) -> T S <= m.
Proof.
  intros Sn G H. apply T3; auto.
  clear Sn. induction G as [|a S Ga G IH]; simpl; [lra|].
  pose proof (V3 a m Ga (H a (or_introl eq_refl))).
  assert (hi S m >= 0) by (apply IH; intros; apply H; right; auto). lra.
Qed.

Lemma T_ge_min S m : S <> [] -> Forall good S -> (forall e, In e S -> m <= yv e) -> m <= T S.
Proof.
  intros Sn G H. apply T4; auto.
  destruct S as [|a0 S0]; [congruence|]. clear Sn.
  revert a0 G H. induction S0 as [|a1 S1 IH]; intros a0 G H.
  - simpl. inversion G; subst. eapply Neg_proper with (x := Vm a0 m); [ring|].
    apply V4; auto. apply H; left; auto.
  - inversion G; subst. simpl. apply Neg_add.
    + apply V4; auto. apply H; left; auto.
    + apply IH; auto. intros; apply H; right; auto.
Qed.

End Gen.
