(* Generic theory of the generalised pool-adjacent-violators algorithm, part 2:
   the final stack of the model loop (model/Gpava.v) is a certificate: every
   block satisfies the block invariant of theory/GpavaMerge.v, block values
   strictly increase in data order, and the blocks partition the input.
   Proved once for an arbitrary instance [I : GInst].  No axioms. *)
From Coq Require Import QArith Lqa Lia List Bool Sorted.
Import ListNotations. Open Scope Q_scope.
From MD Require Import lib.QLists theory.GpavaMerge theory.GInst model.Gpava.

(* ---------- generic list helpers ---------- *)

Lemma SS_snoc (A : Type) (R : A -> A -> Prop) (l : list A) (a : A) :
  StronglySorted R l -> Forall (fun x => R x a) l -> StronglySorted R (l ++ [a]).
Proof.
  intros HS. induction HS as [|x l HS IH Hx]; intros HF; simpl.
  - constructor; constructor.
  - pose proof (Forall_inv HF) as Hxa. pose proof (Forall_inv_tail HF) as HF'.
    constructor; [apply IH; exact HF'|].
    apply Forall_app; split; [exact Hx| constructor; [exact Hxa| constructor]].
Qed.

Lemma SS_rev (A : Type) (R : A -> A -> Prop) (l : list A) :
  StronglySorted R l -> StronglySorted (fun x y => R y x) (rev l).
Proof.
  intros HS. induction HS as [|x l HS IH Hx]; simpl.
  - constructor.
  - apply SS_snoc; [exact IH|]. apply Forall_rev. exact Hx.
Qed.

Lemma SS_sortedQ (l : list Q) : StronglySorted Qle l -> sortedQ l.
Proof.
  intros HS. induction HS as [|x l HS IH Hx].
  - exact Logic.I.
  - destruct l as [|y l'].
    + exact Logic.I.
    + split; [exact (Forall_inv Hx)| exact IH].
Qed.

Lemma SS_repeat_app (v : Q) (n : nat) (L : list Q) :
  StronglySorted Qle L -> Forall (Qle v) L -> StronglySorted Qle (repeat v n ++ L).
Proof.
  intros HS HF. induction n as [|n IH]; simpl.
  - exact HS.
  - constructor; [exact IH|].
    apply Forall_app; split; [|exact HF].
    apply Forall_forall. intros x Hx. apply repeat_spec in Hx. subst x. apply Qle_refl.
Qed.

Lemma last_cons_ne (A : Type) (x : A) (l : list A) (d : A) :
  l <> [] -> last (x :: l) d = last l d.
Proof. intros Hn. destruct l as [|y l']; [congruence| reflexivity]. Qed.

Section Cert.
Variable I : GInst.
Notation elt := (g_elt I). Notation yv := (g_yv I). Notation T := (g_T I). Notation good := (g_good I).

(* stack is top-first; values strictly decrease going down the list, i.e.
   strictly increase in data order *)
Definition stack_ok (stk : list (blk elt)) : Prop :=
  Forall (fun b => IInv I (bel b) (bv b)) stk /\
  StronglySorted (fun b1 b2 => bv b2 < bv b1) stk.

(* ---------- unfolding lemmas for the model ---------- *)

Lemma geb_true a b : geb a b = true -> b <= a.
Proof. unfold geb. intros H. apply Qle_bool_iff. exact H. Qed.

Lemma geb_false a b : geb a b = false -> a < b.
Proof.
  unfold geb. intros H. apply Qnot_le_lt. intros Hle.
  apply Qle_bool_iff in Hle. congruence.
Qed.

Lemma up_nil B v : up elt yv T B v [] = (B, v, []).
Proof. reflexivity. Qed.

Lemma up_cons B v e rest' :
  up elt yv T B v (e :: rest') =
  if geb v (yv e) then up elt yv T (B ++ [e]) (T (B ++ [e])) rest' else (B, v, e :: rest').
Proof. reflexivity. Qed.

Lemma down_nil B v : down elt T B v [] = (B, v, []).
Proof. reflexivity. Qed.

Lemma down_cons B v b stk' :
  down elt T B v (b :: stk') =
  if geb (bv b) v then down elt T (bel b ++ B) (T (bel b ++ B)) stk' else (B, v, b :: stk').
Proof. reflexivity. Qed.

Lemma step_nil e rest : step elt yv T [] e rest = ([mkblk [e] (yv e)], rest).
Proof. reflexivity. Qed.

Lemma step_cons p stk' e rest :
  step elt yv T (p :: stk') e rest =
  if geb (bv p) (yv e) then
    let '(B1, v1, rest1) := up elt yv T (bel p ++ [e]) (T (bel p ++ [e])) rest in
    let '(B2, v2, stk2) := down elt T B1 v1 stk' in
    (mkblk B2 v2 :: stk2, rest1)
  else (mkblk [e] (yv e) :: p :: stk', rest).
Proof. reflexivity. Qed.

Lemma loop_nil fuel stk : loop elt yv T fuel stk [] = Some stk.
Proof. destruct fuel; reflexivity. Qed.

Lemma loop_cons_O stk e rest' : loop elt yv T O stk (e :: rest') = None.
Proof. reflexivity. Qed.

Lemma loop_cons_S fuel stk e rest' :
  loop elt yv T (S fuel) stk (e :: rest') =
  let '(stk1, rest1) := step elt yv T stk e rest' in loop elt yv T fuel stk1 rest1.
Proof. reflexivity. Qed.

Lemma flat_nil : flat elt [] = [].
Proof. reflexivity. Qed.

Lemma flat_cons (b : blk elt) stk : flat elt (b :: stk) = flat elt stk ++ bel b.
Proof.
  unfold flat. simpl. rewrite map_app, concat_app. simpl. rewrite app_nil_r. reflexivity.
Qed.

(* ---------- up ---------- *)

Lemma up_ok : forall rest B v B1 v1 rest1,
  IInv I B v -> Forall good rest -> up elt yv T B v rest = (B1, v1, rest1) ->
  IInv I B1 v1 /\ B1 ++ rest1 = B ++ rest /\ Forall good rest1 /\
  (length rest1 <= length rest)%nat.
Proof.
  induction rest as [|e rest' IH]; intros B v B1 v1 rest1 HI HG HU.
  - rewrite up_nil in HU. injection HU as <- <- <-.
    split; [exact HI|]. split; [reflexivity|]. split; [exact HG| lia].
  - rewrite up_cons in HU. destruct (geb v (yv e)) eqn:Hg.
    + apply geb_true in Hg.
      pose proof (Forall_inv HG) as Ge. pose proof (Forall_inv_tail HG) as Gr.
      pose proof (I_merge I B [e] v (yv e) HI (I_single I e Ge) Hg) as HM.
      cbv zeta in HM. destruct HM as (_ & _ & HI').
      destruct (IH _ _ _ _ _ HI' Gr HU) as (H1 & H2 & H3 & H4).
      split; [exact H1|]. split; [rewrite H2, <- app_assoc; reflexivity|].
      split; [exact H3| simpl; lia].
    + injection HU as <- <- <-.
      split; [exact HI|]. split; [reflexivity|]. split; [exact HG| lia].
Qed.

Lemma up_length : forall rest B v B1 v1 rest1,
  up elt yv T B v rest = (B1, v1, rest1) -> (length rest1 <= length rest)%nat.
Proof.
  induction rest as [|e rest' IH]; intros B v B1 v1 rest1 HU.
  - rewrite up_nil in HU. injection HU as <- <- <-. lia.
  - rewrite up_cons in HU. destruct (geb v (yv e)) eqn:Hg.
    + pose proof (IH _ _ _ _ _ HU) as H. simpl. lia.
    + injection HU as <- <- <-. lia.
Qed.

(* ---------- down ---------- *)

Lemma down_ok : forall stk B v B2 v2 stk2,
  IInv I B v -> stack_ok stk -> down elt T B v stk = (B2, v2, stk2) ->
  IInv I B2 v2 /\ stack_ok (mkblk B2 v2 :: stk2) /\
  flat elt stk2 ++ B2 = flat elt stk ++ B /\ v <= v2.
Proof.
  induction stk as [|b stk' IH]; intros B v B2 v2 stk2 HI [HF HS] HD.
  - rewrite down_nil in HD. injection HD as <- <- <-.
    split; [exact HI|]. split.
    + split; [constructor; [exact HI| constructor]| constructor; constructor].
    + split; [reflexivity| lra].
  - rewrite down_cons in HD.
    pose proof (Forall_inv HF) as HIb. pose proof (Forall_inv_tail HF) as HF'.
    destruct (StronglySorted_inv HS) as [HS' Hb].
    destruct (geb (bv b) v) eqn:Hg.
    + apply geb_true in Hg.
      pose proof (I_merge I (bel b) B (bv b) v HIb HI Hg) as HM.
      cbv zeta in HM. destruct HM as (Hc1 & Hc2 & HI').
      destruct (IH _ _ _ _ _ HI' (conj HF' HS') HD) as (H1 & H2 & H3 & H4).
      split; [exact H1|]. split; [exact H2|]. split.
      * rewrite H3, flat_cons, <- app_assoc. reflexivity.
      * lra.
    + apply geb_false in Hg. injection HD as <- <- <-.
      split; [exact HI|]. split.
      * split.
        -- constructor; [exact HI| exact HF].
        -- constructor; [exact HS|].
           constructor; [exact Hg|].
           eapply Forall_impl; [|exact Hb].
           intros x Hx. cbv beta in Hx. simpl. lra.
      * split; [reflexivity| lra].
Qed.

(* ---------- step ---------- *)

Theorem step_ok : forall stk e rest stk1 rest1,
  stack_ok stk -> good e -> Forall good rest ->
  step elt yv T stk e rest = (stk1, rest1) ->
  stack_ok stk1 /\ Forall good rest1 /\
  flat elt stk1 ++ rest1 = flat elt stk ++ e :: rest /\ (length rest1 <= length rest)%nat.
Proof.
  intros stk e rest stk1 rest1 Hok Ge Gr HS.
  destruct stk as [|p stk'].
  - rewrite step_nil in HS. injection HS as <- <-.
    split.
    { split.
      - constructor; [simpl; apply I_single; exact Ge| constructor].
      - constructor; constructor. }
    split; [exact Gr|]. split; [reflexivity| lia].
  - rewrite step_cons in HS. destruct Hok as [HF HSS].
    pose proof (Forall_inv HF) as HIp. pose proof (Forall_inv_tail HF) as HF'.
    destruct (StronglySorted_inv HSS) as [HSS' Hp].
    destruct (geb (bv p) (yv e)) eqn:Hg.
    + apply geb_true in Hg.
      destruct (up elt yv T (bel p ++ [e]) (T (bel p ++ [e])) rest) as [[B1 v1] r1] eqn:HU.
      destruct (down elt T B1 v1 stk') as [[B2 v2] stk2] eqn:HD.
      injection HS as <- <-.
      pose proof (I_merge I (bel p) [e] (bv p) (yv e) HIp (I_single I e Ge) Hg) as HM.
      cbv zeta in HM. destruct HM as (_ & _ & HI0).
      destruct (up_ok _ _ _ _ _ _ HI0 Gr HU) as (HI1 & E1 & G1 & L1).
      destruct (down_ok _ _ _ _ _ _ HI1 (conj HF' HSS') HD) as (HI2 & Hok2 & E2 & _).
      split; [exact Hok2|]. split; [exact G1|]. split; [|exact L1].
      rewrite !flat_cons. simpl bel.
      rewrite E2, <- !app_assoc, E1, <- app_assoc. reflexivity.
    + apply geb_false in Hg. injection HS as <- <-.
      split.
      { split.
        - constructor; [simpl; apply I_single; exact Ge| exact HF].
        - constructor; [exact HSS|].
          constructor; [simpl; exact Hg|].
          eapply Forall_impl; [|exact Hp].
          intros x Hx. cbv beta in Hx. simpl. lra. }
      split; [exact Gr|]. split; [|lia].
      rewrite (flat_cons (mkblk [e] (yv e))). simpl bel. rewrite <- app_assoc. reflexivity.
Qed.

Lemma step_length : forall stk e rest stk1 rest1,
  step elt yv T stk e rest = (stk1, rest1) -> (length rest1 <= length rest)%nat.
Proof.
  intros stk e rest stk1 rest1 HS.
  destruct stk as [|p stk'].
  - rewrite step_nil in HS. injection HS as <- <-. lia.
  - rewrite step_cons in HS. destruct (geb (bv p) (yv e)) eqn:Hg.
    + destruct (up elt yv T (bel p ++ [e]) (T (bel p ++ [e])) rest) as [[B1 v1] r1] eqn:HU.
      destruct (down elt T B1 v1 stk') as [[B2 v2] stk2] eqn:HD.
      injection HS as <- <-. exact (up_length _ _ _ _ _ _ HU).
    + injection HS as <- <-. lia.
Qed.

(* ---------- loop ---------- *)

Theorem loop_cert : forall fuel stk rest stk',
  stack_ok stk -> Forall good rest -> loop elt yv T fuel stk rest = Some stk' ->
  stack_ok stk' /\ flat elt stk' = flat elt stk ++ rest.
Proof.
  induction fuel as [|fuel IH]; intros stk rest stk' Hok Gr HL.
  - destruct rest as [|e rest'].
    + rewrite loop_nil in HL. injection HL as <-. rewrite app_nil_r. split; [exact Hok| reflexivity].
    + rewrite loop_cons_O in HL. discriminate HL.
  - destruct rest as [|e rest'].
    + rewrite loop_nil in HL. injection HL as <-. rewrite app_nil_r. split; [exact Hok| reflexivity].
    + rewrite loop_cons_S in HL.
      destruct (step elt yv T stk e rest') as [stk1 rest1] eqn:HS.
      pose proof (Forall_inv Gr) as Ge. pose proof (Forall_inv_tail Gr) as Gr'.
      destruct (step_ok _ _ _ _ _ Hok Ge Gr' HS) as (Hok1 & G1 & E1 & _).
      destruct (IH _ _ _ Hok1 G1 HL) as [H5 H6].
      split; [exact H5| rewrite H6; exact E1].
Qed.

Theorem loop_total : forall fuel stk rest, (length rest <= fuel)%nat ->
  exists stk', loop elt yv T fuel stk rest = Some stk'.
Proof.
  induction fuel as [|fuel IH]; intros stk rest HL.
  - destruct rest as [|e rest']; [|simpl in HL; lia].
    exists stk. apply loop_nil.
  - destruct rest as [|e rest'].
    + exists stk. apply loop_nil.
    + rewrite loop_cons_S.
      destruct (step elt yv T stk e rest') as [stk1 rest1] eqn:HS.
      apply IH. pose proof (step_length _ _ _ _ _ HS) as H. simpl in HL. lia.
Qed.

Lemma stack_ok_nil : stack_ok [].
Proof. split; constructor. Qed.

Theorem gpava_blocks_cert : forall l, Forall good l ->
  exists stk, gpava_blocks elt yv T l = Some stk /\ stack_ok stk /\ flat elt stk = l.
Proof.
  intros l Gl. unfold gpava_blocks.
  destruct (loop_total (length l) [] l (le_n _)) as [stk Hstk].
  exists stk. split; [exact Hstk|].
  destruct (loop_cert _ _ _ _ stack_ok_nil Gl Hstk) as [H1 H2].
  split; [exact H1|]. rewrite H2, flat_nil. reflexivity.
Qed.

(* ---------- consequences for the outputs ---------- *)

Lemma expand_length_gen (bs : list (blk elt)) :
  length (flat_map (fun b => repeat (bv b) (length (bel b))) bs) =
  length (concat (map bel bs)).
Proof.
  induction bs as [|b bs IH]; simpl; [reflexivity|].
  rewrite !app_length, repeat_length, IH. reflexivity.
Qed.

Theorem expand_length : forall stk, length (expand elt stk) = length (flat elt stk).
Proof. intros stk. unfold expand, flat. apply expand_length_gen. Qed.

Theorem expand_blocks : forall stk,
  expand elt stk = flat_map (fun b => repeat (bv b) (length (bel b))) (rev stk).
Proof. reflexivity. Qed.

Theorem blocks_increasing : forall stk, stack_ok stk ->
  StronglySorted (fun b1 b2 => bv b1 < bv b2) (rev stk).
Proof.
  intros stk [_ HS].
  exact (SS_rev (blk elt) (fun b1 b2 => bv b2 < bv b1) stk HS).
Qed.

Lemma flat_map_blocks_sorted (bs : list (blk elt)) :
  StronglySorted (fun b1 b2 => bv b1 < bv b2) bs ->
  StronglySorted Qle (flat_map (fun b => repeat (bv b) (length (bel b))) bs).
Proof.
  intros HS. induction HS as [|b bs HS IH Hb]; simpl.
  - constructor.
  - apply SS_repeat_app; [exact IH|].
    apply Forall_forall. intros x Hx.
    apply in_flat_map in Hx. destruct Hx as (b2 & Hin & Hx).
    apply repeat_spec in Hx. subst x.
    rewrite Forall_forall in Hb. apply Qlt_le_weak. exact (Hb b2 Hin).
Qed.

Theorem expand_sorted : forall stk, stack_ok stk -> sortedQ (expand elt stk).
Proof.
  intros stk Hok. rewrite expand_blocks.
  apply SS_sortedQ, flat_map_blocks_sorted, blocks_increasing. exact Hok.
Qed.

(* r vector: starts at 0, ends at n, strictly increasing *)

Lemma starts_ne from (bs : list (blk elt)) : starts elt from bs <> [].
Proof. destruct bs; simpl; discriminate. Qed.

Lemma starts_hd from (bs : list (blk elt)) : hd 0%nat (starts elt from bs) = from.
Proof. destruct bs; reflexivity. Qed.

Lemma starts_last : forall (bs : list (blk elt)) from,
  last (starts elt from bs) 0%nat = (from + length (concat (map bel bs)))%nat.
Proof.
  induction bs as [|b bs IH]; intros from.
  - simpl. lia.
  - change (starts elt from (b :: bs)) with (from :: starts elt (from + length (bel b)) bs).
    rewrite last_cons_ne by apply starts_ne.
    rewrite IH. simpl. rewrite app_length. lia.
Qed.

Lemma starts_length : forall (bs : list (blk elt)) from,
  length (starts elt from bs) = S (length bs).
Proof.
  induction bs as [|b bs IH]; intros from; simpl; [reflexivity|].
  rewrite IH. reflexivity.
Qed.

Lemma starts_ge : forall (bs : list (blk elt)) from,
  Forall (fun k => (from <= k)%nat) (starts elt from bs).
Proof.
  induction bs as [|b bs IH]; intros from; simpl.
  - constructor; [lia| constructor].
  - constructor; [lia|].
    eapply Forall_impl; [|apply IH].
    intros k Hk. cbv beta in Hk. lia.
Qed.

Lemma starts_increasing : forall (bs : list (blk elt)) from,
  Forall (fun b => bel b <> []) bs -> StronglySorted lt (starts elt from bs).
Proof.
  induction bs as [|b bs IH]; intros from HF; simpl.
  - constructor; constructor.
  - pose proof (Forall_inv HF) as Hb. pose proof (Forall_inv_tail HF) as HF'.
    constructor; [apply IH; exact HF'|].
    eapply Forall_impl; [|apply starts_ge].
    intros k Hk. cbv beta in Hk.
    assert (Hlen : (0 < length (bel b))%nat).
    { cbv beta in Hb. revert Hb. destruct (bel b) as [|x xs]; intros Hb; [congruence| simpl; lia]. }
    lia.
Qed.

Theorem rvec_hd : forall stk, hd 0%nat (rvec elt stk) = 0%nat.
Proof. intros stk. unfold rvec. apply starts_hd. Qed.

Theorem rvec_last : forall stk, last (rvec elt stk) 0%nat = length (flat elt stk).
Proof. intros stk. unfold rvec, flat. rewrite starts_last. reflexivity. Qed.

Lemma stack_ok_nonempty : forall stk, stack_ok stk -> Forall (fun b : blk elt => bel b <> []) stk.
Proof.
  intros stk [HF _]. eapply Forall_impl; [|exact HF].
  intros b HI. cbv beta in HI. destruct HI as (Bn & _). exact Bn.
Qed.

Theorem rvec_increasing : forall stk, stack_ok stk -> StronglySorted lt (rvec elt stk).
Proof.
  intros stk Hok. unfold rvec. apply starts_increasing.
  apply Forall_rev. apply stack_ok_nonempty. exact Hok.
Qed.

Theorem rvec_length : forall stk, length (rvec elt stk) = S (length stk).
Proof. intros stk. unfold rvec. rewrite starts_length, rev_length. reflexivity. Qed.

(* range: every block value lies within the observations of its own block *)
Theorem block_range : forall stk b, stack_ok stk -> In b stk ->
  forall lo hi, (forall e, In e (bel b) -> lo <= yv e /\ yv e <= hi) -> lo <= bv b /\ bv b <= hi.
Proof.
  intros stk b [HF _] Hin lo hi HR.
  rewrite Forall_forall in HF. pose proof (HF b Hin) as HI.
  destruct HI as (Bn & GB & Eb & _ & _).
  pose proof (I_T_le_max I (bel b) hi Bn GB (fun e He => proj2 (HR e He))) as Hmax.
  pose proof (I_T_ge_min I (bel b) lo Bn GB (fun e He => proj1 (HR e He))) as Hmin.
  split; lra.
Qed.

End Cert.

Print Assumptions gpava_blocks_cert.
Print Assumptions expand_sorted.
