(* The weighted mean as an instance of the generic GPAVA theory.  No axioms. *)
From Coq Require Import QArith Qreduction Lqa Lia List Bool.
Import ListNotations.
Open Scope Q_scope.
From MD Require Import lib.QLists model.Functionals theory.GpavaMerge theory.GInst.

Lemma hi_mean S t : hi elt V_mean S t == t * wtot S - wsum S.
Proof.
  induction S as [|e S IH]; simpl; [ring|].
  rewrite IH. unfold V_mean. ring.
Qed.

Lemma lo_mean S t : lo elt V_mean S t == t * wtot S - wsum S.
Proof.
  induction S as [|e S IH]; simpl; [ring|].
  rewrite IH. unfold V_mean. ring.
Qed.

Lemma wmean_times_wtot S : S <> [] -> Forall posw S -> wmean S * wtot S == wsum S.
Proof.
  intros Sn G. pose proof (wtot_pos S Sn G) as Hp.
  rewrite wmean_eq. field. lra.
Qed.

Lemma mean_V1 (e : elt) (t : Q) : posw e -> V_mean e t <= V_mean e t.
Proof. intros _. lra. Qed.

Lemma mean_V2 (e : elt) (t t' : Q) : posw e -> t < t' -> V_mean e t <= V_mean e t'.
Proof. unfold posw, V_mean. intros Hw Hlt. nra. Qed.

Lemma mean_V3 (e : elt) (t : Q) : posw e -> ey e <= t -> V_mean e t >= 0.
Proof. unfold posw, V_mean. intros Hw Hle. nra. Qed.

Lemma mean_V4 (e : elt) (t : Q) : posw e -> t <= ey e -> Neg false (V_mean e t).
Proof. unfold posw, V_mean, Neg. intros Hw Hle. nra. Qed.

Lemma mean_V_proper (e : elt) (t t' : Q) : t == t' -> V_mean e t == V_mean e t'.
Proof. unfold V_mean. intros E. rewrite E. reflexivity. Qed.

Lemma mean_T1 S : S <> [] -> Forall posw S -> hi elt V_mean S (wmean S) >= 0.
Proof.
  intros Sn G. rewrite hi_mean. pose proof (wmean_times_wtot S Sn G) as E. lra.
Qed.

Lemma mean_T2 S : S <> [] -> Forall posw S -> Neg false (lo elt V_mean S (wmean S)).
Proof.
  intros Sn G. unfold Neg. rewrite lo_mean. pose proof (wmean_times_wtot S Sn G) as E. lra.
Qed.

Lemma mean_T3 S t : S <> [] -> Forall posw S -> hi elt V_mean S t >= 0 -> wmean S <= t.
Proof.
  intros Sn G H. rewrite hi_mean in H.
  pose proof (wmean_times_wtot S Sn G) as E. pose proof (wtot_pos S Sn G) as Hp.
  destruct (Qlt_le_dec t (wmean S)) as [Hlt|Hge]; [|exact Hge].
  exfalso. nra.
Qed.

Lemma mean_T4 S t : S <> [] -> Forall posw S -> Neg false (lo elt V_mean S t) -> t <= wmean S.
Proof.
  intros Sn G H. unfold Neg in H. rewrite lo_mean in H.
  pose proof (wmean_times_wtot S Sn G) as E. pose proof (wtot_pos S Sn G) as Hp.
  destruct (Qlt_le_dec (wmean S) t) as [Hlt|Hge]; [|exact Hge].
  exfalso. nra.
Qed.

Lemma mean_T0 (e : elt) : posw e -> wmean [e] == ey e.
Proof.
  unfold posw. intros Hw. rewrite wmean_eq. simpl. field. lra.
Qed.

Definition mean_inst : GInst :=
  {| g_elt := elt; g_yv := ey; g_good := posw;
     g_Vp := V_mean; g_Vm := V_mean; g_strict := false; g_T := wmean;
     g_V1 := mean_V1; g_V2 := mean_V2; g_V3 := mean_V3; g_V4 := mean_V4;
     g_Vp_proper := mean_V_proper; g_Vm_proper := mean_V_proper;
     g_T1 := mean_T1; g_T2 := mean_T2; g_T3 := mean_T3; g_T4 := mean_T4;
     g_T0 := mean_T0 |}.

Print Assumptions mean_inst.
