#!/usr/bin/env python3
"""FOURTH printer of the IR of translate/pyexpr.py: Coq over PRIMITIVE BINARY64 floats.

  coq/gen/Gen_ident_f.v     identification_function        (gen_V_f)
  coq/gen/Gen_scoring_f.v   the scoring classes of scoring.py (gen_<short>_{init,functional,spo}_f)

usage: gen_f.py <repo-root> <coq-gen-dir> [ignored ...]
Exit status 0 iff the front end (gen_r.py / pyexpr.py, imported, not copied) translated everything and the
float printer could print every function; on Unsupported the message is printed and the status is 3.

How the IR is obtained.  gen_r.gen_ident / gen_r.gen_scoring are run twice:
  1. untouched: the reference text of Gen_ident.v / Gen_scoring.v;
  2. with gen_r.emit_fun replaced by a recorder and gen_r.FunTranslator replaced by the subclass
     FunTranslatorF below, which keeps what the world-R reading erases but binary64 needs:
       ("num", q, "int" | "float")                     Python int vs float constants
       ("prim", "astype_float" | "py_float" | "np_float64" | "np_full", x)   the casts
     The recorder hands the ERASED body on to the original emit_fun, and the text of run 2 must be identical
     to run 1: the float files are printed from an IR that provably erases to the IR of the real printer.

What the float printer does (fail closed, never approximate).  Every numeric expression gets a numpy KIND
  I  Python int constant (folded exactly)         S  Python float scalar (parameters, float constants)
  N  np.float64 scalar                            A  float64 array (per observation)
  B  bool array (1.0 / 0.0)                       J  int64 array (integral float, |v| <= 2^53, zero = +0)
and the result kind of an operation follows numpy 2 (NEP 50): bool (-|+|*) Python float -> float64,
bool (-|+|*) Python int -> int64, bool - bool -> TypeError (not expressible), -bool -> TypeError, ...
An expression that needs np.power / np.log / xlogy (or anything else without a float primitive, or a typing
case not listed) is NOT EXPRESSIBLE: a `let` of it poisons the variable, a `return` of it prints FNotExpr, an
`if` on it prints FNotExpr for the whole conditional.  Guards (ValueError) in front of it are still printed.
A Python-scalar division whose divisor is not a non-zero constant is not expressible (ZeroDivisionError).
Assumption (stated in the generated header): the parameters level, degree, eta are Python floats.
"""
import ast
import os
import sys
import types
from fractions import Fraction

sys.path.insert(0, os.path.dirname(os.path.abspath(__file__)))
import pyexpr  # noqa: E402
import gen_r  # noqa: E402
from pyexpr import FunTranslator, Unsupported  # noqa: E402

TWO53 = 2 ** 53
CASTS = ("astype_float", "py_float", "np_float64", "np_full")


# ------------------------------------------------------------------ decorated front end
class FunTranslatorF(FunTranslator):
    def rexpr(self, n):
        if isinstance(n, ast.Constant):
            e = pyexpr._num(n.value)
            return e + ("int" if isinstance(n.value, int) else "float",)
        return super().rexpr(n)

    def rcall(self, n):
        f = n.func
        if isinstance(f, ast.Attribute) and f.attr == "astype" and len(n.args) == 1 \
                and isinstance(n.args[0], ast.Name) and n.args[0].id == "float" and not n.keywords:
            return ("prim", "astype_float", self.rexpr(f.value))
        if isinstance(f, ast.Name) and f.id == "float" and len(n.args) == 1 and not n.keywords:
            return ("prim", "py_float", self.rexpr(n.args[0]))
        if isinstance(f, ast.Attribute) and isinstance(f.value, ast.Name) and (f.value.id, f.attr) == ("np", "float64") \
                and len(n.args) == 1 and not n.keywords:
            return ("prim", "np_float64", self.rexpr(n.args[0]))
        if isinstance(f, ast.Attribute) and isinstance(f.value, ast.Name) and (f.value.id, f.attr) == ("np", "full") \
                and len(n.args) == 1 and len(n.keywords) == 1 and n.keywords[0].arg == "fill_value" \
                and isinstance(n.args[0], ast.Attribute) and n.args[0].attr == "shape":
            return ("prim", "np_full", self.rexpr(n.keywords[0].value))
        return super().rcall(n)      # every other form: the front end's own (fail-closed) reading


def erase_r(e):
    k = e[0]
    if k == "num":
        return ("num", e[1])
    if k == "var":
        return e
    if k == "neg":
        return ("neg", erase_r(e[1]))
    if k == "bin":
        return ("bin", e[1], erase_r(e[2]), erase_r(e[3]))
    if k == "prim":
        if e[1] in CASTS:
            return erase_r(e[2])
        return ("prim", e[1]) + tuple(erase_r(a) for a in e[2:])
    raise Unsupported(f"erase_r {e!r}")


def is_f(a):
    return a[0] in ("fvar", "fconst", "fcall")


def erase_b(e):
    k = e[0]
    if k == "cmp":
        return ("cmp", e[1], erase_r(e[2]), erase_r(e[3]))
    if k in ("and", "or"):
        return (k, erase_b(e[1]), erase_b(e[2]))
    if k == "not":
        return ("not", erase_b(e[1]))
    if k in ("feq", "anyflag"):
        return e
    raise Unsupported(f"erase_b {e!r}")


def erase_s(s):
    k = s[0]
    if k == "let":
        return ("let", s[1], erase_r(s[2]), erase_s(s[3]))
    if k == "if":
        return ("if", erase_b(s[1]), erase_s(s[2]), erase_s(s[3]))
    if k in ("raise", "retf"):
        return s
    if k == "ret":
        return ("ret", erase_r(s[1]))
    if k == "bind":
        return ("bind", s[1], (s[2][0], [a if is_f(a) else erase_r(a) for a in s[2][1]]), erase_s(s[3]))
    raise Unsupported(f"erase_s {s!r}")


def capture(fn, repo):
    """-> (records, reference text).  Runs gen_r's `fn` untouched and decorated; both texts must agree."""
    ref = fn(repo)
    recs = []
    orig_emit, orig_tr = gen_r.emit_fun, gen_r.FunTranslator

    def rec_emit(tr, gname, kinds, body, rtype="R", with_ok=True):
        recs.append(dict(gname=gname, kinds=list(kinds), body=body, rtype=rtype, anyflags=list(tr.anyflags)))
        tr2 = types.SimpleNamespace(anyflags=[erase_b(c) for c in tr.anyflags])
        return orig_emit(tr2, gname, kinds, erase_s(body), rtype, with_ok)

    gen_r.emit_fun, gen_r.FunTranslator = rec_emit, FunTranslatorF
    try:
        dec = fn(repo)
    finally:
        gen_r.emit_fun, gen_r.FunTranslator = orig_emit, orig_tr
    if dec != ref:
        raise Unsupported(f"{fn.__name__}: the decorated IR does not erase to the IR printed by gen_r.py")
    return recs, ref


def capture_subclasses(repo, init_kinds):
    """SquaredError & co: [(sub, base class, own kinds, [decorated IR of the super().__init__ keywords])].
    gen_r.gen_scoring has already checked the shape of these classes (it raised otherwise)."""
    src = os.path.join(repo, "src/model_diagnostics/scoring/scoring.py")
    tree = ast.parse(open(src).read())
    out = []
    for sub in gen_r.SUBCLASSES:
        cls = gen_r.find(tree, sub, ast.ClassDef)
        bases = [ast.unparse(b) for b in cls.bases]
        if len(bases) != 1 or bases[0] not in gen_r.SHORT:
            raise Unsupported(f"{sub}: bases {bases}")
        init = gen_r.method(cls, "__init__")
        kinds = gen_r.param_kinds(init)
        stm = [s for s in init.body if not (isinstance(s, ast.Expr) and isinstance(s.value, ast.Constant))]
        if len(stm) != 1 or not isinstance(stm[0], ast.Expr) or not isinstance(stm[0].value, ast.Call):
            raise Unsupported(f"{sub}.__init__ body")
        call = stm[0].value
        if ast.unparse(call.func) != "super().__init__" or call.args:
            raise Unsupported(f"{sub}.__init__: {ast.unparse(call)}")
        kw = {k.arg: k.value for k in call.keywords}
        pk = init_kinds[bases[0]]
        if set(kw) != {n for n, _ in pk}:
            raise Unsupported(f"{sub}: super().__init__ keywords {sorted(kw)}")
        tr = FunTranslatorF(f"{sub}.__init__", {n: (k, n) for n, k in kinds})
        out.append((sub, bases[0], kinds, [tr.rexpr(kw[n]) for n, _ in pk],
                    ", ".join(n + "=" + ast.unparse(kw[n]) for n, _ in pk)))
    return out


# ------------------------------------------------------------------ the float printer
class Inexpr(Exception):
    """not expressible with primitive float operations (fail closed)"""


def flit(v):
    """Coq literal (float_scope) of the double v, exact"""
    v = float(v)
    if v != v or v in (float("inf"), float("-inf")):
        raise Inexpr("non-finite constant")
    if v == int(v) and abs(v) <= TWO53 and not (v == 0 and str(v)[0] == "-"):
        i = int(v)
        return str(i) if i >= 0 else f"(- {-i})"
    h = v.hex()
    m, ex = h.split("p")
    if "." in m:
        m = m.rstrip("0").rstrip(".")            # 0x1.0000000000000p-1 -> 0x1p-1 (same double)
    h = m + "p" + ex
    assert float.fromhex(h) == v and str(float.fromhex(h)) == str(v)
    return f"(- {h[1:]})" if h[0] == "-" else h


def bound(k):
    if k[0] == "I":
        return abs(k[1])
    if k[0] == "B":
        return 1
    if k[0] == "J":
        return k[1]
    raise Inexpr("internal: bound of a float kind")


POISON = ("poison",)
NOPRIM = {"np_log": "np.log", "np_power": "np.power", "xlogy": "scipy.special.xlogy"}


def f_r(e, env):
    """-> (coq text, kind).  Raises Inexpr."""
    k = e[0]
    if k == "num":
        q = e[1]
        tag = e[2] if len(e) > 2 else None
        if tag == "int":
            if abs(q) > TWO53:
                raise Inexpr("Python int constant beyond 2^53")
            return flit(int(q)), ("I", int(q))
        if tag != "float":
            raise Inexpr("constant of unknown Python type")
        v = float(q)               # q = Fraction(repr(literal)): float(q) is the literal's double
        return flit(v), ("S", v)
    if k == "var":
        kd = env.get(e[1])
        if kd is None:
            raise Unsupported(f"gen_f: unbound variable {e[1]}")
        if kd == POISON:
            raise Inexpr(f"uses {e[1]}")
        return e[1], kd
    if k == "neg":
        t, kd = f_r(e[1], env)
        if kd[0] == "I":
            return flit(-kd[1]), ("I", -kd[1])           # Python int: -0 is 0
        if kd[0] == "S":
            return f"(- {t})", ("S", None if kd[1] is None else -kd[1])
        if kd[0] in ("N", "A"):
            return f"(- {t})", kd
        if kd[0] == "J":
            return f"(int_norm_f (- {t}))", kd
        raise Inexpr("negation of a bool array (numpy: TypeError)")
    if k == "bin":
        return binop(e[1], f_r(e[2], env), f_r(e[3], env))
    if k == "prim":
        name = e[1]
        if name in NOPRIM:
            for a in e[2:]:
                f_r(a, env)      # (an Unsupported inside still surfaces)
            raise Inexpr(NOPRIM[name])
        args = [f_r(a, env) for a in e[2:]]
        if name == "np_div":
            return binop("/", args[0], args[1])
        if name in ("ge_ind", "le_ind", "lt_ind", "gt_ind") and len(args) == 2:
            return f"({name}_f {args[0][0]} {args[1][0]})", ("B",)
        if name in ("np_abs", "np_square", "np_sign") and len(args) == 1:
            t, kd = args[0]
            if kd[0] in ("A", "N"):
                return f"({name}_f {t})", kd
            if kd[0] == "S":
                return f"({name}_f {t})", ("N",)
            raise Inexpr(f"{name} of a non-float operand")
        if name == "np_mod" and len(args) == 2:
            (ta, ka), (tb, kb) = args
            if ka[0] in "IS" and kb[0] in "IS" and kb[1] is not None and kb[1] > 0 \
                    and not (ka[0] == "I" and ka[1] is not None and ka[1] < 0):
                # Python scalar %, positive constant divisor (int % int has the same value)
                return f"(py_mod_f {ta} {tb})", ("S", None)
            raise Inexpr("% outside Python scalar % positive constant")
        if name == "astype_float" and len(args) == 1:
            t, kd = args[0]
            if kd[0] in ("A", "B", "J"):
                return t, ("A",)
            if kd[0] == "N":
                return t, kd
            raise Inexpr(".astype on a Python scalar")
        if name == "py_float" and len(args) == 1:
            t, kd = args[0]
            if kd[0] == "I":
                return t, ("S", float(kd[1]))
            if kd[0] == "S":
                return t, kd
            if kd[0] == "N":
                return t, ("S", None)
            raise Inexpr("float() of an array")
        if name == "np_float64" and len(args) == 1:
            t, kd = args[0]
            if kd[0] in ("I", "S", "N"):
                return t, ("N",)
            raise Inexpr("np.float64() of an array")
        if name == "np_full" and len(args) == 1:
            t, kd = args[0]
            if kd[0] in ("S", "N"):
                return t, ("A",)
            if kd[0] == "I":
                return t, ("J", abs(kd[1]))
            raise Inexpr("np.full with an array fill value")
        if name in ("np_where", "where") and len(args) == 3 and args[0][1][0] == "B" \
                and args[1][1][0] == "A" and args[2][1][0] == "A":
            return f"(np_where_f {args[0][0]} {args[1][0]} {args[2][0]})", ("A",)
        raise Inexpr(f"primitive {name}")
    raise Unsupported(f"f_r {e!r}")


def binop(op, a, b):
    (ta, ka), (tb, kb) = a, b
    sa, sb = ka[0], kb[0]
    txt = f"({ta} {op} {tb})"
    if sa in "IS" and sb in "IS":                      # Python scalar arithmetic
        if op == "/":
            if kb[1] is None or kb[1] == 0:
                raise Inexpr("Python scalar division by a non-constant (ZeroDivisionError possible)")
            # int / int: correctly rounded quotient = IEEE division of the exactly converted operands
            return txt, ("S", None if ka[1] is None else ka[1] / kb[1])
        if sa == "I" and sb == "I":
            v = {"+": ka[1] + kb[1], "-": ka[1] - kb[1], "*": ka[1] * kb[1]}[op]
            if abs(v) > TWO53:
                raise Inexpr("Python int beyond 2^53")
            return flit(v), ("I", v)                    # folded: exact integer arithmetic
        if ka[1] is None or kb[1] is None:
            return txt, ("S", None)
        fa, fb = float(ka[1]), float(kb[1])
        return txt, ("S", {"+": fa + fb, "-": fa - fb, "*": fa * fb}[op])   # known value (for the divisor test only)
    if sa == "B" and sb == "B":
        raise Inexpr("arithmetic on two bool arrays (numpy: TypeError / logical operation)")
    if sa in "IBJ" and sb in "IBJ":                     # integer-typed array arithmetic
        if op == "/":
            return txt, ("A",)                          # true_divide: float64 of exactly converted operands
        ba, bb = bound(ka), bound(kb)
        bd = ba * bb if op == "*" else ba + bb
        if bd > TWO53:
            raise Inexpr("int64 intermediate beyond 2^53")
        return f"(int_norm_f {txt})", ("J", bd)
    if "A" in (sa, sb) or sa in "BJ" or sb in "BJ":
        return txt, ("A",)
    if "N" in (sa, sb):
        return txt, ("N",)
    raise Inexpr(f"arithmetic on kinds {sa} {sb}")


def f_fexpr(e):
    if e[0] in ("fvar", "fconst"):
        return e[1]
    if e[0] == "fcall":
        return "(" + " ".join([e[1] + "_f"] + e[2]) + ")"
    raise Unsupported(f"f_fexpr {e!r}")


def f_b(e, env):
    k = e[0]
    if k == "cmp":
        a, b = f_r(e[2], env)[0], f_r(e[3], env)[0]
        return {"==": f"(f_eqb {a} {b})", "<=": f"(f_leb {a} {b})", "<": f"(f_ltb {a} {b})",
                ">=": f"(f_leb {b} {a})", ">": f"(f_ltb {b} {a})"}[e[1]]
    if k == "and":
        return f"({f_b(e[1], env)} && {f_b(e[2], env)})"
    if k == "or":
        return f"({f_b(e[1], env)} || {f_b(e[2], env)})"
    if k == "not":
        return f"(negb {f_b(e[1], env)})"
    if k == "feq":
        return f"(fun_eqb {f_fexpr(e[1])} {e[2]})"
    if k == "anyflag":
        return f"any{e[1]}"
    raise Unsupported(f"f_b {e!r}")


class Printer:
    """prints one function body; collects the reasons of FNotExpr"""

    def __init__(self, gname, sigs, rtype, is_init):
        self.gname, self.sigs, self.rtype, self.is_init = gname, sigs, rtype, is_init
        self.reasons = []

    def note(self, what, why):
        msg = f"{what}: {why}"
        if msg not in self.reasons:
            self.reasons.append(msg)

    def notexpr(self, p, what, why):
        self.note(what, why)
        if self.rtype == "F":
            raise Unsupported(f"{self.gname}: a functional-valued function is not expressible ({what}: {why})")
        return f"{p}FNotExpr   (* {what}: {why} *)"

    def s(self, s, env, ind):
        p = "  " * ind
        k = s[0]
        if k == "let":
            env2 = dict(env)
            try:
                t, kd = f_r(s[2], env)
            except Inexpr as ex:
                env2[s[1]] = POISON
                self.note(f"let {s[1]}", str(ex))
                return f"{p}(* {s[1]}: not expressible ({ex}) *)\n" + self.s(s[3], env2, ind)
            env2[s[1]] = kd
            return f"{p}let {s[1]} := {t} in\n" + self.s(s[3], env2, ind)
        if k == "if":
            try:
                c = f_b(s[1], env)
            except Inexpr as ex:
                return self.notexpr(p, "if", str(ex))
            return (f"{p}if {c} then\n" + self.s(s[2], env, ind + 1) + f"\n{p}else\n" + self.s(s[3], env, ind + 1))
        if k == "raise":
            return f"{p}FValueErr"
        if k == "ret":
            try:
                t, kd = f_r(s[1], env)
            except Inexpr as ex:
                return self.notexpr(p, "return", str(ex))
            if self.is_init:
                return f"{p}FVal {t}"
            if kd[0] != "A":
                return self.notexpr(p, "return", f"the returned value is not a float64 array (kind {kd[0]})")
            return f"{p}FVal {t}"
        if k == "retf":
            if self.rtype != "F":
                raise Unsupported(f"{self.gname}: functional returned from a numeric function")
            return f"{p}{f_fexpr(s[1])}"
        if k == "bind":
            callee, args = s[2]
            sig = self.sigs.get(callee)
            if sig is None or len(sig) != len(args):
                raise Unsupported(f"{self.gname}: call of unknown generated function {callee}")
            ts = []
            try:
                for a, (pn, want) in zip(args, sig):
                    if want == "F":
                        if not is_f(a):
                            raise Unsupported(f"{self.gname}: argument {pn} of {callee}")
                        ts.append(f_fexpr(a))
                    else:
                        t, kd = f_r(a, env)
                        if kd[0] != want:
                            raise Inexpr(f"argument {pn} of {callee} has kind {kd[0]}, the callee is printed for {want}")
                        ts.append(t)
            except Inexpr as ex:
                return self.notexpr(p, f"call of {callee}", str(ex))
            env2 = dict(env)
            env2[s[1]] = ("A",)
            return f"{p}fres_bind ({callee}_f {' '.join(ts)}) (fun {s[1]} =>\n" + self.s(s[3], env2, ind + 1) + ")"
        raise Unsupported(f"f_s {s!r}")


ARRAY_PARAMS = ("y_obs", "y_pred")


def param_kind(name, k):
    return "F" if k == "F" else ("A" if name in ARRAY_PARAMS else "S")


def emit_f(rec, sigs, report):
    gname, kinds, body, rtype = rec["gname"], rec["kinds"], rec["body"], rec["rtype"]
    env = {n: (("A",) if n in ARRAY_PARAMS else ("S", None)) for n, k in kinds if k == "R"}
    nany = len(rec["anyflags"])
    params = " ".join(f"({n} : {'float' if k == 'R' else 'fnl'})" for n, k in kinds)
    anyp = "".join(f" (any{i + 1} : bool)" for i in range(nany))
    pr = Printer(gname, sigs, rtype, gname.endswith("_init"))
    text = pr.s(body, env, 1)
    ty = "fnl" if rtype == "F" else "fres"
    coq = f"Definition {gname}_f {params}{anyp} : {ty} :=\n{text}.\n"
    for i, c in enumerate(rec["anyflags"]):
        try:
            ct = f"Some {f_b(c, env)}"
        except Inexpr as ex:
            ct = f"None   (* {ex} *)"
        coq += f"\nDefinition {gname}_any{i + 1}_f {params} : option bool :=\n  {ct}.\n"
    sigs[gname] = [(n, param_kind(n, k)) for n, k in kinds]
    report.append((gname + "_f", pr.reasons))
    return coq


HEADER = """(* GENERATED by translate/gen_f.py from {src} -- do not edit.
   The IR of translate/pyexpr.py printed over PRIMITIVE BINARY64 floats (lib/NumpyF.v): one rounding per
   operation in the order of the source expression.  Assumes that level / degree / eta are Python floats and
   y_obs / y_pred float64 arrays (read per observation).  FValueErr = the implementation raises ValueError;
   FNotExpr = the branch needs a primitive without a float counterpart in Coq (no claim, never approximated). *)
From Coq Require Import PrimFloat Bool.
From MD Require Import lib.NumpyF.
Open Scope float_scope.
"""


def report_text(report):
    out = "(* expressibility (per generated function; empty = every branch is expressible)\n"
    for g, rs in report:
        out += f"   {g}: " + ("fully expressible" if not rs else "FNotExpr where " + "; ".join(rs)) + "\n"
    return out + "*)\n"


def gen_ident_f(repo, sigs):
    recs, _ = capture(gen_r.gen_ident, repo)
    report, coq = [], ""
    for r in recs:
        coq += emit_f(r, sigs, report) + "\n"
    return HEADER.format(src="src/model_diagnostics/calibration/identification.py") + "\n" + report_text(report) + "\n" + coq


def gen_scoring_f(repo, sigs):
    recs, _ = capture(gen_r.gen_scoring, repo)
    report, coq = [], ""
    init_kinds = {c: [] for c in gen_r.SHORT}
    for r in recs:
        coq += emit_f(r, sigs, report) + "\n"
        for cname, short in gen_r.SHORT.items():
            if r["gname"] == f"gen_{short}_init":
                init_kinds[cname] = r["kinds"]
    for sub, base, kinds, args, desc in capture_subclasses(repo, init_kinds):
        pshort = gen_r.SHORT[base]
        env = {n: ("S", None) for n, k in kinds if k == "R"}
        try:
            ts = []
            for a in args:
                t, kd = f_r(a, env)
                if kd[0] not in "IS":
                    raise Inexpr("constructor argument is not a Python scalar")
                ts.append(t)
        except Inexpr as ex:
            raise Unsupported(f"{sub}: constructor arguments not expressible as floats ({ex})")
        cp = " ".join(f"({n} : float)" for n, k in kinds)
        a = " ".join(ts)
        coq += f"(* {sub} = {base}({desc}) *)\n"
        coq += f"Definition gen_{sub}_spo_f {cp} : float -> float -> fres :=\n  gen_{pshort}_spo_f {a}.\n"
        coq += f"Definition gen_{sub}_init_f {cp} : fres :=\n  gen_{pshort}_init_f {a}.\n"
        coq += f"Definition gen_{sub}_functional_f {cp} : fnl :=\n  gen_{pshort}_functional_f {a}.\n\n"
    head = HEADER.format(src="src/model_diagnostics/scoring/scoring.py") + "From MD Require Import gen.Gen_ident_f.\n\n"
    return head + report_text(report) + "\n" + coq


def main():
    if len(sys.argv) < 3:
        raise SystemExit(__doc__)
    repo, gdir = sys.argv[1:3]
    try:
        sigs = {}
        ci = gen_ident_f(repo, sigs)
        cs = gen_scoring_f(repo, sigs)
    except Unsupported as e:
        print(f"UNSUPPORTED: {e}")
        return 3
    except (SyntaxError, OSError) as e:
        print(f"UNSUPPORTED: cannot read source: {e}")
        return 3
    gen_r.write_if_changed(os.path.join(gdir, "Gen_ident_f.v"), ci)
    gen_r.write_if_changed(os.path.join(gdir, "Gen_scoring_f.v"), cs)
    return 0


if __name__ == "__main__":
    sys.exit(main())
