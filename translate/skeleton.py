"""Skeleton match + leaf extraction for loop code (tie (b) of DESIGN.md 2.2).

A committed template `skeleton/<name>.tmpl.py` is the pinned source of one
function with every numeric leaf replaced by a call `HOLE("leafname")`.  The
matcher unifies the template's AST with the AST of the *current* function:
every node outside a hole must be identical (statement order, loop nesting,
index arithmetic, keyword arguments); a hole captures the current sub-tree.
Docstrings are ignored; comments are not part of the AST.  Any mismatch raises
SkeletonMismatch (fail closed).

Captured leaves are translated to Gallina over Q by `leaf_to_coq`, using the
leaf's committed atom table (skeleton/<name>.holes.json):
    {"leaf": {"type": "Q"|"bool", "args": ["a","b"], "atoms": {"x[i + 1]": "b", "xb": "a"}}}
An atom is matched on the unparsed text of a sub-expression; a free name or
array read outside the table fails closed.
"""
import ast
import json
from fractions import Fraction


class SkeletonMismatch(Exception):
    pass


def strip_docstrings(node):
    for n in ast.walk(node):
        if isinstance(n, (ast.FunctionDef, ast.ClassDef, ast.Module)):
            if n.body and isinstance(n.body[0], ast.Expr) and isinstance(n.body[0].value, ast.Constant) \
                    and isinstance(n.body[0].value.value, str):
                n.body = n.body[1:] or [ast.Pass()]
    return node


def is_hole(n):
    return isinstance(n, ast.Call) and isinstance(n.func, ast.Name) and n.func.id == "HOLE" \
        and len(n.args) == 1 and isinstance(n.args[0], ast.Constant)


def unify(t, c, holes, path="root"):
    """t: template node, c: current node."""
    if is_hole(t):
        name = t.args[0].value
        if not isinstance(c, ast.AST):
            raise SkeletonMismatch(f"{path}: hole {name} against non-node")
        if name in holes and ast.dump(holes[name]) != ast.dump(c):
            raise SkeletonMismatch(f"{path}: hole {name} captured two different expressions")
        holes[name] = c
        return
    if type(t) is not type(c):
        raise SkeletonMismatch(f"{path}: {type(t).__name__} expected, found {type(c).__name__}"
                               + (f" `{ast.unparse(c)[:80]}`" if isinstance(c, ast.AST) else ""))
    if isinstance(t, ast.AST):
        for f in t._fields:
            if f in ("type_comment", "ctx", "kind"):
                continue
            unify(getattr(t, f, None), getattr(c, f, None), holes, f"{path}.{type(t).__name__}.{f}")
    elif isinstance(t, list):
        if len(t) != len(c):
            raise SkeletonMismatch(f"{path}: {len(t)} items expected, found {len(c)}")
        for i, (a, b) in enumerate(zip(t, c)):
            unify(a, b, holes, f"{path}[{i}]")
    else:
        if t != c:
            raise SkeletonMismatch(f"{path}: `{t}` expected, found `{c}`")


def find_def(tree, qualname):
    parts = qualname.split(".")
    body = tree.body
    node = None
    for p in parts:
        node = None
        for n in body:
            if isinstance(n, (ast.FunctionDef, ast.ClassDef)) and n.name == p:
                node = n
                break
        if node is None:
            raise SkeletonMismatch(f"{qualname}: definition not found")
        body = node.body
    return node


def match_function(template_src, current_src, qualname):
    t = strip_docstrings(find_def(ast.parse(template_src), qualname))
    c = strip_docstrings(find_def(ast.parse(current_src), qualname))
    # annotations and decorators are part of the skeleton except return/arg annotations
    for n in list(ast.walk(t)) + list(ast.walk(c)):
        if isinstance(n, ast.arg):
            n.annotation = None
        if isinstance(n, ast.FunctionDef):
            n.returns = None
        if isinstance(n, ast.AnnAssign) and n.value is not None:
            n.annotation = ast.Name(id="_", ctx=ast.Load())
    holes = {}
    unify(t, c, holes, qualname)
    return holes


# ------------------------------------------------------------ leaf -> Gallina (Q)
class LeafError(Exception):
    pass


def qnum(v):
    if isinstance(v, bool):
        raise LeafError("bool constant")
    q = Fraction(v) if isinstance(v, int) else Fraction(str(v))
    if q.denominator == 1:
        return f"({q.numerator})" if q.numerator < 0 else f"{q.numerator}"
    return f"({q.numerator} # {q.denominator})"


def leaf_to_coq(node, atoms, typ):
    """Gallina text over Q (or bool) for a captured leaf."""
    txt = ast.unparse(node)
    if txt in atoms:
        return atoms[txt]
    if isinstance(node, ast.Constant):
        if typ == "bool" and isinstance(node.value, bool):
            return "true" if node.value else "false"
        return qnum(node.value)
    if isinstance(node, ast.UnaryOp) and isinstance(node.op, ast.USub):
        return f"(- {leaf_to_coq(node.operand, atoms, 'Q')})"
    if isinstance(node, ast.UnaryOp) and isinstance(node.op, ast.Not):
        return f"(negb {leaf_to_coq(node.operand, atoms, 'bool')})"
    if isinstance(node, ast.BinOp):
        ops = {ast.Add: "+", ast.Sub: "-", ast.Mult: "*", ast.Div: "/"}
        if type(node.op) in ops:
            return f"({leaf_to_coq(node.left, atoms, 'Q')} {ops[type(node.op)]} {leaf_to_coq(node.right, atoms, 'Q')})"
    if isinstance(node, ast.BoolOp):
        op = "&&" if isinstance(node.op, ast.And) else "||"
        return "(" + f" {op} ".join(leaf_to_coq(v, atoms, "bool") for v in node.values) + ")"
    if isinstance(node, ast.Compare) and len(node.ops) == 1:
        a = leaf_to_coq(node.left, atoms, "Q")
        b = leaf_to_coq(node.comparators[0], atoms, "Q")
        op = node.ops[0]
        if isinstance(op, ast.GtE):
            return f"(Qle_bool {b} {a})"
        if isinstance(op, ast.LtE):
            return f"(Qle_bool {a} {b})"
        if isinstance(op, ast.Gt):
            return f"(negb (Qle_bool {a} {b}))"
        if isinstance(op, ast.Lt):
            return f"(negb (Qle_bool {b} {a}))"
        if isinstance(op, ast.Eq):
            return f"(Qeq_bool {a} {b})"
        if isinstance(op, ast.NotEq):
            return f"(negb (Qeq_bool {a} {b}))"
    raise LeafError(f"unsupported leaf expression `{txt}` (atoms: {sorted(atoms)})")


def emit_leaves(prefix, holes, spec):
    """spec: dict from holes.json. Returns Coq text defining leaf_<prefix>_<name>.
    Leaves of type 'text' are not translated: their unparsed text must equal the
    committed one (used for polars / numpy call expressions with no Gallina
    counterpart)."""
    out = []
    for name in sorted(spec):
        s = spec[name]
        if name not in holes:
            raise LeafError(f"hole {name} declared but not present in the template")
        if s["type"] == "any":      # e.g. the text of an error message: no semantics
            continue
        if s["type"] == "text":
            got = ast.unparse(holes[name])
            if got != s["text"]:
                raise LeafError(f"leaf {name}: `{got}` is not the committed `{s['text']}`")
            continue
        body = leaf_to_coq(holes[name], s["atoms"], s["type"])
        args = " ".join(f"({a} : Q)" for a in s["args"])
        ty = "bool" if s["type"] == "bool" else "Q"
        out.append(f"(* `{ast.unparse(holes[name])}` *)\nDefinition leaf_{prefix}_{name} {args} : {ty} :=\n  {body}.\n")
    extra = set(holes) - set(spec)
    if extra:
        raise LeafError(f"holes without a declaration: {sorted(extra)}")
    return "\n".join(out)


def load_spec(path):
    return json.load(open(path))
