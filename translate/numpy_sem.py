"""Python twin of coq/lib/NumpyR.v: the reading of the numpy vocabulary that the
generated Gallina uses, over Python floats.  Where NumpyR's ok-predicate fails the
twin raises NotOk (numpy gives nan / inf / a warning there)."""
import math


class ValueErr(Exception):
    pass


class NotOk(Exception):
    pass


def ge_ind(a, b):
    return 1.0 if b <= a else 0.0


def le_ind(a, b):
    return 1.0 if a <= b else 0.0


def lt_ind(a, b):
    return 1.0 if a < b else 0.0


def gt_ind(a, b):
    return 1.0 if a > b else 0.0


def np_abs(x):
    return abs(x)


def np_square(x):
    return x * x


def np_sign(x):
    return 1.0 if x > 0 else (-1.0 if x < 0 else 0.0)


def np_log(x):
    if not x > 0:
        raise NotOk("log")
    return math.log(x)


def xlogy(x, y):
    if x == 0:
        return 0.0
    if not y > 0:
        raise NotOk("xlogy")
    return x * math.log(y)


def np_mod(x, m):
    return x - m * math.floor(x / m)


def np_power(x, h):
    if x > 0:
        return math.exp(h * math.log(x)) if False else math.pow(x, h)
    if x == 0:
        if h < 0:
            raise NotOk("0**negative")
        return 1.0 if h == 0 else 0.0
    if h != math.floor(h):
        raise NotOk("negative**fractional")
    v = math.pow(-x, h)
    return -v if np_mod(h, 2) == 1 else v


def np_div(a, b):
    if b == 0:
        raise NotOk("division by zero")
    return a / b
