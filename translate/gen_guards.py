#!/usr/bin/env python3
"""Tie (a)/(b) of C20: the guards of the validation model are read off the source.

For every entry point modelled in coq/model/Validate.v the function body is walked in
source order and every event that matters for argument validation is written down:

  raise   `raise <Exc>(...)` together with the conditions of all enclosing if / elif / else
          branches (text of the condition, "not (...)" for an else branch)
  call    a call of a validating helper or of another modelled entry point
          (validate_2_arrays, validate_same_first_dimension, length_of_*_dimension, bin_feature,
          identification_function, compute_bias, compute_marginal, isotonic_regression,
          IsotonicRegression(...), <iso>.fit, ElementaryScore(...), np.average, super().__init__, ...)
  assign  a re-assignment of `functional` / `level` / `weights` (aliasing such as median := 0.5-quantile)

  gen_guards.py <repo> <out.json> [<expected.json>] [--write-expected]

writes <out.json> = {"<file>::<qualname>": [events]} and, when <expected.json> is given, compares
with the committed list (skeleton/guards.expected.json).  Last stdout line: one JSON object
{"status": "ok" | "changed", "functions": n, "events": m, "diff": [...]}; exit code 0 / 1.
A deleted, altered, re-ordered or added guard is therefore noticed before the correspondence runs;
messages and anything that is not on the list above may change freely."""
import ast
import json
import os
import sys

SRC = "src/model_diagnostics"
TARGETS = [
    ("_utils/array.py", "length_of_first_dimension"),
    ("_utils/array.py", "length_of_second_dimension"),
    ("_utils/array.py", "validate_same_first_dimension"),
    ("_utils/array.py", "validate_2_arrays"),
    ("_utils/binning.py", "bin_feature"),
    ("_utils/isotonic.py", "isotonic_regression"),
    ("_utils/isotonic.py", "IsotonicRegression.__init__"),
    ("_utils/isotonic.py", "IsotonicRegression.fit"),
    ("_utils/partial_dependence.py", "compute_partial_dependence"),
    ("calibration/identification.py", "identification_function"),
    ("calibration/identification.py", "compute_bias"),
    ("calibration/identification.py", "compute_marginal"),
    ("calibration/plots.py", "plot_reliability_diagram"),
    ("calibration/plots.py", "plot_bias"),
    ("calibration/plots.py", "plot_marginal"),
    ("scoring/plots.py", "plot_murphy_diagram"),
    ("scoring/scoring.py", "_BaseScoringFunction.__call__"),
    ("scoring/scoring.py", "HomogeneousExpectileScore.__init__"),
    ("scoring/scoring.py", "HomogeneousExpectileScore.functional"),
    ("scoring/scoring.py", "HomogeneousExpectileScore.score_per_obs"),
    ("scoring/scoring.py", "SquaredError.__init__"),
    ("scoring/scoring.py", "PoissonDeviance.__init__"),
    ("scoring/scoring.py", "GammaDeviance.__init__"),
    ("scoring/scoring.py", "LogLoss.score_per_obs"),
    ("scoring/scoring.py", "HomogeneousQuantileScore.__init__"),
    ("scoring/scoring.py", "HomogeneousQuantileScore.score_per_obs"),
    ("scoring/scoring.py", "PinballLoss.__init__"),
    ("scoring/scoring.py", "ElementaryScore.__init__"),
    ("scoring/scoring.py", "ElementaryScore.score_per_obs"),
    ("scoring/scoring.py", "decompose"),
]
CALLEES = {"validate_2_arrays", "validate_same_first_dimension", "length_of_first_dimension",
           "length_of_second_dimension", "bin_feature", "identification_function", "compute_bias",
           "compute_marginal", "compute_partial_dependence", "isotonic_regression", "IsotonicRegression",
           "IsotonicRegression_skl", "ElementaryScore", "get_array_min_max", "expectile", "quantile_lower",
           "quantile_upper", "scoring_function", "elementary_score"}
METHODS = {"fit", "average", "__init__", "score_per_obs", "hstack", "asarray"}
WATCHED_NAMES = {"functional", "level", "weights", "w", "n_obs"}


def find(tree, qualname):
    node = tree
    for part in qualname.split("."):
        for ch in ast.iter_child_nodes(node):
            if isinstance(ch, (ast.FunctionDef, ast.ClassDef)) and ch.name == part:
                node = ch
                break
        else:
            return None
    return node


def callee_name(call):
    f = call.func
    if isinstance(f, ast.Name) and f.id in CALLEES:
        return f.id
    if isinstance(f, ast.Attribute) and f.attr in METHODS:
        return ast.unparse(f) if f.attr != "asarray" else None
    return None


class Walker:
    def __init__(self):
        self.events = []

    def expr_calls(self, node, conds):
        """calls inside an expression / simple statement, in evaluation (source) order"""
        calls = [n for n in ast.walk(node) if isinstance(n, ast.Call)]
        calls.sort(key=lambda n: (n.end_lineno, n.end_col_offset))      # inner calls are evaluated first
        for c in calls:
            nm = callee_name(c)
            if nm:
                args = [ast.unparse(a) for a in c.args] + [f"{k.arg}={ast.unparse(k.value)}" for k in c.keywords]
                self.events.append(dict(kind="call", callee=nm, args=args, under=list(conds)))

    def stmts(self, body, conds):
        for st in body:
            self.stmt(st, conds)

    def stmt(self, st, conds):
        if isinstance(st, ast.If):
            test = ast.unparse(st.test)
            self.expr_calls(st.test, conds)
            self.stmts(st.body, conds + [test])
            if st.orelse:
                self.stmts(st.orelse, conds + [f"not ({test})"])
        elif isinstance(st, ast.Raise):
            exc = st.exc
            name = ast.unparse(exc.func) if isinstance(exc, ast.Call) else (ast.unparse(exc) if exc else "re-raise")
            self.events.append(dict(kind="raise", exc=name, under=list(conds)))
        elif isinstance(st, (ast.For, ast.While)):
            self.expr_calls(st.iter if isinstance(st, ast.For) else st.test, conds)
            self.stmts(st.body, conds + ["loop"])
            self.stmts(st.orelse, conds)
        elif isinstance(st, ast.With):
            for it in st.items:
                self.expr_calls(it.context_expr, conds)
            self.stmts(st.body, conds)
        elif isinstance(st, ast.Try):
            self.stmts(st.body, conds + ["try"])
            for h in st.handlers:
                self.stmts(h.body, conds + [f"except {ast.unparse(h.type) if h.type else ''}"])
            self.stmts(st.orelse, conds)
            self.stmts(st.finalbody, conds)
        elif isinstance(st, (ast.FunctionDef, ast.ClassDef)):
            self.stmts(st.body, conds + [f"def {st.name}"])          # nested helper (closures of the plot functions)
        elif isinstance(st, (ast.Assign, ast.AnnAssign, ast.AugAssign)):
            if getattr(st, "value", None) is not None:
                self.expr_calls(st.value, conds)
            targets = st.targets if isinstance(st, ast.Assign) else [st.target]
            for t in targets:
                for n in ast.walk(t):
                    if isinstance(n, ast.Name) and n.id in WATCHED_NAMES or (
                            isinstance(n, ast.Attribute) and n.attr in ("level", "_functional", "functional")):
                        val = ast.unparse(st.value) if getattr(st, "value", None) is not None else ""
                        self.events.append(dict(kind="assign", target=ast.unparse(t), value=val, under=list(conds)))
                        break
        elif isinstance(st, ast.Return):
            if st.value is not None:
                self.expr_calls(st.value, conds)
            # a return inside a branch ends the function there: it guards what follows
            if conds:
                self.events.append(dict(kind="return", under=list(conds)))
        elif isinstance(st, ast.Expr):
            self.expr_calls(st.value, conds)


def extract(repo):
    out, missing = {}, []
    trees = {}
    for rel, qn in TARGETS:
        path = os.path.join(repo, SRC, rel)
        if rel not in trees:
            try:
                trees[rel] = ast.parse(open(path).read())
            except (OSError, SyntaxError) as ex:
                trees[rel] = None
                missing.append(f"{rel}: {ex}")
        if trees[rel] is None:
            continue
        fn = find(trees[rel], qn)
        if fn is None:
            missing.append(f"{rel}::{qn} not found")
            continue
        w = Walker()
        body = fn.body
        if body and isinstance(body[0], ast.Expr) and isinstance(getattr(body[0], "value", None), ast.Constant) \
                and isinstance(body[0].value.value, str):
            body = body[1:]                                           # docstring
        w.stmts(body, [])
        out[f"{rel}::{qn}"] = w.events
    return out, missing


def diff(expected, got):
    d = []
    for k in sorted(set(expected) | set(got)):
        a, b = expected.get(k), got.get(k)
        if a == b:
            continue
        if a is None or b is None:
            d.append(dict(function=k, change="function missing" if b is None else "function new"))
            continue
        i = 0
        while i < min(len(a), len(b)) and a[i] == b[i]:
            i += 1
        d.append(dict(function=k, first_difference_at_event=i, expected=a[i] if i < len(a) else None,
                      found=b[i] if i < len(b) else None, n_expected=len(a), n_found=len(b)))
    return d


def main():
    args = [a for a in sys.argv[1:] if not a.startswith("--")]
    repo = args[0] if args else os.environ.get("VERIF_REPO", "/repo")
    here = os.path.dirname(os.path.dirname(os.path.abspath(__file__)))
    outp = args[1] if len(args) > 1 else os.path.join(here, "build", "guards.json")
    expp = args[2] if len(args) > 2 else os.path.join(here, "skeleton", "guards.expected.json")
    got, missing = extract(repo)
    os.makedirs(os.path.dirname(outp), exist_ok=True)
    json.dump(got, open(outp + ".tmp%d" % os.getpid(), "w"), indent=1, sort_keys=True)
    os.replace(outp + ".tmp%d" % os.getpid(), outp)
    nev = sum(len(v) for v in got.values())
    if "--write-expected" in sys.argv:
        json.dump(got, open(expp, "w"), indent=1, sort_keys=True)
        print(json.dumps(dict(status="written", functions=len(got), events=nev, missing=missing)))
        return 0
    try:
        expected = json.load(open(expp))
    except OSError as ex:
        print(json.dumps(dict(status="changed", functions=len(got), events=nev, diff=[f"no expected list: {ex}"])))
        return 1
    d = diff(expected, got)
    ok = not d and not missing
    print(json.dumps(dict(status="ok" if ok else "changed", functions=len(got), events=nev, missing=missing, diff=d)))
    return 0 if ok else 1


if __name__ == "__main__":
    sys.exit(main())
