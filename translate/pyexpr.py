"""Fail-closed translator from the Python text of the closed-form functions of
model-diagnostics (scoring.py, identification.py) to

  * Gallina over Coq's reals (gen/Gen_ident.v, gen/Gen_scoring.v), and
  * a plain Python closure with the *same* reading of the numpy vocabulary
    (translate/numpy_sem.py), used to validate the translator against the real
    implementation on every run.

Both outputs are printed from one intermediate representation (IR), so the
round-trip test exercises the reading that the Coq text is printed from.

Anything outside the supported vocabulary raises Unsupported: the model is then
not regenerated and the run counts as a broken obligation, never as a pass.

IR (nested tuples)
  real exprs : ('num', Fraction) ('var', name) ('bin', op, a, b) ('neg', a)
               ('prim', name, args...)           name in PRIMS
  bool exprs : ('cmp', op, a, b) ('and', a, b) ('or', a, b) ('not', a)
               ('feq', fexpr, 'Fmean')           functional equality
               ('anyflag', k)                    np.any(...) over the sample
  functional : ('fvar', name) ('fconst', 'Fmean')
  statements (continuation already inlined):
               ('let', name, expr, body) ('if', bexpr, then, else) ('raise',)
               ('ret', expr) ('retf', fexpr)
               ('bind', name, (fname, [args]), body)   call of a generated
                                                       result-valued function
"""
import ast
from fractions import Fraction


class Unsupported(Exception):
    pass


COQ_KEYWORDS = {
    "as", "at", "cofix", "else", "end", "exists", "exists2", "fix", "for", "forall",
    "fun", "if", "IF", "in", "let", "match", "mod", "Prop", "return", "Set", "then",
    "Type", "using", "where", "with", "R", "Z", "Q", "nat", "list", "bool", "true", "false",
}

# numpy / scipy calls -> (primitive, arity)
CALLS = {
    ("np", "abs"): ("np_abs", 1),
    ("np", "square"): ("np_square", 1),
    ("np", "sign"): ("np_sign", 1),
    ("np", "log"): ("np_log", 1),
    ("np", "power"): ("np_power", 2),
    ("special", "xlogy"): ("xlogy", 2),
    ("np", "greater_equal"): ("ge_ind", 2),
    ("np", "less_equal"): ("le_ind", 2),
    ("np", "less"): ("lt_ind", 2),
    ("np", "greater"): ("gt_ind", 2),
}
# primitives with a side condition: name -> ok predicate
PARTIAL = {"np_log": "np_log_ok", "xlogy": "xlogy_ok", "np_power": "np_power_ok", "np_div": "np_div_ok"}

FUNCTIONALS = {"mean": "Fmean", "median": "Fmedian", "expectile": "Fexpectile", "quantile": "Fquantile"}


def _num(v):
    if isinstance(v, bool):
        raise Unsupported("bool constant as number")
    if isinstance(v, int):
        return ("num", Fraction(v))
    if isinstance(v, float):
        return ("num", Fraction(str(v)))  # decimal reading: 0.5 is 1/2, 0.1 is 1/10
    raise Unsupported(f"constant {v!r}")


class FunTranslator:
    """Translates one function / method body.

    env maps a Python name to ('R', coqname) | ('F', coqname) | ('skip',).
    selfattrs maps attribute name -> IR expression (for self.<attr>).
    calls maps python callee name -> (generated name, [param kinds]) for
    result-valued generated functions that may be called.
    """

    def __init__(self, name, params, selfattrs=None, calls=None, array_pairs=True):
        self.name = name
        self.env = dict(params)
        self.selfattrs = dict(selfattrs or {})
        self.calls = dict(calls or {})
        self.anyflags = []  # list of IR bool exprs (per-observation conditions of np.any)
        self.binds = []  # pending result binds while translating an expression
        self.nbind = 0

    # ---------------------------------------------------------------- exprs
    def fexpr(self, n):
        if isinstance(n, ast.Constant) and isinstance(n.value, str):
            return ("fconst", FUNCTIONALS.get(n.value, "Fother"))
        if isinstance(n, ast.Name) and self.env.get(n.id, (None,))[0] == "F":
            return ("fvar", self.env[n.id][1])
        if isinstance(n, ast.Attribute) and isinstance(n.value, ast.Name) and n.value.id == "self":
            v = self.selfattrs.get(n.attr)
            if v is not None and v[0] in ("fvar", "fconst", "fcall"):
                return v
        raise Unsupported(f"{self.name}: functional expression {ast.dump(n)}")

    def is_fexpr(self, n):
        try:
            self.fexpr(n)
            return True
        except Unsupported:
            return False

    def rexpr(self, n):
        if isinstance(n, ast.Constant):
            return _num(n.value)
        if isinstance(n, ast.Name):
            k = self.env.get(n.id)
            if k is None or k[0] != "R":
                raise Unsupported(f"{self.name}: unknown real variable {n.id}")
            return ("var", k[1])
        if isinstance(n, ast.Attribute):
            if isinstance(n.value, ast.Name) and n.value.id == "self":
                v = self.selfattrs.get(n.attr)
                if v is None or v[0] in ("fvar", "fconst", "fcall"):
                    raise Unsupported(f"{self.name}: self.{n.attr}")
                return v
            raise Unsupported(f"{self.name}: attribute {ast.dump(n)}")
        if isinstance(n, ast.UnaryOp) and isinstance(n.op, ast.USub):
            return ("neg", self.rexpr(n.operand))
        if isinstance(n, ast.BinOp):
            ops = {ast.Add: "+", ast.Sub: "-", ast.Mult: "*"}
            if type(n.op) in ops:
                return ("bin", ops[type(n.op)], self.rexpr(n.left), self.rexpr(n.right))
            if isinstance(n.op, ast.Div):
                return ("prim", "np_div", self.rexpr(n.left), self.rexpr(n.right))
            if isinstance(n.op, ast.Mod):
                return ("prim", "np_mod", self.rexpr(n.left), self.rexpr(n.right))
            raise Unsupported(f"{self.name}: operator {type(n.op).__name__}")
        if isinstance(n, ast.Call):
            return self.rcall(n)
        raise Unsupported(f"{self.name}: expression {ast.dump(n)}")

    def rcall(self, n):
        f = n.func
        # x.astype(float) -> x
        if isinstance(f, ast.Attribute) and f.attr == "astype" and len(n.args) == 1 \
                and isinstance(n.args[0], ast.Name) and n.args[0].id == "float" and not n.keywords:
            return self.rexpr(f.value)
        # float(x) -> x
        if isinstance(f, ast.Name) and f.id == "float" and len(n.args) == 1 and not n.keywords:
            return self.rexpr(n.args[0])
        # np.float64(x) -> x  (a strongly typed scalar; over the reals the identity)
        if isinstance(f, ast.Attribute) and isinstance(f.value, ast.Name) and (f.value.id, f.attr) == ("np", "float64") \
                and len(n.args) == 1 and not n.keywords:
            return self.rexpr(n.args[0])
        # np.full(y.shape, fill_value=v) -> v  (per observation)
        if isinstance(f, ast.Attribute) and isinstance(f.value, ast.Name) and (f.value.id, f.attr) == ("np", "full"):
            if len(n.args) == 1 and len(n.keywords) == 1 and n.keywords[0].arg == "fill_value" \
                    and isinstance(n.args[0], ast.Attribute) and n.args[0].attr == "shape":
                return self.rexpr(n.keywords[0].value)
            raise Unsupported(f"{self.name}: np.full form")
        if isinstance(f, ast.Attribute) and isinstance(f.value, ast.Name):
            key = (f.value.id, f.attr)
            if key in CALLS:
                prim, ar = CALLS[key]
                if n.keywords or len(n.args) != ar:
                    raise Unsupported(f"{self.name}: arity of {key}")
                return ("prim", prim) + tuple(self.rexpr(a) for a in n.args)
        # call of another generated, result-valued function (keyword arguments only)
        if isinstance(f, ast.Name) and f.id in self.calls:
            gname, order = self.calls[f.id]
            if n.args:
                raise Unsupported(f"{self.name}: positional call of {f.id}")
            kw = {k.arg: k.value for k in n.keywords}
            if set(kw) != {o[0] for o in order}:
                raise Unsupported(f"{self.name}: keywords of {f.id}: {sorted(kw)}")
            args = []
            for pname, kind in order:
                args.append(self.fexpr(kw[pname]) if kind == "F" else self.rexpr(kw[pname]))
            self.nbind += 1
            v = f"r{self.nbind}"
            self.binds.append((v, (gname, args)))
            return ("var", v)
        raise Unsupported(f"{self.name}: call {ast.dump(f)}")

    def bexpr(self, n):
        if isinstance(n, ast.BoolOp):
            op = "and" if isinstance(n.op, ast.And) else "or"
            vals = [self.bexpr(v) for v in n.values]
            out = vals[0]
            for v in vals[1:]:
                out = (op, out, v)
            return out
        if isinstance(n, ast.BinOp) and isinstance(n.op, (ast.BitAnd, ast.BitOr)):
            return ("and" if isinstance(n.op, ast.BitAnd) else "or", self.bexpr(n.left), self.bexpr(n.right))
        if isinstance(n, ast.UnaryOp) and isinstance(n.op, ast.Not):
            return ("not", self.bexpr(n.operand))
        if isinstance(n, ast.Compare):
            if len(n.ops) != 1:
                raise Unsupported(f"{self.name}: chained comparison")
            op, l, r = n.ops[0], n.left, n.comparators[0]
            if isinstance(op, ast.In):
                if not isinstance(r, ast.Tuple):
                    raise Unsupported(f"{self.name}: 'in' over a non-tuple")
                fe = self.fexpr(l)
                out = None
                for el in r.elts:
                    t = ("feq", fe, self.fexpr(el)[1])
                    out = t if out is None else ("or", out, t)
                return out
            if isinstance(op, ast.Eq) and (self.is_fexpr(l) and isinstance(r, ast.Constant) and isinstance(r.value, str)):
                return ("feq", self.fexpr(l), self.fexpr(r)[1])
            ops = {ast.Eq: "==", ast.LtE: "<=", ast.Lt: "<", ast.GtE: ">=", ast.Gt: ">"}
            if type(op) not in ops:
                raise Unsupported(f"{self.name}: comparison {type(op).__name__}")
            return ("cmp", ops[type(op)], self.rexpr(l), self.rexpr(r))
        if isinstance(n, ast.Call) and isinstance(n.func, ast.Attribute) and isinstance(n.func.value, ast.Name) \
                and n.func.value.id == "np" and len(n.args) == 1 and not n.keywords:
            if n.func.attr == "all":
                # the guard is evaluated per observation; the vector call raises iff
                # some observation fails it (lifting: lib/NumpyR.v lift2)
                return self.bexpr(n.args[0])
            if n.func.attr == "any":
                self.anyflags.append(self.bexpr(n.args[0]))
                return ("anyflag", len(self.anyflags))
        raise Unsupported(f"{self.name}: boolean expression {ast.dump(n)}")

    # ----------------------------------------------------------- statements
    def wrap(self, mk):
        """Translate with `mk` (which may enqueue result binds) and wrap them."""
        saved, self.binds = self.binds, []
        body = mk()
        for v, call in reversed(self.binds):
            body = ("bind", v, call, body)
        self.binds = saved
        return body

    def stmts(self, ss):
        if not ss:
            raise Unsupported(f"{self.name}: control reaches the end without return")
        s, rest = ss[0], ss[1:]
        if isinstance(s, ast.Expr) and isinstance(s.value, ast.Constant) and isinstance(s.value.value, str):
            return self.stmts(rest)  # docstring
        if isinstance(s, ast.AnnAssign) and s.value is None:
            return self.stmts(rest)
        if isinstance(s, ast.Assign) and len(s.targets) == 1:
            t, v = s.targets[0], s.value
            # y, z = validate_2_arrays(a, b): element-wise views of the two inputs
            if isinstance(t, ast.Tuple) and isinstance(v, ast.Call) and isinstance(v.func, ast.Name) \
                    and v.func.id == "validate_2_arrays" and len(v.args) == 2 and not v.keywords \
                    and len(t.elts) == 2 and all(isinstance(e, ast.Name) for e in t.elts):
                for e, a in zip(t.elts, v.args):
                    if not isinstance(a, ast.Name) or self.env.get(a.id, (None,))[0] != "R":
                        raise Unsupported(f"{self.name}: validate_2_arrays argument")
                    self.env[e.id] = self.env[a.id]
                return self.stmts(rest)
            if isinstance(t, ast.Name):
                # message strings and tuples of strings carry no semantics
                if isinstance(v, ast.JoinedStr) or (isinstance(v, ast.Constant) and isinstance(v.value, str)) \
                        or (isinstance(v, ast.Tuple) and all(isinstance(e, ast.Constant) and isinstance(e.value, str) for e in v.elts)):
                    self.env[t.id] = ("skip",)
                    return self.stmts(rest)
                return self.let(t.id, v, rest)
            raise Unsupported(f"{self.name}: assignment target {ast.dump(t)}")
        if isinstance(s, ast.AugAssign) and isinstance(s.target, ast.Name):
            v = ast.BinOp(left=ast.Name(id=s.target.id, ctx=ast.Load()), op=s.op, right=s.value)
            return self.let(s.target.id, v, rest)
        if isinstance(s, ast.If):
            def mk():
                c = self.bexpr(s.test)
                env0 = dict(self.env)
                a = self.stmts(list(s.body) + rest)
                self.env = dict(env0)
                b = self.stmts(list(s.orelse) + rest)
                self.env = env0
                return ("if", c, a, b)
            return self.wrap(mk)
        if isinstance(s, ast.Raise):
            e = s.exc
            if isinstance(e, ast.Call) and isinstance(e.func, ast.Name) and e.func.id == "ValueError":
                return ("raise",)
            raise Unsupported(f"{self.name}: raise {ast.dump(e)}")
        if isinstance(s, ast.Return):
            if s.value is None:
                raise Unsupported(f"{self.name}: bare return")
            if self.is_fexpr(s.value):
                return ("retf", self.fexpr(s.value))
            return self.wrap(lambda: ("ret", self.rexpr(s.value)))
        raise Unsupported(f"{self.name}: statement {type(s).__name__}")

    def let(self, name, v, rest):
        if name in COQ_KEYWORDS:
            raise Unsupported(f"{self.name}: local name {name} is a Coq keyword")

        def mk():
            e = self.rexpr(v)
            self.env[name] = ("R", name)
            return ("let", name, e, self.stmts(rest))
        return self.wrap(mk)


# ------------------------------------------------------------------ printers
def coq_num(q):
    if q.denominator == 1:
        return str(q.numerator) if q.numerator >= 0 else f"(- {-q.numerator})"
    s = f"({abs(q.numerator)} / {q.denominator})"
    return s if q >= 0 else f"(- {s})"


def coq_r(e):
    k = e[0]
    if k == "num":
        return coq_num(e[1])
    if k == "var":
        return e[1]
    if k == "neg":
        return f"(- {coq_r(e[1])})"
    if k == "bin":
        return f"({coq_r(e[2])} {e[1]} {coq_r(e[3])})"
    if k == "prim":
        return "(" + " ".join([e[1]] + [coq_r(a) for a in e[2:]]) + ")"
    raise Unsupported(f"coq_r {e!r}")


def coq_f(e):
    if e[0] == "fvar":
        return e[1]
    if e[0] == "fconst":
        return e[1]
    if e[0] == "fcall":
        return "(" + " ".join([e[1]] + e[2]) + ")"
    raise Unsupported(f"coq_f {e!r}")


def coq_b(e):
    k = e[0]
    if k == "cmp":
        a, b = coq_r(e[2]), coq_r(e[3])
        return {"==": f"(Reqb {a} {b})", "<=": f"(Rleb {a} {b})", "<": f"(Rltb {a} {b})",
                ">=": f"(Rleb {b} {a})", ">": f"(Rltb {b} {a})"}[e[1]]
    if k == "and":
        return f"({coq_b(e[1])} && {coq_b(e[2])})"
    if k == "or":
        return f"({coq_b(e[1])} || {coq_b(e[2])})"
    if k == "not":
        return f"(negb {coq_b(e[1])})"
    if k == "feq":
        return f"(fun_eqb {coq_f(e[1])} {e[2]})"
    if k == "anyflag":
        return f"any{e[1]}"
    raise Unsupported(f"coq_b {e!r}")


def coq_s(s, ind, rtype):
    p = "  " * ind
    k = s[0]
    if k == "let":
        return f"{p}let {s[1]} := {coq_r(s[2])} in\n" + coq_s(s[3], ind, rtype)
    if k == "if":
        return (f"{p}if {coq_b(s[1])} then\n" + coq_s(s[2], ind + 1, rtype) + f"\n{p}else\n" + coq_s(s[3], ind + 1, rtype))
    if k == "raise":
        return f"{p}ValueErr"
    if k == "ret":
        return f"{p}Ok {coq_r(s[1])}"
    if k == "retf":
        return f"{p}{coq_f(s[1])}" if rtype == "F" else f"{p}Ok {coq_f(s[1])}"
    if k == "bind":
        args = " ".join(coq_f(a) if a[0] in ("fvar", "fconst", "fcall") else coq_r(a) for a in s[2][1])
        return f"{p}rbind ({s[2][0]} {args}) (fun {s[1]} =>\n" + coq_s(s[3], ind + 1, rtype) + ")"
    raise Unsupported(f"coq_s {s!r}")


# ok-predicates: conjunction of the side conditions of every partial primitive
def ok_r(e, acc):
    k = e[0]
    if k in ("num", "var"):
        return
    if k == "neg":
        ok_r(e[1], acc)
    elif k == "bin":
        ok_r(e[2], acc), ok_r(e[3], acc)
    elif k == "prim":
        for a in e[2:]:
            ok_r(a, acc)
        if e[1] in PARTIAL:
            acc.append("(" + " ".join([PARTIAL[e[1]]] + [coq_r(a) for a in e[2:]]) + ")")
    else:
        raise Unsupported(f"ok_r {e!r}")


def ok_b(e, acc):
    k = e[0]
    if k == "cmp":
        ok_r(e[2], acc), ok_r(e[3], acc)
    elif k in ("and", "or"):
        ok_b(e[1], acc), ok_b(e[2], acc)
    elif k == "not":
        ok_b(e[1], acc)


def conj(cs, tail=None):
    cs = list(cs) + ([tail] if tail else [])
    return " /\\ ".join(cs) if cs else "True"


def ok_s(s, ind):
    p = "  " * ind
    k = s[0]
    if k == "let":
        acc = []
        ok_r(s[2], acc)
        inner = f"let {s[1]} := {coq_r(s[2])} in\n" + ok_s(s[3], ind)
        return f"{p}(" + conj(acc, f"({inner})") + ")"
    if k == "if":
        acc = []
        ok_b(s[1], acc)
        inner = f"if {coq_b(s[1])} then\n" + ok_s(s[2], ind + 1) + f"\n{p}else\n" + ok_s(s[3], ind + 1)
        return f"{p}(" + conj(acc, f"({inner})") + ")"
    if k in ("raise", "retf"):
        return f"{p}True"
    if k == "ret":
        acc = []
        ok_r(s[1], acc)
        return f"{p}(" + conj(acc) + ")"
    if k == "bind":
        # the callee's own ok-predicate is a separate obligation; here: continue
        args = " ".join(coq_f(a) if a[0] in ("fvar", "fconst", "fcall") else coq_r(a) for a in s[2][1])
        return (f"{p}(match {s[2][0]} {args} with Ok {s[1]} =>\n" + ok_s(s[3], ind + 1) + f"\n{p}| ValueErr => True end)")
    raise Unsupported(f"ok_s {s!r}")


# Python printer (for the round trip): uses translate/numpy_sem.py
def py_r(e):
    k = e[0]
    if k == "num":
        q = e[1]
        return f"({q.numerator}/{q.denominator})" if q.denominator != 1 else f"({q.numerator}.0)"
    if k == "var":
        return e[1]
    if k == "neg":
        return f"(-{py_r(e[1])})"
    if k == "bin":
        return f"({py_r(e[2])} {e[1]} {py_r(e[3])})"
    if k == "prim":
        return f"S.{e[1]}(" + ", ".join(py_r(a) for a in e[2:]) + ")"
    raise Unsupported(f"py_r {e!r}")


def py_f(e):
    if e[0] == "fvar":
        return e[1]
    if e[0] == "fconst":
        return repr(e[1])
    if e[0] == "fcall":
        return f"{e[1]}(" + ", ".join(e[2]) + ")"
    raise Unsupported(f"py_f {e!r}")


def py_b(e):
    k = e[0]
    if k == "cmp":
        return f"({py_r(e[2])} {e[1]} {py_r(e[3])})"
    if k in ("and", "or"):
        return f"({py_b(e[1])} {k} {py_b(e[2])})"
    if k == "not":
        return f"(not {py_b(e[1])})"
    if k == "feq":
        return f"({py_f(e[1])} == {e[2]!r})"
    if k == "anyflag":
        return f"any{e[1]}"
    raise Unsupported(f"py_b {e!r}")


def py_s(s, ind):
    p = "    " * ind
    k = s[0]
    if k == "let":
        return f"{p}{s[1]} = {py_r(s[2])}\n" + py_s(s[3], ind)
    if k == "if":
        return f"{p}if {py_b(s[1])}:\n" + py_s(s[2], ind + 1) + f"\n{p}else:\n" + py_s(s[3], ind + 1)
    if k == "raise":
        return f"{p}raise S.ValueErr()"
    if k == "ret":
        return f"{p}return {py_r(s[1])}"
    if k == "retf":
        return f"{p}return {py_f(s[1])}"
    if k == "bind":
        args = ", ".join(py_f(a) if a[0] in ("fvar", "fconst", "fcall") else py_r(a) for a in s[2][1])
        return f"{p}{s[1]} = {s[2][0]}({args})\n" + py_s(s[3], ind)
    raise Unsupported(f"py_s {s!r}")
