"""Correspondence / judge / search harness for the plot functions (property C19).

  run_plots.py corr   <outdir> <prefix> <seed> <ncases> <nmax>
      generates structured cases from ONE random.Random(seed), calls the REAL
      plot_reliability_diagram / plot_murphy_diagram / plot_bias (matplotlib, Agg backend) with a
      fresh Axes (or ax=None), reads the Line2D / errorbar data back from the returned Axes, writes
      Coq case shards (comparator coq/corr/CmpPlots.v evaluates model/Plots.v on the exact rational
      inputs), writes <outdir>/<prefix>_cases.json and evaluates the property statement on every
      case (-> property_failures).  Last stdout line: one JSON object.
  run_plots.py judge  <cases.json>
      re-runs the listed case dicts and evaluates the PROPERTY's own statement exactly (Fractions,
      brute-force isotonic fit, exact average elementary scores, the compute_bias table).
  run_plots.py search <seed> <budget>
      directed search (small exhaustive spaces first, then seeded random) for an input violating
      the property statement.

A case dict (JSON-able):
  kind        "rel" | "murphy" | "bias" | "marginal"
  y, models   observations, list of prediction columns
  names       column names as the code sees them ("" for an unnamed 1-d array, "0","1",.. for ndarray)
  container   "np" | "pl"      two_d: y_pred is handed over two-dimensional
  w           None | weights   functional, level
  ax_mode     "given" | "none" (ax=None -> plt.gca())      cfg_mode "default" | "context"
  rel:        diagram_type            murphy: etas (int | list)
  bias:       feat (None | run_binning feature dict), confidence_level
  malformed   optional tag of the malformed stream
"""
import itertools
import json
import math
import os
import random
import sys
import warnings
from fractions import Fraction

warnings.filterwarnings("ignore")

import matplotlib

matplotlib.use("Agg")
import matplotlib.pyplot as plt
import numpy as np
import polars as pl
from matplotlib.collections import LineCollection, PolyCollection
from matplotlib.container import ErrorbarContainer
from matplotlib.figure import Figure
from scipy import special

import iso
import judge as J
import run_bias as RB
import run_binning as rb
import run_isofit as RI
from common import qlit, qlist, shard, write_case_file

SHARD = 400
FUN_COQ = {"mean": "FMean", "median": "FMedian", "expectile": "FExpectile", "quantile": "FQuantile"}
NAME_POOL = ["zeta", "alpha", "m", "model_3", "model_1", "B", "a b", "x"]
F = Fraction


# ------------------------------------------------------------------ building the arguments
def build_pred(d):
    cols = [np.asarray(c, dtype=float) for c in d["models"]]
    if d["container"] == "pl":
        if d["two_d"]:
            return pl.DataFrame({nm: c for nm, c in zip(d["names"], cols)})
        return pl.Series(name=d["names"][0], values=cols[0])
    if d["two_d"]:
        return np.array(cols, dtype=float).T.reshape(len(d["y"]), len(cols))
    return cols[0]


def code_names(container, two_d, k, rng):
    """the names get_sorted_array_names will see"""
    if container == "pl":
        pool = NAME_POOL + ["m%02d" % i for i in range(max(0, k - len(NAME_POOL)))]   # k > 8 happens with large nmax
        nm = rng.sample(pool, k)
        if k >= 2 and nm == sorted(nm):
            nm[0], nm[-1] = nm[-1], nm[0]          # never alphabetical
        return nm
    if two_d:
        return [str(i) for i in range(k)]
    return [""]


class Call:
    """one call of a plot function with a fresh Axes; records the axes / config observations"""

    def __init__(self, d):
        self.d = d

    def run(self, fn, *args, **kw):
        from model_diagnostics import config_context, get_config
        d = self.d
        plt.close("all")
        before = dict(get_config())
        self.exc = None
        self.ret = None
        self.inner_unchanged = True
        if d.get("ax_mode", "given") == "given":
            self.fig = Figure()
            self.ax = self.fig.add_subplot()
            kw["ax"] = self.ax
        else:
            self.fig = plt.figure()
            self.ax = None
        try:
            with np.errstate(all="ignore"):
                if d.get("cfg_mode", "default") == "context":
                    with config_context(plot_backend="matplotlib"):
                        inner = dict(get_config())
                        self.ret = fn(*args, **kw)
                        self.inner_unchanged = dict(get_config()) == inner
                else:
                    self.inner_unchanged = True
                    self.ret = fn(*args, **kw)
        except Exception as e:  # noqa: BLE001
            self.exc = e
        self.config_unchanged = dict(get_config()) == before and self.inner_unchanged
        if self.exc is None:
            if self.ax is not None:
                self.returned_is_ax = self.ret is self.ax
            else:
                # ax=None: the current Axes of the current (fresh, empty) figure
                self.returned_is_ax = isinstance(self.ret, matplotlib.axes.Axes) and len(self.fig.axes) >= 1 \
                    and self.ret is self.fig.axes[0] and plt.gcf() is self.fig
        return self

    def close(self):
        plt.close("all")
        self.fig = None


def exc_name(e):
    return type(e).__name__


def xy(line):
    return [[float(a), float(b)] for a, b in np.asarray(line.get_xydata(), dtype=float)]


def lab(s):
    s = None if s is None else str(s)
    return None if s is None or s.startswith("_") else s


def legend_texts(ax):
    lg = ax.get_legend()
    return None if lg is None else [t.get_text() for t in lg.get_texts()]


# ------------------------------------------------------------------ running the three plots
def run_rel(d):
    from model_diagnostics.calibration import plot_reliability_diagram
    y = np.asarray(d["y"], dtype=float)
    w = None if d["w"] is None else np.asarray(d["w"], dtype=float)
    c = Call(d).run(plot_reliability_diagram, y, build_pred(d), w, functional=d["functional"], level=d["level"],
                    diagram_type=d["diagram_type"])
    if c.exc is not None:
        o = dict(status="err", exc=exc_name(c.exc), msg=str(c.exc)[:120], config_unchanged=c.config_unchanged)
        c.close()
        return o
    ax = c.ret
    lines = list(ax.get_lines())
    dotted = [l for l in lines if l.get_linestyle() == ":"]
    solid = [l for l in lines if l.get_linestyle() != ":"]
    if d["diagram_type"] == "reliability":
        ref = xy(dotted[0]) if len(dotted) == 1 else []
    else:
        segs = [s for col in ax.collections if isinstance(col, LineCollection) for s in col.get_segments()]
        ref = [[float(a), float(b)] for a, b in segs[0]] if len(segs) == 1 and not dotted else []
    o = dict(status="ok", ref=ref, curves=[xy(l) for l in solid], labels=[lab(l.get_label()) for l in solid],
             legend=legend_texts(ax), title=ax.get_title(), returned_is_ax=c.returned_is_ax,
             config_unchanged=c.config_unchanged)
    c.close()
    return o


def run_murphy(d):
    from model_diagnostics.scoring import plot_murphy_diagram
    y = np.asarray(d["y"], dtype=float)
    w = None if d["w"] is None else np.asarray(d["w"], dtype=float)
    etas = d["etas"] if isinstance(d["etas"], int) else [float(v) for v in d["etas"]]
    c = Call(d).run(plot_murphy_diagram, y, build_pred(d), w, etas=etas, functional=d["functional"], level=d["level"])
    if c.exc is not None:
        o = dict(status="err", exc=exc_name(c.exc), msg=str(c.exc)[:120], config_unchanged=c.config_unchanged)
        c.close()
        return o
    ax = c.ret
    lines = list(ax.get_lines())
    o = dict(status="ok", curves=[xy(l) for l in lines], labels=[lab(l.get_label()) for l in lines],
             legend=legend_texts(ax), title=ax.get_title(), returned_is_ax=c.returned_is_ax,
             config_unchanged=c.config_unchanged)
    c.close()
    return o


def bias_args(d):
    y = np.asarray(d["y"], dtype=float)
    w = None if d["w"] is None else np.asarray(d["w"], dtype=float)
    kw = dict(functional=d["functional"], level=d["level"])
    feature = None
    if d["feat"] is not None:
        feature = rb.build_feature(d["feat"])
        kw.update(n_bins=d["feat"]["n_bins"], bin_method=d["feat"]["method"])
    return y, build_pred(d), feature, w, kw


def bias_table(d):
    """compute_bias on the same data -> per model (rows in frame order) of dict(null, mean, count, stderr)"""
    from model_diagnostics.calibration import compute_bias
    y, z, feature, w, kw = bias_args(d)
    df = compute_bias(y_obs=y, y_pred=z, feature=feature, weights=w, **kw)
    fcol = [c for c in df.columns if c not in ("model", "model_", "bias_mean", "bias_count", "bias_weights",
                                               "bias_stderr", "p_value")]
    mcol = "model_" if "model_" in df.columns else ("model" if "model" in df.columns else None)
    rows = df.to_dicts()
    tabs = []
    if mcol is None:
        tabs.append(rows)
    else:
        order = []
        for r in rows:
            if r[mcol] not in order:
                order.append(r[mcol])
        tabs = [[r for r in rows if r[mcol] == m] for m in order]
    out = []
    for tab in tabs:
        out.append([dict(null=(bool(fcol) and r[fcol[0]] is None), mean=float(r["bias_mean"]), count=int(r["bias_count"]),
                         stderr=float(r["bias_stderr"])) for r in tab])
    return out


def parse_band(coll):
    """fill_between polygon(s) -> list of (x, lower, upper)"""
    pts = []
    for path in coll.get_paths():
        v = np.asarray(path.vertices, dtype=float)
        m = (len(v) - 3) // 2
        if m < 1 or len(v) != 2 * m + 3:
            return None
        lower = v[1:m + 1]
        upper = v[m + 2:2 * m + 2][::-1]
        if not np.array_equal(lower[:, 0], upper[:, 0]):
            return None
        pts += [(float(a), float(b), float(c)) for a, b, c in zip(lower[:, 0], lower[:, 1], upper[:, 1])]
    return pts


def run_bias(d):
    from model_diagnostics.calibration import plot_bias
    y, z, feature, w, kw = bias_args(d)
    cl = d.get("confidence_level", 0.9)
    c = Call(d).run(plot_bias, y, z, feature, w, confidence_level=cl, **kw)
    if c.exc is not None:
        o = dict(status="err", exc=exc_name(c.exc), msg=str(c.exc)[:120], config_unchanged=c.config_unchanged)
        c.close()
        return o
    ax = c.ret
    conts = [k for k in ax.containers if isinstance(k, ErrorbarContainer)]
    in_cont = set()
    for k in conts:
        in_cont.add(id(k.lines[0]))
        for capl in k.lines[1]:
            in_cont.add(id(capl))
    free = [l for l in ax.get_lines() if id(l) not in in_cont and l.get_marker() == "o"]
    ocont = [k for k in conts if k.lines[0].get_marker() == "o"]
    dcont = [k for k in conts if k.lines[0].get_marker() == "D"]
    bands = [k for k in ax.collections if isinstance(k, PolyCollection)]

    def cont_points(k):
        ys = [float(v) for v in k.lines[0].get_ydata()]
        errs = [None] * len(ys)
        if k.has_yerr and k.lines[2]:
            segs = k.lines[2][0].get_segments()
            if len(segs) == len(ys):
                errs = [float(s[1][1] - s[0][1]) / 2 for s in segs]
        return ys, errs

    series = []
    err_read = True
    if free:        # numerical feature: one solid line with markers per model
        has_null = len(dcont) > 0
        for i, l in enumerate(free):
            pts = xy(l)
            if has_null:
                pts = pts[1:]          # the null row comes first in the frame and has x = NaN
            ys = [p[1] for p in pts]
            errs = [None] * len(ys)
            if cl > 0:
                band = parse_band(bands[i]) if i < len(bands) else None
                if band is not None and len(band) == len(ys):
                    errs = [(b[2] - b[1]) / 2 for b in band]
                else:
                    err_read = False
            nul = None
            if has_null and i < len(dcont):
                ny, ne = cont_points(dcont[i])
                nul = (ny[0], ne[0])
            series.append(dict(main=list(zip(ys, errs)), null=nul, label=lab(l.get_label())))
        mode = "lines"
    else:
        for i, k in enumerate(ocont):
            ys, errs = cont_points(k)
            nul = None
            if i < len(dcont):
                ny, ne = cont_points(dcont[i])
                nul = (ny[0], ne[0])
            series.append(dict(main=list(zip(ys, errs)), null=nul, label=lab(k.get_label())))
        mode = "errorbar"
    # error bars are all-or-nothing per case
    drawn = [e is not None for s in series for _, e in s["main"]] + \
            [s["null"][1] is not None for s in series if s["null"] is not None]
    errbars = bool(cl > 0 and err_read and drawn and all(drawn))
    if not errbars:
        for s in series:
            s["main"] = [(yv, None) for yv, _ in s["main"]]
            if s["null"] is not None:
                s["null"] = (s["null"][0], None)
    o = dict(status="ok", series=series, mode=mode, errbars=errbars, err_expected=bool(cl > 0),
             n_extra=len(dcont) - (len(series) if dcont else 0),
             legend=legend_texts(ax), title=ax.get_title(), xticks=[t.get_text() for t in ax.get_xticklabels()],
             returned_is_ax=c.returned_is_ax, config_unchanged=c.config_unchanged)
    c.close()
    return o


def run_marginal(d):
    """only the axes / config clause is looked at for plot_marginal"""
    from model_diagnostics.calibration import plot_marginal
    y = np.asarray(d["y"], dtype=float)
    z = np.asarray(d["models"][0], dtype=float)
    X = np.array([d["x0"], d["models"][0]], dtype=float).T
    w = None if d["w"] is None else np.asarray(d["w"], dtype=float)
    c = Call(d).run(plot_marginal, y, z, X, 0, weights=w, n_bins=3, bin_method="uniform")
    if c.exc is not None:
        o = dict(status="err", exc=exc_name(c.exc), msg=str(c.exc)[:120], config_unchanged=c.config_unchanged)
    else:
        o = dict(status="ok", returned_is_ax=c.returned_is_ax, config_unchanged=c.config_unchanged,
                 nlines=len(c.ret.get_lines()))
    c.close()
    return o


def run_impl(d):
    return {"rel": run_rel, "murphy": run_murphy, "bias": run_bias, "marginal": run_marginal}[d["kind"]](d)


# ------------------------------------------------------------------ Coq encoding
def b(v):
    return "true" if v else "false"


def optq_list(w):
    return "None" if w is None else f"(Some {qlist(w)})"


def pts_lit(ps):
    return "[" + "; ".join(f"({qlit(p[0])}, {qlit(p[1])})" for p in ps) + "]"


def labels_lit(ls):
    return "[" + "; ".join("None" if s is None else f"Some {rb.slit(s)}" for s in ls) + "]"


def names_lit(ns):
    return "[" + "; ".join(rb.slit(s) for s in ns) + "]"


def finite_pts(curves):
    return all(math.isfinite(v) for c in curves for p in c for v in p)


def level_q(d):
    return qlit(iso.level_fraction(d["level"]))


REL_ERR = {"ShapeError": "RShapeError", "ValueError": "RValueError", "NotImplementedError": "RNotImplemented",
           "IndexError": "RIndexError"}
MUR_ERR = {"ValueError": "MEValue", "TypeError": "METype", "ZeroDivisionError": "MEZeroDiv"}
BP_ERR = {"TypeError": "BPETypeError", "ValueError": "BPEValueError", "InvalidOperationError": "BPEInvalidOp"}


def coq_case(d, o):
    models = "[" + "; ".join(qlist(m) for m in d["models"]) + "]"
    if d["kind"] == "rel":
        if o["status"] == "ok" and finite_pts(o["curves"] + [o["ref"]]):
            obs = f"(RObs {pts_lit(o['ref'])} [{'; '.join(pts_lit(c) for c in o['curves'])}] {labels_lit(o['labels'])})"
        elif o["status"] == "ok":
            obs = "ROther"
        else:
            obs = REL_ERR.get(o["exc"], "ROther")
        dt = "Reliability" if d["diagram_type"] == "reliability" else "BiasDiagram"
        return (f"CRel (mkrel {dt} {FUN_COQ[d['functional']]} {level_q(d)} {qlist(d['y'])} {optq_list(d['w'])} "
                f"{models} {names_lit(d['names'])} {obs})")
    if d["kind"] == "murphy":
        if o["status"] == "ok" and finite_pts(o["curves"]):
            obs = f"(MObs [{'; '.join(pts_lit(c) for c in o['curves'])}] {labels_lit(o['labels'])})"
        elif o["status"] == "ok":
            obs = "MEOther"
        else:
            obs = MUR_ERR.get(o["exc"], "MEOther")
        spec = f"(EtaCount {d['etas']}%nat)" if isinstance(d["etas"], int) else f"(EtaList {qlist(d['etas'])})"
        return (f"CMur (mkmur {FUN_COQ[d['functional']]} {level_q(d)} {qlist(d['y'])} {optq_list(d['w'])} "
                f"{models} {names_lit(d['names'])} {spec} {obs})")
    if d["kind"] == "bias":
        errbars = False
        if o["status"] == "ok":
            errbars = o["errbars"]
            cl = d.get("confidence_level", 0.9)
            tabs = d["_table"]
            ser = []
            ok = True
            flat = [r for t in tabs for r in t] if d["feat"] is None else None
            for i, s in enumerate(o["series"]):
                rows = flat if flat is not None else (tabs[i] if i < len(tabs) else [])
                main_rows = [r for r in rows if not r["null"]]
                null_rows = [r for r in rows if r["null"]]

                def pt(yv, e, r):
                    cnt = r["count"] if r is not None else 0
                    t = float(special.stdtrit(max(cnt - 1, 1), 1 - (1 - cl) / 2)) if cl > 0 else 0.0
                    return (f"mkpt {qlit(yv)} {cnt}%nat {'None' if e is None else '(Some ' + qlit(e) + ')'} {qlit(t)}")
                if any(not math.isfinite(yv) or (e is not None and not math.isfinite(e)) for yv, e in s["main"]):
                    ok = False
                    break
                mains = [pt(yv, e, main_rows[k] if k < len(main_rows) else None) for k, (yv, e) in enumerate(s["main"])]
                if s["null"] is None:
                    nul = "None"
                elif not math.isfinite(s["null"][0]):
                    ok = False
                    break
                else:
                    nul = "(Some (" + pt(s["null"][0], s["null"][1], null_rows[0] if null_rows else None) + "))"
                ser.append(f"mkos [{'; '.join(mains)}] {nul} {'None' if s['label'] is None else '(Some ' + rb.slit(s['label']) + ')'}")
            obs = "(BPObs [" + "; ".join(ser) + "])" if ok else "BPEOther"
        else:
            obs = BP_ERR.get(o["exc"], "BPEOther")
        nb = d["feat"]["n_bins"] if d["feat"] is not None else 10
        return (f"CBias (mkbp {FUN_COQ[d['functional']]} {qlit(d['level'])} {qlist(d['y'])} {models} {b(d['two_d'])} "
                f"{names_lit(d['names'])} {RB.coq_feat(d['feat'])} {nb}%nat {optq_list(d['w'])} {b(errbars)} {obs})")
    raise ValueError(d["kind"])


# ------------------------------------------------------------------ the property, exactly
def interp_exact(ps, q):
    """numpy.interp semantics on exact vertices (x non-decreasing), constant continuation"""
    q = F(q)
    if q < ps[0][0]:
        return ps[0][1]
    if q > ps[-1][0]:
        return ps[-1][1]
    j = max(i for i in range(len(ps)) if ps[i][0] <= q)
    if j == len(ps) - 1 or ps[j][0] == q:
        return ps[j][1]
    (x0, y0), (x1, y1) = ps[j], ps[j + 1]
    return y0 + (y1 - y0) / (x1 - x0) * (q - x0)


def close(a, c, tol=1e-9):
    return abs(float(a) - float(c)) <= tol * (1 + abs(float(a)))


def elem_exact(fn, a, eta, y, z):
    eta, y, z = F(eta), F(y), F(z)
    ind = F(1 if eta >= y else 0)
    if fn in ("median", "quantile"):
        term = F(int(eta < z)) - F(int(eta < y))
    else:
        term = F(int(eta <= z)) - F(int(eta <= y))
    if fn == "mean":
        v = eta - y
    elif fn == "median":
        v = ind - F(1, 2)
    elif fn == "expectile":
        v = 2 * abs(ind - a) * (eta - y)
    else:
        v = ind - a
    return term * v


def common_clauses(d, o):
    bad = []
    if not o.get("returned_is_ax", True):
        bad.append("returned object is not the Axes that was passed in" if d.get("ax_mode", "given") == "given"
                   else "ax=None: returned object is not the current Axes of the current figure")
    if not o.get("config_unchanged", True):
        bad.append("get_config() changed by the call")
    return bad


def expected_labels(d):
    return list(d["names"]) if (d["two_d"] and len(d["models"]) >= 2) else [None] * len(d["models"])


MALFORMED_EXC = {
    "rel_level": ("ValueError",), "rel_wquantile": ("NotImplementedError",), "rel_wzero": ("ValueError",),
    "rel_len": ("ValueError",), "rel_wlen": ("ValueError",), "mur_level": ("ValueError",), "mur_same": ("ValueError",),
    "mur_wlen": ("TypeError", "ValueError"), "mur_wzero": ("ZeroDivisionError",), "mur_len": ("ValueError",),
    "bias_level": ("ValueError",),
}


def judge_rel(d, o):
    bad = common_clauses(d, o)
    cols = d["models"]
    allp = [F(v) for c in cols for v in c]
    lo, hi = min(allp), max(allp)
    want = [[lo, lo], [hi, hi]] if d["diagram_type"] == "reliability" else [[lo, F(0)], [hi, F(0)]]
    if [[F(v) for v in p] for p in o["ref"]] != want:
        bad.append("reference line does not run from the smallest to the largest prediction")
    if len(o["curves"]) != len(cols):
        bad.append(f"{len(o['curves'])} curves for {len(cols)} prediction columns")
        return bad
    if o["labels"] != expected_labels(d):
        bad.append(f"curve labels {o['labels']} are not the column names in column order")
    if len(cols) >= 2 and o["legend"] != list(d["names"]):
        bad.append(f"legend {o['legend']} is not the column names in column order")
    fn, level = d["functional"], d["level"]
    if fn == "median":
        fn, level = "quantile", 0.5
    a = F(str(level))
    sgn_bias = d["diagram_type"] == "bias"
    for ci, (col, cv) in enumerate(zip(cols, o["curves"])):
        if not cv or any(not math.isfinite(v) for p in cv for v in p):
            bad.append("curve without finite vertices")
            continue
        ps = [(F(p[0]), (F(p[0]) - F(p[1])) if sgn_bias else F(p[1])) for p in cv]     # (x, fit(x))
        xs = [p[0] for p in ps]
        if any(x1 > x2 for x1, x2 in zip(xs, xs[1:])):
            bad.append("x of the curve's vertices not non-decreasing")
            continue
        if xs[0] != min(F(v) for v in col) or xs[-1] != max(F(v) for v in col):
            bad.append("curve does not span [min, max] of its prediction column")
        if any(y1 > y2 + F(1, 10 ** 12) * (1 + abs(y1)) for (_, y1), (_, y2) in zip(ps, ps[1:])):
            bad.append("fit along the curve is not monotone")
        groups = RI.group_rows(dict(X=col, y=d["y"], w=d["w"]))
        fitted = [interp_exact(ps, g[0]) for g in groups]
        n = len(col)
        if fn == "mean":
            ref = RI.maxmin_groups_mean(groups)
        elif fn == "expectile" and n <= 16:
            ref = RI.maxmin_groups(groups, lambda yy, ww: J.expectile(yy, ww, a))
        else:
            ref = None
        sv = sorted(set(col))
        if fn == "mean" and any(q - p <= 1e-9 * max(1.0, abs(p), abs(q)) for p, q in zip(sv, sv[1:])):
            ref = None                 # numerically tied forecasts (scikit-learn pools them): not judged
        if ref is not None and any(not close(rv, fv) for rv, fv in zip(ref, fitted)):
            bad.append(f"curve {ci} is not the isotonic fit of the observations on column {ci}"
                       + (" (prediction minus fit)" if sgn_bias else ""))
        if fn == "quantile":
            opt = RI.pinball_optimum_groups(groups, a)
            got = sum(RI.pinball_group(g[1], fv, a) for g, fv in zip(groups, fitted))
            if float(got - opt) > 1e-9 * (1 + abs(float(opt))):
                bad.append(f"curve {ci}: pinball loss of the plotted fit above the isotonic optimum")
            if n <= 16:
                lower = RI.maxmin_groups(groups, lambda yy, ww: J.qlow(yy, a))
                upper = RI.maxmin_groups(groups, lambda yy, ww: J.qupp(yy, a))
                if any(float(fv) < float(l) - 1e-9 * (1 + abs(float(l))) or float(fv) > float(u) + 1e-9 * (1 + abs(float(u)))
                       for fv, l, u in zip(fitted, lower, upper)):
                    bad.append(f"curve {ci}: plotted fit outside [smallest, largest optimal isotonic solution]")
    return bad


def judge_murphy(d, o):
    bad = common_clauses(d, o)
    cols = d["models"]
    if len(o["curves"]) != len(cols):
        return bad + [f"{len(o['curves'])} curves for {len(cols)} prediction columns"]
    if o["labels"] != expected_labels(d):
        bad.append(f"curve labels {o['labels']} are not the column names in column order")
    if len(cols) >= 2 and o["legend"] != list(d["names"]):
        bad.append(f"legend {o['legend']} is not the column names in column order")
    allv = [F(v) for c in cols for v in c] + [F(v) for v in d["y"]]
    lo, hi = min(allv), max(allv)
    a = F(str(d["level"]))
    n = len(d["y"])
    ws = [F(1)] * n if d["w"] is None else [F(v) for v in d["w"]]
    for ci, (col, cv) in enumerate(zip(cols, o["curves"])):
        xs = [p[0] for p in cv]
        if isinstance(d["etas"], int):
            k = d["etas"]
            if len(xs) != k:
                bad.append(f"{len(xs)} grid points for etas={k}")
                continue
            if k >= 1 and F(xs[0]) != lo:
                bad.append("default eta grid does not start at the minimum of observations and predictions")
            if k >= 2 and F(xs[-1]) != hi:
                bad.append("default eta grid does not end at the maximum of observations and predictions")
            if any(x1 >= x2 for x1, x2 in zip(xs, xs[1:])):
                bad.append("default eta grid not increasing")
            if k >= 2 and any(not close(lo + i * (hi - lo) / (k - 1), x) for i, x in enumerate(xs)):
                bad.append("default eta grid not equidistant")
        elif xs != [float(v) for v in d["etas"]]:
            bad.append("x data are not the requested etas")
            continue
        for (eta, s) in cv:
            sc = [elem_exact(d["functional"], a, eta, yy, zz) for yy, zz in zip(d["y"], col)]
            ref = sum(wi * si for wi, si in zip(ws, sc)) / sum(ws)
            if not close(ref, s):
                bad.append(f"curve {ci}: y is not the average elementary score of column {ci} at eta")
                break
            if s < -1e-12:
                bad.append("negative average elementary score")
                break
    return bad


def judge_bias(d, o):
    bad = common_clauses(d, o)
    tabs = bias_table(d)
    if d["feat"] is None:
        want = [[r for t in tabs for r in t]]
        want_labels = [None]
    else:
        want = tabs
        has_null = any(r["null"] for t in tabs for r in t)
        with_label = d["two_d"] and (len(d["models"]) >= 2 or has_null)
        want_labels = list(d["names"]) if with_label else [None] * len(tabs)
        if not d["two_d"]:
            want_labels = [None]
    if len(o["series"]) != len(want):
        return bad + [f"{len(o['series'])} series drawn for {len(want)} expected"]
    if d["feat"] is None and o["xticks"] != list(d["names"]):
        bad.append(f"x tick labels {o['xticks']} are not the column names in column order")
    if d["feat"] is not None and any(l is not None for l in want_labels):
        has_null = any(r["null"] for t in tabs for r in t)
        if o["legend"] != list(d["names"]) + (["Null values"] if has_null else []):
            bad.append(f"legend {o['legend']} is not the column names in column order")
    for i, (s, rows) in enumerate(zip(o["series"], want)):
        main = [r["mean"] for r in rows if not r["null"]]
        nul = [r["mean"] for r in rows if r["null"]]
        got = [p[0] for p in s["main"]]
        if not (len(got) == len(main) and all(g == m or (math.isnan(g) and math.isnan(m)) for g, m in zip(got, main))):
            bad.append(f"series {i}: plotted points {got} are not compute_bias's means {main} (in that order)")
        if (s["null"] is None) != (not nul) or (nul and s["null"][0] != nul[0] and not math.isnan(nul[0])):
            bad.append(f"series {i}: the Null marker is not compute_bias's mean of the null group")
        if s["label"] != want_labels[i]:
            bad.append(f"series {i}: label {s['label']!r}, expected {want_labels[i]!r}")
    return bad


def judge_case(d):
    """-> (violated clauses of C19, observation)"""
    try:
        o = run_impl(d)
    except Exception as e:  # noqa: BLE001 (extraction failed: report it)
        return [f"harness could not read the plot back: {type(e).__name__}: {e}"], dict(status="harness")
    mal = d.get("malformed")
    if mal:
        bad = [] if o.get("config_unchanged", True) else ["get_config() changed by the call"]
        if mal == "bias_1d_nofeature":
            if o["status"] != "ok":
                bad.append(f"plot_bias raises {o['exc']} for a one-dimensional y_pred without feature "
                           "(compute_bias returns one row; nothing is drawn)")
            else:
                bad += judge_bias(d, o)
            return bad, o
        if o["status"] == "ok":
            bad.append(f"invalid arguments accepted ({mal})")
        elif o["exc"] not in MALFORMED_EXC.get(mal, (o["exc"],)):
            bad.append(f"{mal}: raised {o['exc']}")
        return bad, o
    if o["status"] != "ok":
        if d["kind"] == "bias" and d["feat"] is not None:
            # compute_bias itself refuses the feature (C08 / C09 territory): nothing to draw
            try:
                bias_table(d)
            except Exception as e:  # noqa: BLE001
                if type(e).__name__ == o["exc"]:
                    return [], o
            return [f"plot_bias raised {o['exc']}: {o['msg']} although compute_bias returns a table"], o
        return [f"raised {o['exc']} on valid input: {o['msg']}"], o
    if d["kind"] == "rel":
        return judge_rel(d, o), o
    if d["kind"] == "murphy":
        return judge_murphy(d, o), o
    if d["kind"] == "bias":
        return judge_bias(d, o), o
    return common_clauses(d, o), o


# ------------------------------------------------------------------ generators
def gen_preds(rng, n, k, y):
    cols = []
    for _ in range(k):
        r = rng.random()
        if r < 0.1:
            cols.append(list(y))                                   # perfect model
        elif r < 0.2:
            # rounded: -0.1 + 0.5 and -1.6 + 2.0 differ by one ulp, and scikit-learn (mean functional) pools X values
            # closer than 1e-15 - numerically tied forecasts are outside what is judged (DESIGN section 10, tolerances)
            sh = rng.choice([-1.0, 0.5, 2.0])
            cols.append([round(v + sh, 9) for v in y])
        else:
            cols.append(RI.gen_X(rng, n, rng.choice(RI.X_STYLES)))
    return cols


def gen_n(rng, nmax):
    r = rng.random()
    if r < 0.05:
        return 1
    if r < 0.12:
        return 2
    if r < 0.5:
        return rng.randrange(3, 8)
    return rng.randrange(3, max(4, nmax + 1))


def gen_common(rng, nmax, weighted_ok=True):
    n = gen_n(rng, nmax)
    y = iso.gen_values(rng, n, rng.choice(iso.VALUE_STYLES))
    k = rng.choice([1, 1, 2, 2, 3])
    container = rng.choice(["np", "pl"])
    two_d = k > 1 or rng.random() < 0.3
    functional = rng.choice(["mean", "mean", "median", "quantile", "expectile", "expectile"])
    if functional == "quantile":
        level = rng.choice([lv for lv in iso.DYADIC_LEVELS + iso.DECIMAL_LEVELS if iso.quantile_float_safe(lv, n)] or [0.5])
    else:
        level = rng.choice(iso.DYADIC_LEVELS + iso.DECIMAL_LEVELS)
    wstyle = rng.choice(["none", "none", "ones", "smallint", "dyadic", "double"]) if weighted_ok else "none"
    return dict(y=y, models=gen_preds(rng, n, k, y), names=code_names(container, two_d, k, rng), container=container,
                two_d=two_d, w=iso.gen_weights(rng, n, wstyle), functional=functional, level=level,
                ax_mode="none" if rng.random() < 0.12 else "given",
                cfg_mode="context" if rng.random() < 0.3 else "default")


def gen_rel(rng, nmax):
    d = gen_common(rng, nmax)
    if d["functional"] in ("median", "quantile"):
        d["w"] = None                   # weighted quantiles are not implemented
    d.update(kind="rel", diagram_type=rng.choice(["reliability", "reliability", "bias"]))
    return d


def gen_etas(rng, d):
    r = rng.random()
    if r < 0.45:
        return rng.choice([0, 1, 2, 3, 5, 7, 10, 20])
    vals = sorted({v for c in d["models"] for v in c} | set(d["y"]))
    pool = list(vals) + [(p + q) / 2 for p, q in zip(vals, vals[1:])] + [vals[0] - 1.0, vals[-1] + 0.5]
    etas = [rng.choice(pool) if rng.random() < 0.8 else rng.uniform(vals[0] - 1, vals[-1] + 1)
            for _ in range(rng.randrange(0, 9))]
    if rng.random() < 0.5:
        etas.sort()
    return [float(v) for v in etas]


def gen_murphy(rng, nmax):
    d = gen_common(rng, nmax)
    d["kind"] = "murphy"
    allv = [v for c in d["models"] for v in c] + d["y"]
    if min(allv) == max(allv):
        d["models"][0][0] += 1.0
    d["etas"] = gen_etas(rng, d)
    return d


def gen_bias(rng, nmax):
    while True:
        base = RB.gen_case(rng, nmax)
        if base["feat"] is not None and any(v in ("inf", "-inf") for v in base["feat"]["values"]):
            continue                   # infinite feature values: x positions of the plot are not modelled
        if base["feat"] is not None:
            try:
                if RB.group_rows(base) == ("nan",):
                    continue           # NaN bin edges: outside the binning model
            except Exception:  # noqa: BLE001
                pass
        break
    k = len(base["models"])
    container = rng.choice(["np", "pl"])
    two_d = bool(base["two_d"]) or k > 1
    if base["feat"] is None:
        two_d = True                   # the one-dimensional call without feature is in the malformed stream
    d = dict(kind="bias", y=base["y"], models=base["models"], names=code_names(container, two_d, k, rng),
             container=container, two_d=two_d, w=base["w"], functional=base["functional"], level=base["level"],
             feat=base["feat"], confidence_level=rng.choice([0.9, 0.9, 0.5, 0]),
             ax_mode="none" if rng.random() < 0.12 else "given", cfg_mode="context" if rng.random() < 0.3 else "default")
    return d


def gen_marginal(rng, nmax):
    n = rng.randrange(4, max(5, nmax))
    y = iso.gen_values(rng, n, "dyadic")
    return dict(kind="marginal", y=y, models=[iso.gen_values(rng, n, "dyadic")], names=[""], container="np", two_d=False,
                w=iso.gen_weights(rng, n, rng.choice(["none", "smallint"])), functional="mean", level=0.5,
                x0=[float(rng.randrange(0, 6)) for _ in range(n)],
                ax_mode="none" if rng.random() < 0.3 else "given", cfg_mode="context" if rng.random() < 0.3 else "default")


def gen_malformed(rng):
    n = rng.randrange(2, 7)
    y = iso.gen_values(rng, n, "int")
    z = RI.gen_X(rng, n, "dups")
    base = dict(y=y, models=[z], names=[""], container="np", two_d=False, w=None, functional="expectile", level=0.5,
                ax_mode="given", cfg_mode=rng.choice(["default", "context"]))
    kind = rng.choice(["rel_level", "rel_wquantile", "rel_wzero", "rel_len", "rel_wlen", "mur_level", "mur_same", "mur_wlen",
                       "mur_wzero", "mur_len", "bias_level", "bias_1d_nofeature", "bias_1d_nofeature"])
    d = dict(base, malformed=kind)
    if kind.startswith("rel"):
        d.update(kind="rel", diagram_type=rng.choice(["reliability", "bias"]))
        if kind == "rel_level":
            d.update(functional=rng.choice(["expectile", "quantile"]), level=rng.choice([0.0, 1.0]))
        elif kind == "rel_wquantile":
            d.update(functional=rng.choice(["quantile", "median"]), w=[1.0] * n)
        elif kind == "rel_wzero":
            w = [2.0] * n
            w[rng.randrange(n)] = rng.choice([0.0, -1.0])
            d.update(w=w)
        elif kind == "rel_wlen":
            d.update(w=[1.0] * (n + 1), functional=rng.choice(["mean", "expectile"]))
        else:
            d.update(y=y + [1.0], functional=rng.choice(["mean", "expectile", "quantile"]))
    elif kind.startswith("mur"):
        d.update(kind="murphy", etas=rng.choice([3, [0.0, 1.0]]), functional=rng.choice(["mean", "quantile", "expectile"]))
        if min(z + y) == max(z + y):
            d["models"] = [[v + 1.0 for v in z]]
        if kind == "mur_level":
            d.update(level=rng.choice([0.0, 1.0, -0.5]))
        elif kind == "mur_same":
            c = float(rng.randrange(-2, 3))
            d.update(y=[c] * n, models=[[c] * n])
        elif kind == "mur_wlen":
            d.update(w=[1.0] * (n + 1))
        elif kind == "mur_wzero":
            d.update(w=[0.0] * n if rng.random() < 0.5 else ([1.0, -1.0] * n)[:2 * (n // 2)] + [0.0] * (n % 2))
        else:
            d.update(y=y + [1.0])
    else:
        d.update(kind="bias", feat=None, confidence_level=0.9, functional="mean")
        if kind == "bias_level":
            d.update(functional=rng.choice(["expectile", "quantile"]), level=rng.choice([0.0, 1.0]), two_d=True, names=["0"])
    return d


FIXED = [
    # the seeded slip max(y_pred_min, y_obs_max): needs max(pred) > max(obs) and > min(pred)
    dict(kind="murphy", y=[0.0, 1.0, 2.0, 1.0], models=[[1.0, 1.0, 2.0, 5.0]], names=[""], container="np", two_d=False,
         w=None, functional="mean", level=0.5, etas=5, ax_mode="given", cfg_mode="default"),
    dict(kind="murphy", y=[0.0, 1.0, 2.0, 7.0], models=[[1.0, 1.0, 2.0, 5.0], [3.0, -2.0, 0.0, 1.0]], names=["zeta", "alpha"],
         container="pl", two_d=True, w=[1.0, 2.0, 1.0, 0.5], functional="quantile", level=0.25, etas=[2.0, 1.0, 7.0, -2.0],
         ax_mode="none", cfg_mode="context"),
    dict(kind="rel", y=[1.0, 3.0, 2.0, 4.0], models=[[1.0, 2.0, 3.0, 4.0], [4.0, 3.0, 2.0, 1.0]], names=["zeta", "alpha"],
         container="pl", two_d=True, w=None, functional="mean", level=0.5, diagram_type="reliability", ax_mode="given",
         cfg_mode="default"),
    dict(kind="rel", y=[1.0, 3.0, 2.0, 4.0], models=[[1.0, 2.0, 3.0, 4.0], [4.0, 3.0, 2.0, 1.0]], names=["0", "1"],
         container="np", two_d=True, w=[1.0, 2.0, 1.0, 2.0], functional="expectile", level=0.25, diagram_type="bias",
         ax_mode="none", cfg_mode="context"),
    dict(kind="rel", y=[5.0], models=[[3.0]], names=[""], container="np", two_d=False, w=None, functional="mean",
         level=0.5, diagram_type="reliability", ax_mode="given", cfg_mode="default"),
    dict(kind="rel", y=[1.0, 0.0, 2.0], models=[[2.0, 2.0, 2.0]], names=["m"], container="pl", two_d=False, w=None,
         functional="median", level=0.5, diagram_type="bias", ax_mode="given", cfg_mode="default"),
    dict(kind="bias", y=[0.0, 1.0, 2.0, 3.0, 4.0, 5.0], models=[[0.5, 1.5, 2.5, 3.5, 4.5, 5.5], [25.0, 16.0, 9.0, 4.0, 1.0, 0.0],
                                                                 [9.0, 4.0, 1.0, 0.0, 1.0, 4.0]],
         names=["model_1", "model_3", "model_2"], container="pl", two_d=True, w=None, functional="mean", level=0.5,
         feat=None, confidence_level=0.9, ax_mode="given", cfg_mode="default"),
    dict(kind="bias", y=[0.0, 1.0, 2.0, 3.0, 4.0, 5.0], models=[[0.5, 1.5, 2.5, 3.5, 4.5, 5.5], [9.0, 4.0, 1.0, 0.0, 1.0, 4.0]],
         names=["model_1", "model_0"], container="pl", two_d=True, w=None, functional="mean", level=0.5,
         feat=dict(ftype="float", values=[0.0, 0.0, 1.0, None, 1.0, 2.0], n_bins=3, method="uniform"),
         confidence_level=0.9, ax_mode="given", cfg_mode="default"),
    dict(kind="bias", y=[0.0, 1.0, 2.0, 3.0, 4.0, 5.0], models=[[0.5, 1.5, 2.5, 3.5, 4.5, 5.5], [9.0, 4.0, 1.0, 0.0, 1.0, 4.0]],
         names=["0", "1"], container="np", two_d=True, w=[1.0, 2.0, 1.0, 2.0, 1.0, 2.0], functional="median", level=0.5,
         feat=dict(ftype="str", values=["b", "a", None, "a", "b", "c"], n_bins=5, method="sturges"),
         confidence_level=0.5, ax_mode="none", cfg_mode="context"),
]


def gen_case(rng, nmax):
    r = rng.random()
    if r < 0.40:
        return gen_rel(rng, nmax)
    if r < 0.72:
        return gen_murphy(rng, nmax)
    if r < 0.97:
        return gen_bias(rng, nmax)
    return gen_marginal(rng, nmax)


def clean(d):
    return {k: v for k, v in d.items() if not k.startswith("_")}


# ------------------------------------------------------------------ modes
def observe(d):
    """run + judge one case -> (coq term or None, observation, violated clauses)"""
    bad, o = judge_case(d)
    term = None
    if d["kind"] != "marginal" and o.get("status") in ("ok", "err"):
        if d["kind"] == "bias" and o["status"] == "ok":
            d["_table"] = bias_table(d)
        term = coq_case(d, o)
    return term, o, bad


def mode_corr(outdir, prefix, seed, ncases, nmax, only=None):
    """only="murphy": the Murphy-diagram cases alone (used by the check of C15, whose text covers the Murphy diagram)"""
    rng = random.Random(seed)
    nmal = max(2, ncases // 12)
    todo = [json.loads(json.dumps(x)) for x in FIXED if only is None or x["kind"] == only]
    gen = gen_case if only is None else {"murphy": gen_murphy, "rel": gen_rel, "bias": gen_bias}[only]
    todo += [gen(rng, nmax) for _ in range(max(0, ncases - len(todo) - nmal))]
    mal = [gen_malformed(rng) for _ in range(nmal * (1 if only is None else 12))]
    todo += [m for m in mal if only is None or m["kind"] == only][:nmal]
    stats = dict(cases=0, by_kind={}, by_functional={}, columns={}, container={}, weighted=0, bias_variant=0,
                 ax_none=0, config_context=0, default_grid=0, explicit_etas=0, errors={}, bias_feature={},
                 bias_errbars_checked=0, bias_errbars_drawn=0, bias_with_null=0, marginal_calls=0, judged=0,
                 returned_ax_checked=0, config_checked=0, property_failure_counts={})
    terms, dicts, samples, pfails = [], [], [], []
    for d in todo:
        term, o, bad = observe(d)
        stats["judged"] += 1
        k = d["kind"]
        stats["by_kind"][k] = stats["by_kind"].get(k, 0) + 1
        stats["by_functional"][d["functional"]] = stats["by_functional"].get(d["functional"], 0) + 1
        stats["columns"][str(len(d["models"]))] = stats["columns"].get(str(len(d["models"])), 0) + 1
        stats["container"][d["container"]] = stats["container"].get(d["container"], 0) + 1
        stats["weighted"] += d["w"] is not None
        stats["ax_none"] += d.get("ax_mode") == "none"
        stats["config_context"] += d.get("cfg_mode") == "context"
        stats["config_checked"] += "config_unchanged" in o
        stats["returned_ax_checked"] += "returned_is_ax" in o
        if k == "rel":
            stats["bias_variant"] += d["diagram_type"] == "bias"
        if k == "murphy":
            stats["default_grid" if isinstance(d["etas"], int) else "explicit_etas"] += 1
        if k == "bias":
            ft = "none" if d["feat"] is None else d["feat"]["ftype"]
            stats["bias_feature"][ft] = stats["bias_feature"].get(ft, 0) + 1
            if o.get("status") == "ok":
                stats["bias_errbars_checked"] += o["errbars"]
                stats["bias_errbars_drawn"] += o["err_expected"]
                stats["bias_with_null"] += any(s["null"] is not None for s in o["series"])
        if k == "marginal":
            stats["marginal_calls"] += 1
        if o.get("status") == "err":
            key = (d.get("malformed") or "valid") + ":" + o["exc"]
            stats["errors"][key] = stats["errors"].get(key, 0) + 1
        if bad:
            key = "|".join(failure_key(bad))[:300]
            stats["property_failure_counts"][key] = stats["property_failure_counts"].get(key, 0) + 1
            if stats["property_failure_counts"][key] <= 2 and len(pfails) < 12:
                pfails.append(dict(case=clean(d), clauses=bad, observed=o))
        if term is not None:
            terms.append(term)
            dicts.append(clean(d))
            stats["cases"] += 1
            if len(samples) < 3 and o.get("status") == "ok" and len(d["y"]) >= 4 and k not in [s["case"]["kind"] for s in samples]:
                samples.append(dict(case=clean(d), observed=o))
    os.makedirs(outdir, exist_ok=True)
    paths = []
    for k, sh in enumerate(shard(terms, SHARD)):
        p = os.path.join(outdir, f"{prefix}_{k}.v")
        body = "Definition cases : list pcase := [\n  " + ";\n  ".join(sh) + "\n]."
        write_case_file(p, "From Coq Require Import String.\nFrom MD Require Import lib.QLists model.Isotonic model.IsoFit "
                           "model.Binning model.Bias model.Plots corr.Decode corr.CmpBias corr.CmpPlots.",
                        body, "CmpPlots.summary cases")
        paths.append(p)
    json.dump(dicts, open(os.path.join(outdir, prefix + "_cases.json"), "w"))
    print(json.dumps(dict(paths=paths, shard_size=SHARD, stats=stats, samples=samples, property_failures=pfails)))


def minimise(d, fails):
    cur = json.loads(json.dumps(d))

    def drop(c, i):
        c = json.loads(json.dumps(c))
        c["y"] = c["y"][:i] + c["y"][i + 1:]
        c["models"] = [m[:i] + m[i + 1:] for m in c["models"]]
        if c["w"] is not None:
            c["w"] = c["w"][:i] + c["w"][i + 1:]
        if c.get("feat") is not None:
            c["feat"]["values"] = c["feat"]["values"][:i] + c["feat"]["values"][i + 1:]
        if "x0" in c:
            c["x0"] = c["x0"][:i] + c["x0"][i + 1:]
        return c
    changed = True
    while changed and len(cur["y"]) > 1:
        changed = False
        for i in range(len(cur["y"])):
            c = drop(cur, i)
            try:
                if fails(c):
                    cur, changed = c, True
                    break
            except Exception:  # noqa: BLE001
                pass
    return cur


def clause_class(c):
    """a clause without its case-specific details (for counting / de-duplication)"""
    if c.startswith("series "):
        return "bias plot series: " + c.split(": ", 1)[1].split(" [")[0].split(" '")[0].split(" None")[0] if ": " in c else c
    if c.startswith("curve ") and c[6:7].isdigit():
        rest = c[7:].lstrip(":").strip()
        for k in range(10):
            rest = rest.replace(f"column {k}", "column i")
        return "curve i " + rest
    for head in ("legend ", "curve labels ", "x tick labels "):
        if c.startswith(head):
            return head + "... " + c.split("] ", 1)[-1]
    return c.split(" [")[0]


def failure_key(bad):
    return tuple(sorted({clause_class(c) for c in bad}))


def mode_judge(path):
    ds = json.load(open(path))
    out, seen = [], set()
    for d in ds:
        bad, o = judge_case(d)
        if bad:
            key = (d["kind"], failure_key(bad))
            if key in seen:
                continue
            seen.add(key)
            m = minimise(d, lambda c: failure_key(judge_case(c)[0]) == key[1])
            mb, mo = judge_case(m)
            out.append(dict(case=clean(m), clauses=mb, observed=mo))
    print(json.dumps(dict(failures=out)))


def mode_search(seed, budget):
    found, seen, tried = [], set(), 0

    def consider(d):
        nonlocal tried
        tried += 1
        bad, o = judge_case(d)
        if bad:
            key = (d["kind"], failure_key(bad))
            if key not in seen:
                seen.add(key)
                m = minimise(d, lambda c: failure_key(judge_case(c)[0]) == key[1])
                mb, mo = judge_case(m)
                found.append(dict(case=clean(m), clauses=mb, observed=mo))

    # small exhaustive space: n = 3, values over {0,1,2}, one or two columns, all plots
    vals = [0.0, 1.0, 2.0]
    space = list(itertools.product(vals, repeat=3))
    idx = 0
    for y in space:
        for z in space:
            if tried >= budget // 2:
                break
            idx += 1
            z2 = space[(idx * 7) % len(space)]
            fn = ["mean", "median", "quantile", "expectile"][idx % 4]
            two = idx % 3 == 0
            cols = [list(z), list(z2)] if two else [list(z)]
            common = dict(y=list(y), models=cols, names=(["zeta", "alpha"] if two else ["m"]), container="pl", two_d=two,
                          w=None if fn in ("median", "quantile") or idx % 2 else [1.0, 2.0, 1.0],
                          functional=fn, level=0.5 if fn != "quantile" else 0.25, ax_mode="given", cfg_mode="default")
            consider(dict(common, kind="rel", diagram_type=["reliability", "bias"][idx % 2]))
            if min(list(y) + [v for c in cols for v in c]) != max(list(y) + [v for c in cols for v in c]):
                consider(dict(common, kind="murphy", w=None if idx % 2 else [1.0, 2.0, 1.0],
                              etas=[3, [0.0, 0.5, 1.0, 2.0]][idx % 2]))
            if idx % 5 == 0:
                consider(dict(common, kind="bias", w=None if idx % 2 else [1.0, 2.0, 1.0], two_d=True,
                              names=common["names"] if two else ["m"],
                              feat=[None, dict(ftype="float", values=[0.0, 1.0, 1.0], n_bins=2, method="uniform"),
                                    dict(ftype="str", values=["a", None, "b"], n_bins=3, method="sturges")][idx % 3],
                              confidence_level=0.9))
    # the documented default call of plot_bias: one-dimensional y_pred, no feature
    consider(dict(kind="bias", y=[0.0, 1.0, 2.0], models=[[1.0, 1.0, 2.0]], names=[""], container="np", two_d=False, w=None,
                  functional="mean", level=0.5, feat=None, confidence_level=0.9, ax_mode="given", cfg_mode="default",
                  malformed="bias_1d_nofeature"))
    rng = random.Random(seed)
    while tried < budget:
        consider(gen_case(rng, 14))
    print(json.dumps(dict(tried=tried, failures=found)))


def main():
    mode = sys.argv[1] if len(sys.argv) > 1 else ""
    if mode == "corr":
        outdir, prefix, seed, ncases, nmax = sys.argv[2:7]
        mode_corr(outdir, prefix, int(seed), int(ncases), int(nmax))
    elif mode == "corrmurphy":
        outdir, prefix, seed, ncases, nmax = sys.argv[2:7]
        mode_corr(outdir, prefix, int(seed), int(ncases), int(nmax), only="murphy")
    elif mode == "judge":
        mode_judge(sys.argv[2])
    elif mode == "search":
        mode_search(int(sys.argv[2]), int(sys.argv[3]))
    else:
        raise SystemExit(__doc__)


if __name__ == "__main__":
    main()
