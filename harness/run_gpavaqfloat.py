"""BIT-EXACT correspondence run of the QUANTILE / MEDIAN path of `isotonic_regression` against the
binary64 twin coq/model/GpavaQFloat.v (comparator coq/corr/CmpGpavaQFloat.v).

  run_gpavaqfloat.py corr   <outdir> <prefix> <seed> <ncases> <nmax>
      generates float64 data without NaN (exact ties, near ties, constants, dyadics, 0.1-style decimals,
      wide-range magnitudes, subnormals, +0.0 / -0.0, infinities, random bit patterns; 1 <= n <= nmax) and
      levels (dyadic, decimal, 0.5, near 0 and near 1, and levels k/m -+ a few ulps for which m*level is
      within rounding of an integer: that is where the FLOAT index computation of numpy's inverted_cdf
      quantile decides), both directions, functional "quantile" and "median" (with a junk `level`), plus a
      malformed stream (level outside (0, 1), NaN level, empty y, weights given).  Calls the PUBLIC
      isotonic_regression(y, None, increasing=, functional=, level=), writes shards
      <outdir>/<prefix>_<k>.v (<= 400 cases) whose last command prints
        (disagreeing indices, #cases, #error cases, total blocks, #cases with inf/NaN in the twin's x,
         #cases compared modulo the sign of zero, #of those where a sign really differs,
         #cases with level_upper <> fl(1 - level), #encoding mismatches),
      writes <outdir>/<prefix>_cases.json and prints one JSON object as last line
      {paths, shard_size, stats, samples, property_failures, overflow_findings, observations}.
      level_upper = float(1 - Decimal(str(level))) is computed here exactly as in isotonic.py line 23 and,
      during the call, checked against the q values the code really hands to np.quantile (spy).
  run_gpavaqfloat.py judge  <cases.json>
      re-runs the listed case dicts on the implementation and evaluates the statements of C12 (contract of
      (x, r)) and C02 (monotone, pinball optimum, between the smallest and largest optimal solution, range)
      with IEEE comparisons and exact fractions.Fraction arithmetic; {"failures": [...], ...}
  run_gpavaqfloat.py search <seed> <budget>
      directed search: (1) every (m, q) with m <= 64 and q on both sides of every k/m: index of the twin's
      formula in range and equal to numpy's; (2) small exhaustive space of special doubles; (3) seeded random;
      {"tried": n, "failures": [...], ...}
  run_gpavaqfloat.py selfcheck <outdir> <prefix> <seed> <ncases> <nmax>
      corr + compiles every shard with coqc and reports the parsed summaries and the time per shard.

Doubles travel as C99 hexadecimal strings (float.hex) everywhere: exact, -0.0 distinct from 0.0.
"""
import itertools
import json
import math
import os
import random
import struct
import sys
import time
import warnings
from decimal import Decimal
from fractions import Fraction

import numpy as np

import common

warnings.simplefilter("ignore")

SHARD = 400
MASK63 = (1 << 63) - 1
DBL_MAX = sys.float_info.max
INF = math.inf
NAN = math.nan


# ------------------------------------------------------------------ bit level helpers
def f2b(v):
    return struct.unpack("<Q", struct.pack("<d", v))[0]


def b2f(b):
    return struct.unpack("<d", struct.pack("<Q", b))[0]


def finite(v):
    return v == v and abs(v) != INF


def ulp_step(v, k):
    """the double k units in the last place away from v (clamped to the finite range)"""
    b = f2b(v)
    o = -(b & MASK63) if b >> 63 else b
    o += k
    top = f2b(DBL_MAX)
    o = max(-top, min(top, o))
    return b2f((1 << 63) | (-o)) if o < 0 else b2f(o)


def rand_bits(rng):
    while True:
        v = b2f(rng.getrandbits(64))
        if finite(v):
            return v


def rand_scaled(rng, elo, ehi):
    m = (1 << 52) | rng.getrandbits(52)
    v = math.ldexp(m, rng.randint(elo, ehi) - 52)
    return -v if rng.random() < 0.5 else v


def rand_subnormal(rng):
    k = rng.choice([1, 2, 3, rng.getrandbits(8) + 1, rng.getrandbits(30) + 1, rng.getrandbits(52) or 1])
    v = b2f(k)
    return -v if rng.random() < 0.5 else v


def same_bits(a, b):
    return (a != a and b != b) or f2b(a) == f2b(b)


def is_nzero(v):
    return v == 0 and math.copysign(1.0, v) < 0


def is_pzero(v):
    return v == 0 and math.copysign(1.0, v) > 0


def mixed_zero(y):
    return any(is_nzero(v) for v in y) and any(is_pzero(v) for v in y)


# ------------------------------------------------------------------ generators
Y_STYLES = ["bits", "scaled", "nearties", "nearties", "ties", "ties", "ties", "const", "constpert", "huge",
            "hugemix", "tiny", "subnormal", "zeros", "pzero", "nzero", "walk", "walk", "decimal", "decimal",
            "smallint", "smallint", "dyadic", "dyadic", "mixed", "infs", "stair_drop", "stair_drop", "zigzag",
            "sorted_desc", "sorted_asc"]


def one_value(rng, style):
    if style == "bits":
        return rand_bits(rng)
    if style == "scaled":
        return rand_scaled(rng, -3, 3)
    if style == "huge":
        return rand_scaled(rng, 990, 1000)
    if style == "tiny":
        return rand_scaled(rng, -1000, -990)
    if style == "subnormal":
        return rand_subnormal(rng)
    if style == "zeros":
        return rng.choice([0.0, -0.0, 0.0, -0.0, 5e-324, -5e-324, 1.0, -1.0, 2.2250738585072014e-308])
    if style == "pzero":
        return rng.choice([0.0, 0.0, 5e-324, -5e-324, 1.0, -1.0, 1e-323])
    if style == "nzero":
        return rng.choice([-0.0, -0.0, 5e-324, -5e-324, 1.0, -1.0, -1e-323])
    if style == "decimal":
        return rng.randrange(-30, 31) / 10.0
    if style == "smallint":
        return float(rng.randrange(-3, 4))
    if style == "dyadic":
        return rng.randrange(-64, 65) / 16.0
    raise ValueError(style)


def gen_y(rng, n, style):
    if style in ("bits", "huge", "tiny", "subnormal", "zeros", "pzero", "nzero", "decimal", "smallint", "dyadic"):
        return [one_value(rng, style) for _ in range(n)]
    if style == "scaled":
        e = rng.randint(-1000, 1000)
        return [math.ldexp(rand_scaled(rng, -2, 2), e) for _ in range(n)]
    if style == "nearties":
        base = rng.choice([rand_bits(rng), rand_scaled(rng, -3, 3), 0.1, 1.0, 1 / 3, 1e300, 1e-300, 3e-308, 0.0])
        return [ulp_step(base, rng.randint(-3, 3)) for _ in range(n)]
    if style == "ties":
        pool = [one_value(rng, rng.choice(["bits", "scaled", "decimal", "pzero", "dyadic"])) for _ in range(rng.randint(1, 4))]
        return [rng.choice(pool) for _ in range(n)]
    if style == "const":
        v = rng.choice([0.1, 0.3, 1 / 3, 0.7, rand_bits(rng), rand_scaled(rng, -3, 3), 1e300, 5e-324, -0.0, 0.0,
                        1.7e308, DBL_MAX, -DBL_MAX, INF, -INF])
        return [v] * n
    if style == "constpert":
        v = rng.choice([0.1, 0.3, 1 / 3, rand_scaled(rng, -3, 3)])
        out = [v] * n
        out[rng.randrange(n)] = ulp_step(v, rng.choice([-2, -1, 1, 2]))
        return out
    if style == "hugemix":
        return [rng.choice([1e300, -1e300, 1e308, -1e308, 1.7e308, -1.7e308, DBL_MAX, -DBL_MAX, 1.0, 0.0,
                            rand_scaled(rng, 1015, 1023)]) for _ in range(n)]
    if style == "infs":
        return [rng.choice([INF, -INF, INF, 1.0, 0.0, -1.0, DBL_MAX, -DBL_MAX, rand_scaled(rng, -3, 3)])
                if rng.random() < 0.5 else rand_scaled(rng, -3, 3) for _ in range(n)]
    if style == "walk":
        scale = rng.choice([1.0, 0.1, 1e-3, 1e150, 1e-150, 1e-310])
        v, out = rng.uniform(-1, 1) * scale, []
        for _ in range(n):
            v += rng.choice([rng.gauss(0, 1), rng.uniform(-1, 1), -0.1, 0.1, 0.0]) * scale
            if not finite(v):
                v = 0.0
            out.append(v)
        return out
    if style == "mixed":
        return [one_value(rng, rng.choice(["bits", "scaled", "huge", "tiny", "subnormal", "pzero", "decimal"]))
                for _ in range(n)]
    if style == "stair_drop":
        e = rng.choice([0, 0, 0, 900, -900, -1070])
        k = rng.randint(1, n)
        up = sorted(math.ldexp(rng.choice([rng.uniform(0.5, 4.0), rng.randrange(5, 40) / 10.0]), e) for _ in range(k))
        lo = [math.ldexp(rng.choice([rng.uniform(0.0, 3.0), rng.randrange(0, 30) / 10.0]), e) for _ in range(n - k)]
        return up + lo
    if style == "zigzag":
        base, e = rng.uniform(0.5, 2.0), rng.choice([0, 0, 500, -500])
        return [math.ldexp(base + (i // 2) * rng.choice([0.1, 0.01, 1e-15]) - (i % 2) * rng.choice([0.3, 0.03, 2e-15]), e)
                for i in range(n)]
    if style in ("sorted_desc", "sorted_asc"):
        vs = [one_value(rng, rng.choice(["decimal", "scaled", "smallint"])) for _ in range(n)]
        return sorted(vs, reverse=(style == "sorted_desc"))
    raise ValueError(style)


L_STYLES = ["half", "dyadic", "dyadic", "decimal1", "decimal2", "decimal2", "decimal3", "uniform", "near0", "near1",
            "critical", "critical", "critical", "critical", "critdec", "critdec"]


def gen_level(rng, n, style):
    """a float64 level, mostly inside (0, 1)"""
    if style == "half":
        return 0.5
    if style == "dyadic":
        j = rng.randint(1, 6)
        return rng.randrange(1, 1 << j) / float(1 << j)
    if style == "decimal1":
        return rng.randrange(1, 10) / 10.0
    if style == "decimal2":
        return rng.randrange(1, 100) / 100.0
    if style == "decimal3":
        return rng.randrange(1, 1000) / 1000.0
    if style == "uniform":
        return rng.random() or 0.5
    if style == "near0":
        return rng.choice([5e-324, 1e-300, 1e-30, 1e-20, 1e-17, 2.0 ** -53, 2.0 ** -52, 1e-5, 0.001, 1e-16, 3e-308])
    if style == "near1":
        return rng.choice([1 - 2.0 ** -53, 1 - 2.0 ** -52, 0.9999, 0.999999999, 1 - 1e-15, 0.99, 0.9999999999999999])
    if style == "critical":
        # k/m -+ a few ulps, m a possible pooled sample size: m * level is within rounding of the integer k
        m = rng.randint(1, max(1, n))
        k = rng.randint(1, m)
        v = float(np.float64(k) / np.float64(m))
        v = ulp_step(v, rng.choice([-3, -2, -1, -1, 0, 0, 1, 1, 2, 3]))
        return v if 0 < v < 1 else 0.5
    if style == "critdec":
        # short decimal levels with m * level an integer for many m: 0.05-grid, m multiple of 20, ...
        return rng.choice([0.05 * k for k in range(1, 20)] + [k / 20 for k in range(1, 20)] + [0.15, 0.35, 0.55, 0.07, 0.14, 0.28, 0.56, 0.57, 0.58, 0.29, 0.35, 0.7, 0.6, 0.3])
    raise ValueError(style)


def level_upper(level):
    """isotonic.py line 23, exactly"""
    try:
        return float(1 - Decimal(str(level)))
    except Exception:  # noqa: BLE001  (never for a float level)
        return NAN


def hx(vs):
    return None if vs is None else [float(v).hex() if finite(v) else repr(float(v)) for v in vs]


def unhx1(h):
    return float.fromhex(h) if h not in ("inf", "-inf", "nan") else float(h)


def unhx(hs):
    return None if hs is None else [unhx1(h) for h in hs]


def gen_case(rng, nmax):
    u = rng.random()
    if u < 0.12:
        n = rng.randint(1, min(3, nmax))
    elif u < 0.75:
        n = rng.randint(1, max(1, min(12, nmax)))
    elif u < 0.97:
        n = rng.randint(1, nmax)
    else:
        n = nmax
    ys, ls = rng.choice(Y_STYLES), rng.choice(L_STYLES)
    median = rng.random() < 0.15
    level = gen_level(rng, n, ls)
    if median:
        ls = "median-junk"
        level = rng.choice([0.5, 0.3, 0.0, 1.0, -2.0, 7.5, NAN, INF, level])
    return dict(functional="median" if median else "quantile", y=hx(gen_y(rng, n, ys)), w=None, level=hx([level])[0],
                inc=rng.random() < 0.5, ystyle=ys, lstyle=ls, kind=None)


def fx(functional, y, level, inc, w=None, kind=None):
    return dict(functional=functional, y=hx(y), w=hx(w), level=hx([level])[0], inc=inc, ystyle="fixed", lstyle="fixed",
                kind=kind)


# hand-made corner cases
FIXED = [
    fx("median", [1.7e308], 0.5, True),                              # 0.5 * (xl + xu) overflows: inf
    fx("median", [1.7e308, 1.7e308], 0.5, True),                     # inf, inf and r = [0, 1, 2] (inf - inf = NaN != 0)
    fx("quantile", [DBL_MAX, -DBL_MAX, 1.0], 0.3, False),
    fx("median", [INF, -INF], 0.5, True),                            # 0.5 * (-inf + inf) = NaN
    fx("quantile", [INF, INF, 1.0], 0.25, True), fx("quantile", [-INF, 2.0, -INF], 0.75, False),
    fx("median", [0.0, -5e-324, 0.0], 0.5, True),                    # x = [-0.0, -0.0, 0.0] in ONE block of r
    fx("median", [0.0, -0.0], 0.5, True), fx("median", [-0.0, 0.0], 0.5, True), fx("median", [-0.0, -0.0], 0.5, True),
    fx("median", [-0.0], 0.5, False), fx("quantile", [0.0, 0.0, -1.0], 0.75, True),
    fx("quantile", [-0.0, -0.0, -1.0], 0.75, True), fx("quantile", [0.0, -0.0, -1.0], 0.75, True),
    fx("quantile", [5e-324, 0.0, 5e-324], 0.3, True), fx("quantile", [1e-323, 5e-324, -5e-324], 0.9, False),
    fx("quantile", [3.0, 2.0, 1.0], 5e-324, True), fx("quantile", [3.0, 2.0, 1.0], 1 - 2.0 ** -53, True),
    fx("quantile", [3.0, 2.0, 1.0, 5.0, 4.0], 1e-300, True),          # level_upper = 1.0
    fx("quantile", [3.0, 2.0, 1.0, 5.0, 4.0], 1e-20, False),
    fx("quantile", [float(v) for v in range(20, 0, -1)], 0.35, True),     # 20 * 0.35 = 7 exactly in float
    fx("quantile", [float(v) for v in range(100, 0, -1)], 0.07, True),    # 100 * 0.07 = 7.000000000000001
    fx("quantile", [float(v) for v in range(100, 0, -1)], 0.57, True),    # 100 * 0.57 = 56.99999999999999
    fx("quantile", [float(v) for v in range(10, 0, -1)], 0.3, True),      # 10 * 0.3 = 3.0000000000000004? (3.0)
    fx("quantile", [float(v) for v in range(10, 0, -1)], 0.7, False),
    fx("quantile", [0.1, 0.1, 0.1], 0.1, True), fx("median", [0.1, 0.3, 0.2, 0.2, 0.1], 0.9, True),
    fx("quantile", [1.0], 0.5, True), fx("quantile", [1.0], 0.999, False),
    fx("quantile", [2.0, 1.0], ulp_step(0.5, 1), True), fx("quantile", [2.0, 1.0], ulp_step(0.5, -1), True),
    fx("quantile", [3.0, 2.0, 1.0], ulp_step(1 / 3, 1), True), fx("quantile", [3.0, 2.0, 1.0], 1 / 3, True),
    fx("quantile", [3.0, 2.0, 1.0], ulp_step(2 / 3, -1), True), fx("quantile", [3.0, 2.0, 1.0], 2 / 3, False),
]

MALFORMED = [
    fx("quantile", [1.0, 2.0], 0.0, True, kind="level"), fx("quantile", [1.0, 2.0], 1.0, False, kind="level"),
    fx("quantile", [1.0, 2.0], -0.0, True, kind="level"), fx("quantile", [2.0, 1.0], -0.5, True, kind="level"),
    fx("quantile", [2.0, 1.0], 1.5, True, kind="level"), fx("quantile", [2.0, 1.0], INF, True, kind="level"),
    fx("quantile", [2.0, 1.0], -INF, False, kind="level"), fx("quantile", [], 0.0, True, kind="level"),
    fx("quantile", [2.0, 1.0], NAN, True, kind="nanlevel"), fx("quantile", [1.0, 2.0], NAN, False, kind="nanlevel"),
    fx("quantile", [1.0], NAN, True, kind="nanlevel"),
    fx("quantile", [], 0.5, True, kind="empty"), fx("median", [], 0.5, False, kind="empty"),
    fx("quantile", [], NAN, True, kind="empty"), fx("median", [], 3.0, True, kind="empty"),
    fx("quantile", [1.0, 2.0], 0.5, True, w=[1.0, 1.0], kind="weights"),
    fx("median", [1.0, 2.0], 0.5, False, w=[1.0, 2.0], kind="weights"),
    fx("median", [], 0.5, True, w=[], kind="weights"), fx("quantile", [1.0], 0.3, True, w=[1.0, 2.0], kind="weights"),
    fx("quantile", [1.0, 2.0], 1.0, True, w=[1.0, 1.0], kind="level"),
    fx("median", [1.0, 2.0], 1.0, True, w=[1.0, 1.0], kind="weights"),
]
EXPECTED_ERR = {"level": "ValueError", "nanlevel": "ValueError", "empty": "IndexError", "weights": "NotImplementedError"}


# ------------------------------------------------------------------ implementation
class QuantileSpy:
    """records (sample size, q) of every np.quantile call made by the implementation"""

    def __init__(self):
        self.calls = []
        self.orig = np.quantile

    def __enter__(self):
        orig, calls = self.orig, self.calls

        def spy(a, q, *args, **kw):
            calls.append((int(np.size(a)), float(q), kw.get("method")))
            return orig(a, q, *args, **kw)

        np.quantile = spy
        return self

    def __exit__(self, *exc):
        np.quantile = self.orig
        return False


def run_impl(d, spy=False):
    """-> (obs, calls)"""
    from model_diagnostics._utils.isotonic import isotonic_regression
    y, w, level = unhx(d["y"]), unhx(d["w"]), unhx1(d["level"])
    ya = np.array(y, dtype=np.float64)
    wa = None if w is None else np.array(w, dtype=np.float64)
    calls = []
    try:
        with np.errstate(all="ignore"):
            if spy:
                with QuantileSpy() as s:
                    calls = s.calls
                    x, r = isotonic_regression(ya, wa, increasing=d["inc"], functional=d["functional"], level=level)
            else:
                x, r = isotonic_regression(ya, wa, increasing=d["inc"], functional=d["functional"], level=level)
    except ValueError:
        return ("ValueError",), calls
    except IndexError:
        return ("IndexError",), calls
    except NotImplementedError:
        return ("NotImplementedError",), calls
    except Exception as e:  # noqa: BLE001
        return ("Other", type(e).__name__), calls
    if x.dtype != np.float64:
        return ("Other", "dtype " + str(x.dtype)), calls
    if [float(v).hex() for v in ya] != [float(v).hex() for v in np.array(y, dtype=np.float64)]:
        return ("Other", "input modified"), calls
    return ("ok", [float(v) for v in x], [int(k) for k in r]), calls


def obs_json(obs):
    if obs[0] == "ok":
        return ["ok", hx(obs[1]), obs[2]]
    return list(obs)


def eff_levels(d):
    """(level, level_upper) the code works with"""
    if d["functional"] == "median":
        return 0.5, level_upper(0.5)
    lv = unhx1(d["level"])
    return lv, level_upper(lv)


# ------------------------------------------------------------------ exact reference (fractions)
def np_index(m, q):
    """the order statistic numpy's inverted_cdf picks, float arithmetic as in numpy (= the twin's formula)"""
    idx = np.float64(m) * np.float64(q) - np.float64(1)
    p = np.floor(idx)
    g = idx - p
    res = p if g == 0 else p + np.float64(1)
    return max(int(res), 0)


def exact_index_lower(m, a):
    return max(math.ceil(a * m) - 1, 0)


def exact_index_upper(m, a):
    return min(math.floor(a * m), m - 1)


def sfloat(fr):
    """float of a Fraction, as a string when it overflows"""
    try:
        return float(fr)
    except OverflowError:
        return ("-" if fr < 0 else "") + "overflow"


def pinball(ys, xs, a):
    return sum(((1 if x >= y else 0) - a) * (x - y) for y, x in zip(ys, xs))


def pinball_optimum(ys, a):
    vals = sorted(set(ys))
    best = [Fraction(0)] * len(vals)
    for y in ys:
        new, m = [], None
        for k, v in enumerate(vals):
            m = best[k] if m is None else min(m, best[k])
            new.append(m + ((1 if v >= y else 0) - a) * (v - y))
        best = new
    return min(best)


def maxmin(ys, pick):
    """x_i = max_{s<=i} min_{t>=i} pick(sorted(y[s..t]))"""
    n = len(ys)
    T = [[None] * n for _ in range(n)]
    for s in range(n):
        cur = []
        for t in range(s, n):
            # insertion keeps cur sorted
            v = ys[t]
            lo, hi = 0, len(cur)
            while lo < hi:
                mid = (lo + hi) // 2
                if cur[mid] < v:
                    lo = mid + 1
                else:
                    hi = mid
            cur.insert(lo, v)
            T[s][t] = pick(cur)
    return [max(min(T[s][t] for t in range(i, n)) for s in range(i + 1)) for i in range(n)]


def judge_case(d, obs=None, calls=None):
    """-> (clauses violated, info, obs, calls).  C12 contract and C02 statement on what the implementation returned;
    IEEE comparisons for order/equality, exact Fractions for the loss."""
    if obs is None:
        obs, calls = run_impl(d, spy=True)
    info = {}
    y = unhx(d["y"])
    if d.get("kind"):
        want = EXPECTED_ERR[d["kind"]]
        return ([] if obs[0] == want else [f"expected {want}, observed {obs[0]}"]), info, obs, calls
    if obs[0] != "ok":
        return [f"raised {obs[0]}"], info, obs, calls
    x, r = obs[1], obs[2]
    inc = d["inc"]
    n = len(y)
    lv, lu = eff_levels(d)
    bad = []
    # --- the q values the code really used
    qs = sorted({c[1] for c in calls}, key=f2b)
    want_qs = sorted({lv, lu}, key=f2b)
    if calls and (any(not any(same_bits(q, w) for w in want_qs) for q in qs) or not any(same_bits(lu, q) for q in qs)):
        bad.append("harness level_upper differs from the q the code passed to np.quantile")
    if any(c[2] != "inverted_cdf" for c in calls):
        bad.append("np.quantile called with another method")
    # --- C12
    if len(x) != n:
        bad.append("len(x) != len(y)")
    if len(r) < 2 or r[0] != 0 or r[-1] != n:
        bad.append("r does not start at 0 and end at n")
    if any(not (r[j] < r[j + 1]) for j in range(len(r) - 1)):
        bad.append("r not strictly increasing")
    structural = not bad
    has_nan = any(v != v for v in x)
    info["nan"] = has_nan
    info["nonfinite"] = any(not finite(v) for v in x)
    info["finite_input"] = all(finite(v) for v in y)
    info["overflow"] = info["finite_input"] and info["nonfinite"]
    if structural:
        for j in range(len(r) - 1):
            if any(not (x[i] == x[r[j]]) for i in range(r[j], r[j + 1])):
                bad.append("x not constant (==) inside a block")
                break
        info["block_not_bit_constant"] = any(not same_bits(x[i], x[r[j]]) for j in range(len(r) - 1)
                                             for i in range(r[j], r[j + 1]))
        if any(x[r[j] - 1] == x[r[j]] for j in range(1, len(r) - 1)):
            bad.append("adjacent blocks carry equal values")
    mono = all((x[i] <= x[i + 1]) if inc else (x[i] >= x[i + 1]) for i in range(len(x) - 1))
    if not mono:
        bad.append("x not monotone (IEEE comparison)")
    if n:
        lo, hi = min(y), max(y)
        if any(not (lo <= v <= hi) for v in x):
            bad.append("outside [min(y), max(y)]")
    # --- C02 (finite data and finite output only)
    info["index_float_vs_binary_level"] = 0
    info["index_float_vs_decimal_level"] = 0
    if info["finite_input"] and not info["nonfinite"] and len(x) == n and n:
        ys = [Fraction(v) for v in (y if inc else y[::-1])]
        xs = [Fraction(v) for v in (x if inc else x[::-1])]
        a_bin = Fraction(lv)
        a_dec = Fraction(str(lv))
        for c in calls:
            m, q = c[0], c[1]
            if same_bits(q, lv):
                k = np_index(m, q)
                info["index_float_vs_binary_level"] += k != exact_index_lower(m, a_bin)
                info["index_float_vs_decimal_level"] += k != exact_index_lower(m, a_dec)
            else:
                k = m - 1 - np_index(m, q)
                info["index_float_vs_binary_level"] += k != exact_index_upper(m, a_bin)
                info["index_float_vs_decimal_level"] += k != exact_index_upper(m, a_dec)
        res = {}
        for name, a in (("binary", a_bin), ("decimal", a_dec)):
            opt = pinball_optimum(ys, a)
            got = pinball(ys, xs, a)
            lower = maxmin(ys, lambda s: s[exact_index_lower(len(s), a)])
            upper = maxmin(ys, lambda s: s[exact_index_upper(len(s), a)])
            between = all(l <= v <= u for v, l, u in zip(xs, lower, upper))
            res[name] = dict(excess=got - opt, opt=opt, between=between)
        # the level is the double that was passed (binary) -- or the decimal the code's Decimal trick means:
        # a clause counts as violated only if it fails under BOTH readings
        ex = min(res["binary"]["excess"], res["decimal"]["excess"])
        scale = 1 + abs(res["binary"]["opt"])
        info["loss_excess_binary"] = sfloat(res["binary"]["excess"])
        info["loss_excess_decimal"] = sfloat(res["decimal"]["excess"])
        info["loss_excess_exact_positive"] = ex > 0
        if ex > Fraction(1, 10 ** 9) * scale:
            bad.append("pinball loss above the optimum")
        if not (res["binary"]["between"] or res["decimal"]["between"]):
            # When numpy's FLOAT index n * level - 1 picked another order statistic than the exact level does
            # (under both readings of the level), x can sit outside the exact optimal band although its loss is
            # within rounding of the optimum (the band is discontinuous in the level): observation, not failure,
            # as in harness/iso.py (quantile_float_safe).
            if info["index_float_vs_binary_level"] == 0 or info["index_float_vs_decimal_level"] == 0:
                bad.append("outside [smallest, largest optimal solution]")
            info["not_between"] = True
    return bad, info, obs, calls


# ------------------------------------------------------------------ Coq output
def flit(v):
    if v != v:
        return "PrimFloat.nan"
    if v == INF:
        return "PrimFloat.infinity"
    if v == -INF:
        return "PrimFloat.neg_infinity"
    h = float(v).hex()
    return f"({h})" if h[0] == "-" else h


def flist(vs):
    return "[" + "; ".join(flit(v) for v in vs) + "]"


def enc_triple(v):
    p, q = abs(v).as_integer_ratio()
    e = -(q.bit_length() - 1)
    while p and p % 2 == 0:
        p //= 2
        e += 1
    s = "true" if math.copysign(1.0, v) < 0 else "false"
    return f"({flit(v)}, ({s}, {p}%uint63, ({e})%Z))"


def case_term(d, obs):
    y, w = unhx(d["y"]), unhx(d["w"])
    lv = unhx1(d["level"])
    lu = level_upper(0.5) if d["functional"] == "median" else level_upper(lv)
    wt = "None" if w is None else f"(Some {flist(w)})"
    if obs[0] == "ok" and all(0 <= k <= 10 ** 6 for k in obs[2]):
        ot = f"(QORes {flist(obs[1])} {common.natlist(obs[2])})"
    elif obs[0] == "ok":
        ot = "QOOther"
    else:
        ot = {"ValueError": "QOValueError", "IndexError": "QOIndexError",
              "NotImplementedError": "QONotImplementedError"}.get(obs[0], "QOOther")
    med = "true" if d["functional"] == "median" else "false"
    return f"mkqcase {med} {flist(y)} {wt} {flit(lv)} {flit(lu)} {'true' if d['inc'] else 'false'} {ot}"


def write_shard(path, items):
    encs, seen = [], set()
    for d, obs in items:
        vals = unhx(d["y"]) + [unhx1(d["level"])] + (obs[1] if obs[0] == "ok" else [])
        for v in vals:
            if finite(v) and f2b(v) not in seen and len(encs) < 4000:
                seen.add(f2b(v))
                encs.append(enc_triple(v))
    with open(path, "w") as f:
        f.write("From Coq Require Import PrimFloat Uint63 ZArith List Bool.\nImport ListNotations.\n")
        f.write("From MD Require Import model.PavaFloat model.GpavaQFloat corr.CmpPavaFloat corr.CmpGpavaQFloat.\n")
        f.write("Open Scope float_scope.\n")
        f.write("Definition cases : list qcase := [\n " + ";\n ".join(case_term(d, o) for d, o in items) + "].\n")
        f.write("Definition enc : list (float * (bool * int * Z)) := [\n " + ";\n ".join(encs) + "].\n")
        f.write("Eval vm_compute in (qsummary cases enc).\n")


def bump(dct, key, by=1):
    dct[key] = dct.get(key, 0) + by


def build(seed, ncases, nmax):
    rng = random.Random(seed)
    dicts = [dict(d) for d in FIXED] + [dict(d) for d in MALFORMED]
    while len(dicts) < ncases:
        dicts.append(gen_case(rng, nmax))
    dicts = dicts[:max(ncases, 1)]
    stats = dict(cases=len(dicts), ystyle={}, lstyle={}, functional={}, increasing=0, decreasing=0, n_hist={}, blocks=0,
                 errors={}, nonfinite_outputs=0, nan_outputs=0, overflow_outputs=0, mixed_zero_inputs=0,
                 inputs_with_inf=0, level_upper_is_not_float_1_minus_level=0, quantile_calls=0,
                 cases_where_float_index_differs_from_exact_binary_level=0,
                 cases_where_float_index_differs_from_exact_decimal_level=0,
                 cases_with_exactly_positive_loss_excess=0, outside_exact_band_because_of_float_index=0, blocks_not_bit_constant=0, distinct_doubles=0,
                 distinct_levels=0)
    items, fails, overflow = [], [], []
    observations = dict(nan=[], loss_excess_exact=[], block_not_bit_constant=[], float_index_vs_binary_level=[],
                        outside_exact_band_because_of_float_index=[])
    alld, alll = set(), set()
    for d in dicts:
        bad, info, obs, calls = judge_case(d)
        items.append((d, obs))
        bump(stats["ystyle"], d["ystyle"])
        bump(stats["lstyle"], d["lstyle"])
        bump(stats["functional"], d["functional"])
        stats["increasing" if d["inc"] else "decreasing"] += 1
        n = len(d["y"])
        key = "0" if n == 0 else "1" if n == 1 else "2-3" if n <= 3 else "4-12" if n <= 12 else "13-40" if n <= 40 else ">40"
        bump(stats["n_hist"], key)
        alld.update(d["y"])
        alll.add(d["level"])
        y = unhx(d["y"])
        stats["quantile_calls"] += len(calls)
        if obs[0] != "ok":
            bump(stats["errors"], obs[0])
        else:
            lv, lu = eff_levels(d)
            stats["blocks"] += len(obs[2]) - 1
            stats["nonfinite_outputs"] += bool(info.get("nonfinite"))
            stats["nan_outputs"] += bool(info.get("nan"))
            stats["overflow_outputs"] += bool(info.get("overflow"))
            stats["mixed_zero_inputs"] += mixed_zero(y)
            stats["inputs_with_inf"] += any(abs(v) == INF for v in y)
            stats["level_upper_is_not_float_1_minus_level"] += not same_bits(lu, 1.0 - lv)
            stats["cases_where_float_index_differs_from_exact_binary_level"] += bool(info.get("index_float_vs_binary_level"))
            stats["cases_where_float_index_differs_from_exact_decimal_level"] += bool(info.get("index_float_vs_decimal_level"))
            stats["cases_with_exactly_positive_loss_excess"] += bool(info.get("loss_excess_exact_positive"))
            stats["blocks_not_bit_constant"] += bool(info.get("block_not_bit_constant"))
            if info.get("nan") and len(observations["nan"]) < 2:
                observations["nan"].append(dict(case=d, observed=obs_json(obs), clauses=bad))
            if info.get("loss_excess_exact_positive") and len(observations["loss_excess_exact"]) < 2:
                observations["loss_excess_exact"].append(dict(case=d, observed=obs_json(obs),
                                                              excess_binary=info["loss_excess_binary"],
                                                              excess_decimal=info["loss_excess_decimal"]))
            if info.get("block_not_bit_constant") and len(observations["block_not_bit_constant"]) < 2:
                observations["block_not_bit_constant"].append(dict(case=d, observed=obs_json(obs)))
            if info.get("not_between"):
                stats["outside_exact_band_because_of_float_index"] += 1
                if len(observations["outside_exact_band_because_of_float_index"]) < 3:
                    observations["outside_exact_band_because_of_float_index"].append(
                        dict(case=d, observed=obs_json(obs), excess_binary=info["loss_excess_binary"],
                             excess_decimal=info["loss_excess_decimal"]))
            if info.get("index_float_vs_binary_level") and len(observations["float_index_vs_binary_level"]) < 2:
                observations["float_index_vs_binary_level"].append(dict(case=d, observed=obs_json(obs)))
        if bad:
            rec = dict(case=d, clauses=bad, observed=obs_json(obs))
            if info.get("overflow") or not info.get("finite_input", True):
                # 0.5 * (xl + xu) overflowed for finite data (a real range violation of C02 / C12, reported
                # separately), or the data contains infinities (outside the properties' quantifier)
                if info.get("overflow"):
                    overflow.append(rec)
            else:
                fails.append(rec)
    stats["distinct_doubles"] = len(alld)
    stats["distinct_levels"] = len(alll)
    return dicts, items, stats, fails, overflow, observations


def corr(outdir, prefix, seed, ncases, nmax):
    os.makedirs(outdir, exist_ok=True)
    dicts, items, stats, fails, overflow, observations = build(seed, ncases, nmax)
    paths = []
    for k, sh in enumerate(common.shard(items, SHARD)):
        p = os.path.join(os.path.abspath(outdir), f"{prefix}_{k}.v")
        write_shard(p, sh)
        paths.append(p)
    json.dump(dicts, open(os.path.join(outdir, prefix + "_cases.json"), "w"))
    nf = len(FIXED) + len(MALFORMED)
    pick = (items[0], items[nf], items[-1]) if len(items) > nf else (items[0],)
    samples = [dict(case=d, observed=obs_json(o)) for d, o in pick]
    return dict(paths=paths, shard_size=SHARD, stats=stats, samples=samples, property_failures=fails[:5],
                n_property_failures=len(fails), overflow_findings=overflow[:3], n_overflow_findings=len(overflow),
                observations=observations)


def is_fail(bad, info):
    return bool(bad) and info.get("finite_input", True) and not info.get("overflow")


def minimise(d):
    cur = dict(d)
    changed = True
    while changed and len(cur["y"]) > 1:
        changed = False
        for i in range(len(cur["y"])):
            c = dict(cur)
            c["y"] = cur["y"][:i] + cur["y"][i + 1:]
            bad, info, _, _ = judge_case(c)
            if is_fail(bad, info):
                cur, changed = c, True
                break
    return cur


def search(seed, budget):
    found, tried = [], 0
    stats = dict(index_pairs=0, index_out_of_range=0, index_differs_from_numpy=0, overflow_findings=0,
                 lower_above_upper_pairs=0)
    notes = dict(lower_above_upper=[])
    # (1) the index formula: in range and equal to numpy's own choice, on both sides of every k/m
    for m in range(1, 65):
        a = np.arange(m, dtype=float)
        qs = {0.0, 1.0, 5e-324, 1 - 2.0 ** -53, 0.5}
        for k in range(0, m + 1):
            b = float(np.float64(k) / np.float64(m))
            for s in (-2, -1, 0, 1, 2):
                v = ulp_step(b, s)
                if 0 <= v <= 1:
                    qs.add(v)
        for j in range(1, 100):
            qs.add(j / 100.0)
            qs.add(level_upper(j / 100.0))
        for q in qs:
            stats["index_pairs"] += 1
            k = np_index(m, q)
            if not 0 <= k <= m - 1:
                stats["index_out_of_range"] += 1
                found.append(dict(clauses=["inverted_cdf index out of range"], m=m, q=q.hex(), index=k))
            elif float(np.quantile(a, q, method="inverted_cdf")) != k:
                stats["index_differs_from_numpy"] += 1
                found.append(dict(clauses=["index formula differs from numpy"], m=m, q=q.hex(), index=k))
        # decimal levels: lower order statistic above the upper one (float index computation inconsistent)
        for j in range(1, 1000):
            lv = j / 1000.0
            kl, ku = np_index(m, lv), m - 1 - np_index(m, level_upper(lv))
            if kl > ku:
                stats["lower_above_upper_pairs"] += 1
                if len(notes["lower_above_upper"]) < 5:
                    notes["lower_above_upper"].append(dict(m=m, level=lv, lower_index=kl, upper_index=ku))
    # (2) small exhaustive space
    specials = [0.0, -0.0, 0.1, ulp_step(0.1, 1), 1.0, -1.0, 5e-324, 1e308]
    levels = [0.5, 0.25, 1 / 3, 0.1, 0.7, ulp_step(0.5, -1)]
    for n in range(1, 5):
        for ys in itertools.product(specials, repeat=n):
            for lv in levels:
                for inc in (True, False):
                    if tried >= budget or found:
                        break
                    d = dict(functional="quantile", y=hx(ys), w=None, level=lv.hex(), inc=inc, kind=None)
                    tried += 1
                    bad, info, obs, _ = judge_case(d)
                    stats["overflow_findings"] += bool(bad and info.get("overflow"))
                    if is_fail(bad, info):
                        found.append(dict(case=d, clauses=bad, observed=obs_json(obs)))
    # (3) seeded random
    rng = random.Random(seed)
    while not found and tried < budget:
        d = gen_case(rng, 16)
        tried += 1
        bad, info, obs, _ = judge_case(d)
        stats["overflow_findings"] += bool(bad and info.get("overflow"))
        if is_fail(bad, info):
            m = minimise(d)
            mb, _, mo, _ = judge_case(m)
            found.append(dict(case=m, clauses=mb, observed=obs_json(mo)))
    return dict(tried=tried, failures=found[:3], stats=stats, notes=notes)


def main():
    mode = sys.argv[1]
    if mode == "corr":
        outdir, prefix, seed, ncases, nmax = sys.argv[2:7]
        print(json.dumps(corr(outdir, prefix, int(seed), int(ncases), int(nmax))))
    elif mode == "judge":
        ds = json.load(open(sys.argv[2]))
        out, over, nnan = [], [], 0
        for d in ds:
            bad, info, obs, _ = judge_case(d)
            nnan += bool(info.get("nan"))
            if bad and info.get("overflow"):
                if len(over) < 3:
                    over.append(dict(case=d, clauses=bad, observed=obs_json(obs)))
            elif is_fail(bad, info):
                m = minimise(d) if not d.get("kind") else d
                mb, _, mo, _ = judge_case(m)
                out.append(dict(case=m, clauses=mb, observed=obs_json(mo)))
        print(json.dumps(dict(failures=out, judged=len(ds), nan_outputs=nnan, overflow_findings=over)))
    elif mode == "search":
        print(json.dumps(search(int(sys.argv[2]), int(sys.argv[3]))))
    elif mode == "selfcheck":
        outdir, prefix, seed, ncases, nmax = sys.argv[2:7]
        t00 = time.time()
        res = corr(outdir, prefix, int(seed), int(ncases), int(nmax))
        res["python_seconds"] = round(time.time() - t00, 2)
        times, summ = {}, {}
        t0 = time.time()
        for p in res["paths"]:
            t = time.time()
            out = common.run_coqc_parallel([p], jobs=1)[p]
            times[os.path.basename(p)] = round(time.time() - t, 2)
            ps = common.parse_summary(out[1])
            summ[os.path.basename(p)] = dict(rc=out[0], bad=None if ps is None else ps[0],
                                             counters=None if ps is None else ps[1], raw=None if ps else out[1][-400:])
        res["coqc_seconds_per_shard"] = times
        res["coqc_total_seconds"] = round(time.time() - t0, 2)
        res["summaries"] = summ
        res["all_empty"] = all(v["rc"] == 0 and v["bad"] == [] and v["counters"] and v["counters"][-1] == 0
                               for v in summ.values())
        print(json.dumps(res))
    else:
        raise SystemExit(__doc__)


if __name__ == "__main__":
    main()
