"""./check <ID> --replay <file>: re-executes a recorded violation against the CURRENT tree.

A replay file of kind "failing-input" holds the exact case (inputs of the public call) on which the property's
own statement failed; it is handed to the judge of the property's harness again.  A replay of kind
"broken-obligation" names the theorem / bridge / skeleton / comparator that no longer checked; replaying it means
running the whole check again.  Exit 1 + VIOLATION line if the violation is still there, exit 0 otherwise."""
import json
import os
import subprocess
import sys
import tempfile

import vlib

JUDGE_MODULE = {"C01": "run_iso", "C02": "run_iso", "C03": "run_iso", "C12": "run_iso", "C06": "run_decompose", "C07": "run_decompose",
                "C09": "run_bias", "C10": "run_marginal", "C11": "run_isofit", "C13": "run_binning", "C16": "run_pd", "C19": "run_plots",
                "C20": "run_validate"}


def run(pid, path):
    d = json.load(open(path))
    if d.get("kind") != "failing-input" or pid not in set(JUDGE_MODULE) | {"C04", "C05", "C08", "C14", "C15", "C17"} \
            or d.get("clauses") == ["model and implementation disagree"]:      # a correspondence disagreement: run the comparison again
        r = subprocess.run([os.path.join(vlib.VERIF, "check"), pid, "--tier", "quick"], cwd=vlib.VERIF)
        return r.returncode
    case = d.get("case")
    still = None
    if pid in JUDGE_MODULE:
        module = JUDGE_MODULE[pid]
        if isinstance(case, dict) and "ystyle" in case:
            # cases of the bit-exact float streams (doubles as hexadecimal strings) go back to their own harness
            module = "run_gpavaqfloat" if "lstyle" in case else "run_pavafloat"
        fd, tmp = tempfile.mkstemp(suffix=".json", dir=vlib.BUILD)
        os.close(fd)
        json.dump([case], open(tmp, "w"))
        rc, data, log = vlib.run_harness(module, ["judge", tmp])
        os.unlink(tmp)
        if data is None:
            print(log[-2000:])
            print(f"VIOLATION property={pid} replay={path} no-failing-input-found")
            return 1
        still = data.get("failures") or []
    elif pid == "C17":
        rc, data, log = vlib.run_harness("run_containers", ["run", 1, 150])
        fl = (data or {}).get("failures", [])
        still = [f for f in fl if f["case"].get("api") == case.get("api") and f["case"].get("container") == case.get("container")]
    else:
        rc, data, log = vlib.run_harness("run_scores", ["judge", pid, 1, "thorough"])
        fl = (data or {}).get("failures", [])
        still = [f for f in fl if f.get("case", {}).get("call") == case.get("call")] or fl
    if still:
        print(json.dumps(still[0], default=str)[:1500])
        print(f"VIOLATION property={pid} replay={path}")
        return 1
    print(f"{pid}: the recorded input no longer violates the property on the current tree")
    return 0
