"""Correspondence, judge and search for C20 (argument validation).

The descriptor space of coq/model/Validate.v is enumerated EXHAUSTIVELY per entry
point (full product of the axes the entry point takes; levels and bin numbers cut
at the guard boundaries; len(y_obs) a single observation or 5..10; every other length
as equal / shorter (>= 2) / longer / empty / exactly 1 against n >= 2), every
descriptor is concretised with `reps` random, otherwise valid data sets, the REAL
entry point is called and the class of the outcome is recorded:

    O  returned normally            V  ValueError (exact class or subclass)
    N  NotImplementedError          T  TypeError      S  polars ShapeError
    U  UnboundLocalError            X  anything else (never produced by the model)

  run_validate.py corr   <outdir> <prefix> <seed> <reps> <plot_reps> [entry,entry,...]
  run_validate.py judge  <cases.json>
  run_validate.py search <seed> <budget>

`corr` writes shards of 20000 cases for coq/corr/CmpValidate.v (one case = one
descriptor with the outcomes of all its replicates, packed into one uint63 literal:
`pack` here, `dec_case` there), <prefix>_cases.json (the descriptors in the same
order, as the 12+k character strings of `encode`; `decode` / mode judge read them)
and prints one JSON object on the last line; the work is
spread over VALIDATE_JOBS processes (default min(16, cpus)), the result does not
depend on the number of processes (one random.Random per descriptor, seeded by
"<seed>/<entry>/<index>").  The judge evaluates the TEXT of the property (functions
`clauses`, `judge_one`) on the implementation; it does not use the Coq model.
A failure of kind "accepted" means a violating call returned a result, kind "class"
means it raised, but not the class the text names.
"""
import itertools
import json
import os
import random
import sys
import warnings

import numpy as np
import polars as pl
import matplotlib

matplotlib.use("Agg")
import matplotlib.pyplot as plt  # noqa: E402

from model_diagnostics.calibration import (compute_bias, compute_marginal, identification_function,  # noqa: E402
                                           plot_bias, plot_marginal, plot_reliability_diagram)
from model_diagnostics.scoring import (ElementaryScore, GammaDeviance, HomogeneousExpectileScore,  # noqa: E402
                                       HomogeneousQuantileScore, LogLoss, PinballLoss, PoissonDeviance,
                                       SquaredError, decompose, plot_murphy_diagram)
from model_diagnostics._utils.array import validate_2_arrays, validate_same_first_dimension  # noqa: E402
from model_diagnostics._utils.binning import bin_feature  # noqa: E402
from model_diagnostics._utils.isotonic import IsotonicRegression, isotonic_regression  # noqa: E402
from model_diagnostics._utils.partial_dependence import compute_partial_dependence  # noqa: E402

from common import qlit, shard, write_case_file  # noqa: E402

warnings.simplefilter("ignore")
np.seterr(all="ignore")

# ------------------------------------------------------------------ the axes
TINY = 5e-324                      # smallest positive double
ONE_M = 1.0 - 2.0 ** -53           # largest double below 1
LEVELS = [-1.0, 0.0, TINY, 0.5, ONE_M, 1.0, 2.0]
FUNCS = ["mean", "median", "expectile", "quantile", "other"]
BMS = ["valid", "other"]
NBINS = [-1, 0, 1, 2, 3]
NOBS = ["many", "one"]             # len(y_obs): 5..10, or a single observation
# length of the other vector relative to n = len(y_obs): equal, 2 <= m < n, m > n, 0, or 1 (with n >= 2);
# for n = 1 only eq / longer / empty exist
RELS = ["eq", "shorter", "longer", "empty", "one"]
FEATS = [None] + RELS
WEIGHTS = [None] + [(rel, rank, sign) for rel in ("eq", "shorter", "longer", "one") for rank in (1, 2)
                    for sign in ("pos", "zero", "neg")] + [("empty", 1, "pos"), ("empty", 2, "pos")]
KINDS = ["HomogeneousExpectileScore", "SquaredError", "PoissonDeviance", "GammaDeviance", "LogLoss",
         "HomogeneousQuantileScore", "PinballLoss", "ElementaryScore"]
VALID_BM = ["quantile", "uniform", "auto", "fd", "doane", "scott", "stone", "rice", "sturges", "sqrt"]
OTHER_BM = ["foo", "Quantile", "", "uniforms", "sturge", "kmeans", None, 3]
OTHER_F = ["foo", "Mean", "", "quantiles", "means", "expectiles", "MEDIAN", None, 7]

# axes enumerated per entry point (= the documented arguments the entry point takes)
AXES = {
    "ident": ["nobs", "level", "functional", "pred"],
    "bias": ["nobs", "level", "functional", "bm", "nbins", "pred", "feat", "weights"],
    "marginal": ["nobs", "bm", "nbins", "pred", "feat", "weights"],
    "ctor": ["kind", "level", "functional"],
    "per_obs": ["nobs", "kind", "level", "functional", "pred"],
    "call": ["nobs", "kind", "level", "functional", "pred", "weights"],
    "decompose": ["nobs", "level", "functional", "pred", "weights"],
    "decompose_infer": ["nobs", "kind", "level", "functional", "pred", "weights"],
    "isoreg": ["nobs", "level", "functional", "weights"],
    "isofit": ["nobs", "level", "functional", "pred", "weights"],
    "bin_feature": ["nobs", "bm", "nbins", "featreq"],
    "pd": ["nobs", "weights"],
    "plot_rel": ["nobs", "level", "functional", "pred", "weights"],
    "plot_bias": ["nobs", "level", "functional", "bm", "nbins", "pred", "feat", "weights"],
    "plot_marginal": ["nobs", "bm", "nbins", "pred", "feat", "weights"],
    "plot_murphy": ["nobs", "level", "functional", "pred", "weights"],
    "val2": ["nobs", "pred"],
    "valsame": ["nobs", "pred"],
}
PLOT_ENTRIES = {"plot_rel", "plot_bias", "plot_marginal", "plot_murphy"}
AXIS_VALUES = {"nobs": NOBS, "level": LEVELS, "functional": FUNCS, "bm": BMS, "nbins": NBINS, "pred": RELS, "feat": FEATS,
               "featreq": RELS, "weights": WEIGHTS, "kind": KINDS}
COQ_ENTRY = {"ident": "E_ident", "bias": "E_bias", "marginal": "E_marginal", "ctor": "E_ctor", "per_obs": "E_per_obs",
             "call": "E_call", "decompose": "E_decompose", "decompose_infer": "E_decompose_infer",
             "isoreg": "E_isoreg", "isofit": "E_isofit", "bin_feature": "E_bin_feature", "pd": "E_pd",
             "plot_rel": "E_plot_rel", "plot_bias": "E_plot_bias", "plot_marginal": "E_plot_marginal",
             "plot_murphy": "E_plot_murphy", "val2": "E_val2", "valsame": "E_valsame"}
COQ_F = {"mean": "Fmean", "median": "Fmedian", "expectile": "Fexpectile", "quantile": "Fquantile", "other": "Fother"}
COQ_K = {"HomogeneousExpectileScore": "KHES", "SquaredError": "KSquared", "PoissonDeviance": "KPoisson",
         "GammaDeviance": "KGamma", "LogLoss": "KLogLoss", "HomogeneousQuantileScore": "KHQS",
         "PinballLoss": "KPinball", "ElementaryScore": "KElementary"}
COQ_SIGN = {"pos": "AllPos", "zero": "HasZero", "neg": "HasNeg"}
COQ_OUT = {"O": "Ok", "V": "ValueError", "N": "NotImplementedError", "T": "(OtherException TypeErr)",
           "S": "(OtherException ShapeErr)", "U": "(OtherException UnboundLocal)", "X": "(OtherException Unexpected)"}


def rel_len(rel, n, rng):
    if rel == "eq":
        return n
    if rel == "shorter":
        return rng.randrange(2, n)
    if rel == "longer":
        return n + rng.randrange(1, 4)
    if rel == "one":
        return 1
    return 0


def grid_point_ok(entry, a):
    """the combinations of axis values that exist"""
    one = a.get("nobs") == "one"
    rels = [a.get("pred"), a.get("feat"), a.get("featreq")] + ([a["weights"][0]] if a.get("weights") else [])
    if one and any(r in ("shorter", "one") for r in rels):
        return False                                  # for n = 1: "one" is "eq", "shorter" is "empty"
    w = a.get("weights")
    if w is not None and w[2] != "pos" and (w[0] == "one" or (one and w[0] == "eq")):
        # A weight vector of length 1 with a non-positive entry has NO positive weight: numpy.average raises
        # ZeroDivisionError for a zero sum, scikit-learn "0 samples" - data effects that the sign classes
        # (some entry non-positive, the others positive) do not describe.  Kept where the sign is an argument
        # check of its own: isotonic_regression and IsotonicRegression.fit.
        return entry in ("isoreg", "isofit")
    return True


_GRID = {}


def grid(entry):
    """every existing point of the product of the entry's axes"""
    if entry not in _GRID:
        axes = AXES[entry]
        pts = [dict(zip(axes, vals)) for vals in itertools.product(*[AXIS_VALUES[a] for a in axes])]
        _GRID[entry] = [a for a in pts if grid_point_ok(entry, a)]
    return _GRID[entry]


def descriptor_at(entry, a, rng):
    """the descriptor of grid point a, with concrete lengths; None for the skipped corner"""
    n = 1 if a.get("nobs") == "one" else rng.randrange(5, 11)
    d = dict(entry=entry, level=a.get("level", 0.5), functional=a.get("functional", "mean"),
             bm=a.get("bm", "valid"), n_bins=a.get("nbins", 10), n_obs=n,
             n_pred=rel_len(a.get("pred", "eq"), n, rng), n_feat=None, n_w=None, rank=1, sign="pos",
             kind=a.get("kind", "SquaredError"))
    f = a.get("feat", a.get("featreq"))
    if f is not None:
        d["n_feat"] = rel_len(f, n, rng)
    w = a.get("weights")
    if w is not None:
        d["n_w"], d["rank"], d["sign"] = rel_len(w[0], n, rng), w[1], w[2]
    return None if skip(d) else d


def eff_functional(d):
    """the functional decompose works with"""
    if d["entry"] == "decompose":
        return d["functional"]
    k = d["kind"]
    if k == "HomogeneousExpectileScore":
        return "mean" if d["level"] == 0.5 else "expectile"
    if k in ("HomogeneousQuantileScore", "PinballLoss"):
        return "quantile"
    return d["functional"] if k == "ElementaryScore" else "mean"


def skip(d):
    """No corner is left out any more.  (Until /repo commit e264e60 decompose on the scikit-learn route with
    correctly shaped non-positive weights gave NaN predictions at dropped extreme samples and a data-dependent
    outcome; with out_of_bounds="clip" the call returns a table, as the model says.)"""
    return False


# ------------------------------------------------------------------ concretisation
def rnd_vec(rng, n):
    """values in (0.1, 0.9): valid for every scoring function (LogLoss, Gamma, Poisson included)"""
    mode = rng.randrange(4)
    if mode == 0:
        v = [rng.choice([0.25, 0.5, 0.75]) for _ in range(n)]          # ties
    elif mode == 1:
        v = [rng.randrange(1, 8) / 8 for _ in range(n)]                 # dyadics
    else:
        v = [rng.uniform(0.1, 0.9) for _ in range(n)]
    if n >= 2 and min(v) == max(v):
        v[0] = 0.125 if v[0] != 0.125 else 0.375
    return v


def container(rng, v, allow_series=True):
    k = rng.randrange(3 if allow_series else 2)
    if k == 0:
        return np.array(v, dtype=float)
    if k == 1:
        return [float(x) for x in v]
    return pl.Series(values=[float(x) for x in v], dtype=pl.Float64)


def make_weights(rng, d):
    if d["n_w"] is None:
        return None
    n = d["n_w"]
    cols = 1 if d["rank"] == 1 else rng.randrange(1, 4)
    w = np.array([[rng.uniform(0.5, 2.0) for _ in range(cols)] for _ in range(n)], dtype=float).reshape(n, cols)
    if n > 0 and d["sign"] != "pos":
        k = rng.randrange(1, max(2, n // 2))
        # the first weight stays positive: decompose evaluates scoring_function(y[:1], ., w[:1]) and numpy.average
        # divides by that single weight (ZeroDivisionError) - a data effect, not an argument check
        idx = rng.sample(range(1, n), min(k, n - 1)) if n > 1 else [0]
        for i in idx:
            w[i, rng.randrange(cols)] = 0.0 if d["sign"] == "zero" else -rng.uniform(0.05, 0.3)
        if d["sign"] == "neg" and rng.random() < 0.3 and n > 2:          # a zero next to a negative one
            j = rng.choice([i for i in range(1, n) if i not in idx] or [idx[0]])
            w[j, 0] = 0.0
    if d["rank"] == 1:
        w = w[:, 0]
    return w if rng.random() < 0.7 else w.tolist()


def make_feature(rng, n):
    k = rng.randrange(4)
    # a third of the features contain missing values (NaN / null): they take another path through bin_feature (the null
    # bin is split off before the number of bins is looked at), and every argument guard has to hold there as well
    holes = set(rng.sample(range(n), rng.randrange(1, max(2, n // 2 + 1)))) if n >= 2 and rng.random() < 0.35 else set()
    if k == 0:
        return np.array([np.nan if i in holes else rng.uniform(-3, 3) for i in range(n)], dtype=float)
    if k == 1:
        if holes:
            return pl.Series("f", [None if i in holes else rng.randrange(0, 6) for i in range(n)], dtype=pl.Int64)
        return np.array([rng.randrange(0, 6) for _ in range(n)], dtype=np.int64)
    vals = [None if i in holes else rng.choice(["a", "b", "c", "dd"]) for i in range(n)]
    if k == 2:
        return vals if rng.random() < 0.5 else pl.Series("f", vals)
    return pl.Series("cat", vals, dtype=pl.Categorical)


def make_X(rng, n):
    ncol = rng.randrange(2, 4)
    X = np.array([[rng.uniform(-3, 3) for _ in range(ncol)] for _ in range(n)], dtype=float).reshape(n, ncol)
    j = rng.randrange(ncol)
    if rng.random() < 0.3:
        names = ["c%d" % i for i in range(ncol)]
        return pl.DataFrame({nm: X[:, i] for i, nm in enumerate(names)}), names[j], None
    pf = (lambda Z: np.asarray(Z)[:, 0] * 0.25 + 0.5) if rng.random() < 0.5 else None
    return X, j, pf


def fname(rng, d):
    if d["functional"] != "other":
        return d["functional"]
    # functional=None means "infer from the scoring function" for decompose
    return rng.choice([f for f in OTHER_F if f is not None or d["entry"] != "decompose"])


def bmname(rng, d, i):
    return VALID_BM[(i + rng.randrange(10)) % 10] if d["bm"] == "valid" else rng.choice(OTHER_BM)


def make_pred(rng, d, two_d=False):
    n = d["n_pred"]
    if two_d:
        k = 2 if two_d == "force" else rng.randrange(1, 4)
        return np.array([rnd_vec(rng, k) if k > 1 else [rng.uniform(0.1, 0.9)] for _ in range(n)], dtype=float).reshape(n, k)
    return None


def scoring_ctor(rng, d):
    """thunk building the scoring function of kind d['kind'] with the descriptor's level / functional"""
    k, lvl = d["kind"], d["level"]
    if k == "HomogeneousExpectileScore":
        deg = rng.choice([2, 1, 0, 1.5, 3, -1, 0.5])
        return lambda: HomogeneousExpectileScore(degree=deg, level=lvl)
    if k == "HomogeneousQuantileScore":
        deg = rng.choice([1, 2, 3, 0, 0.5])
        return lambda: HomogeneousQuantileScore(degree=deg, level=lvl)
    if k == "PinballLoss":
        return lambda: PinballLoss(level=lvl)
    if k == "ElementaryScore":
        eta, f = rng.uniform(0.2, 0.8), fname(rng, d)
        return lambda: ElementaryScore(eta=eta, functional=f, level=lvl)
    return {"SquaredError": SquaredError, "PoissonDeviance": PoissonDeviance, "GammaDeviance": GammaDeviance,
            "LogLoss": LogLoss}[k]


def concretise(d, rng, i=0):
    """-> zero-argument callable running the real entry point on a random data set that is valid in
    everything the descriptor does not fix"""
    e = d["entry"]
    y = container(rng, rnd_vec(rng, d["n_obs"]))
    # an EMPTY polars Series has min() = None instead of numpy's ValueError (plots.py 154 / 120): ndarray or list there
    p1 = container(rng, rnd_vec(rng, d["n_pred"]), allow_series=not (e in ("plot_rel", "plot_murphy") and d["n_pred"] == 0))
    w = make_weights(rng, d)
    lvl = d["level"]
    if e == "ident":
        f = fname(rng, d)
        return lambda: identification_function(y, p1, functional=f, level=lvl)
    if e in ("val2", "valsame"):
        fn = validate_2_arrays if e == "val2" else validate_same_first_dimension
        return lambda: fn(y, p1)
    if e in ("bias", "plot_bias"):
        f, bm = fname(rng, d), bmname(rng, d, i)
        feat = None if d["n_feat"] is None else make_feature(rng, d["n_feat"])
        # plot_bias without a feature plots over the models: needs >= 2 prediction columns
        p = make_pred(rng, d, "force") if (e == "plot_bias" and feat is None) else (
            make_pred(rng, d, True) if rng.random() < 0.25 else p1)
        fn = compute_bias if e == "bias" else plot_bias
        return lambda: fn(y, p, feature=feat, weights=w, functional=f, level=lvl, n_bins=d["n_bins"], bin_method=bm)
    if e in ("marginal", "plot_marginal"):
        bm = bmname(rng, d, i)
        if d["n_feat"] is None:
            X, name, pf = None, (None if e == "marginal" else 0), None
        else:
            X, name, pf = make_X(rng, d["n_feat"])
        if e == "marginal":
            p = make_pred(rng, d, True) if rng.random() < 0.25 else p1
            return lambda: compute_marginal(y, p, X=X, feature_name=name, predict_function=pf, weights=w,
                                            n_bins=d["n_bins"], bin_method=bm)
        return lambda: plot_marginal(y, p1, X=X, feature_name=name, predict_function=pf, weights=w,
                                     n_bins=d["n_bins"], bin_method=bm)
    if e == "ctor":
        return scoring_ctor(rng, d)
    if e == "per_obs":
        c = scoring_ctor(rng, d)
        return lambda: c().score_per_obs(y, p1)
    if e == "call":
        c = scoring_ctor(rng, d)
        return lambda: c()(y, p1, w)
    if e == "decompose":
        f = fname(rng, d)
        ok_lvl = lvl if 0 < lvl < 1 else 0.3
        sf = {"mean": SquaredError(), "median": PinballLoss(0.5), "expectile": HomogeneousExpectileScore(2, ok_lvl),
              "quantile": PinballLoss(ok_lvl)}.get(d["functional"], SquaredError())
        p = make_pred(rng, d, True) if rng.random() < 0.25 else p1
        return lambda: decompose(y, p, w, scoring_function=sf, functional=f, level=lvl)
    if e == "decompose_infer":
        c = scoring_ctor(rng, d)
        return lambda: decompose(y, p1, w, scoring_function=c())
    if e == "isoreg":
        f, inc = fname(rng, d), rng.random() < 0.7
        return lambda: isotonic_regression(y, w, increasing=inc, functional=f, level=lvl)
    if e == "isofit":
        f = fname(rng, d)
        return lambda: IsotonicRegression(functional=f, level=lvl).fit(p1, y, w)
    if e == "bin_feature":
        bm, feat = bmname(rng, d, i), make_feature(rng, d["n_feat"])
        return lambda: _bin_feature(feat, d["n_obs"], d["n_bins"], bm)
    if e == "pd":
        X, j, _ = make_X(rng, d["n_obs"])
        ng = rng.randrange(1, 4)
        # numpy.average accepts 2-d weights whose shape happens to equal (n_grid, n); model/Validate.v (pd_core) describes
        # the case shape != (n_grid, n) only (the weights of this helper are not among the clauses of C20), so the
        # grid length avoids that coincidence
        if w is not None and np.ndim(w) == 2 and np.shape(w) == (ng, d["n_obs"]):
            ng = ng % 3 + 1
        grid = pl.Series([0.5, 1.5, 2.5][:ng])
        return lambda: compute_partial_dependence(lambda Z: np.asarray(Z)[:, 0] * 0.25 + 0.5, np.asarray(X), 0, grid, w)
    if e == "plot_rel":
        f, dt = fname(rng, d), rng.choice(["reliability", "bias"])
        p = make_pred(rng, d, True) if rng.random() < 0.25 else p1
        return lambda: plot_reliability_diagram(y, p, w, functional=f, level=lvl, diagram_type=dt)
    if e == "plot_murphy":
        if d["n_obs"] == 1 and d["n_pred"] == 1 and float(np.asarray(y)[0]) == float(np.asarray(p1)[0]):
            p1 = np.array([float(np.asarray(y)[0]) / 2])   # "all values are one single and same value" is not an argument check
        f, etas = fname(rng, d), rng.choice([3, 7])
        p = make_pred(rng, d, True) if rng.random() < 0.25 else p1
        return lambda: plot_murphy_diagram(y, p, w, etas=etas, functional=f, level=lvl)
    raise KeyError(e)


def _bin_feature(feat, n_obs, n_bins, bm):
    with pl.StringCache():
        return bin_feature(feat, None, n_obs, n_bins, bm)


_calls = [0]


def observe(thunk):
    """(code, class name, result)"""
    _calls[0] += 1
    try:
        r = thunk()
    except NotImplementedError as ex:
        return "N", type(ex).__name__, None
    except ValueError as ex:
        return "V", type(ex).__name__, None
    except UnboundLocalError as ex:
        return "U", type(ex).__name__, None
    except TypeError as ex:
        return "T", type(ex).__name__, None
    except pl.exceptions.ShapeError as ex:
        return "S", type(ex).__name__, None
    except Exception as ex:  # noqa: BLE001
        return "X", type(ex).__name__, None
    finally:
        if _calls[0] % 50 == 0:
            plt.close("all")
    return "O", "", r


# ------------------------------------------------------------------ the property text, evaluated directly
HAS_LEVEL_ARG = {"HomogeneousExpectileScore", "HomogeneousQuantileScore", "PinballLoss", "ElementaryScore"}
VE_CLAUSES = ["level", "functional", "bin_method", "n_bins", "y_obs / y_pred length", "feature length",
              "weights length / dimension", "non-positive weights"]
F_ENTRIES = ("ident", "bias", "plot_bias", "decompose", "isoreg", "isofit", "plot_rel", "plot_murphy")
CLASS_ENTRIES = ("ctor", "per_obs", "call", "decompose_infer")
PRED_ENTRIES = ("ident", "bias", "marginal", "per_obs", "call", "decompose", "decompose_infer", "isofit", "plot_rel",
                "plot_bias", "plot_marginal", "plot_murphy", "val2", "valsame")


def clauses(d):
    """Which clauses of the property text descriptor d violates at its entry point (the same reading as
    `violates` in coq/proofs/ValidateProps.v, written independently of the model):
      * the level counts where it is documented as used (expectile / quantile; the scoring classes for
        expectiles / quantiles always use it; "mean / median: level is neglected");
      * bin method / bin number count where a feature is binned;
      * a constructor returns no table, fit or score: an unknown functional stored by ElementaryScore.__init__
        must be rejected by score_per_obs / __call__;
      * the weights clause names compute_bias, compute_marginal, decompose, isotonic regression (the plot wrappers
        of the first two and plot_reliability_diagram, which draws an isotonic regression, are held to the same);
        for a scoring function (and plot_murphy_diagram, which calls one) mis-shaped weights must raise some
        exception."""
    e, f, k = d["entry"], d["functional"], d["kind"]
    uses = lambda g: g in ("expectile", "quantile")  # noqa: E731
    fun_arg = f if (e in F_ENTRIES or (e in CLASS_ENTRIES and k == "ElementaryScore")) else None
    if e in CLASS_ENTRIES:
        lvl_rel = k in ("HomogeneousExpectileScore", "HomogeneousQuantileScore", "PinballLoss") or (
            k == "ElementaryScore" and uses(f))
    else:
        lvl_rel = fun_arg is not None and uses(fun_arg)
    feat = d["n_feat"] if e in ("bias", "marginal", "plot_bias", "plot_marginal") else (
        (d["n_feat"] or 0) if e == "bin_feature" else None)
    weighted = d["n_w"] is not None
    w_mis = weighted and (d["n_w"] != d["n_obs"] or d["rank"] != 1)
    iso_f = f if e in ("isoreg", "isofit", "plot_rel", "decompose") else (
        eff_functional(d) if e == "decompose_infer" else None)
    return {
        "level": lvl_rel and not 0 < d["level"] < 1,
        "functional": e != "ctor" and fun_arg == "other",
        "bin_method": feat is not None and d["bm"] == "other",
        "n_bins": feat is not None and d["n_bins"] < 2,
        "y_obs / y_pred length": e in PRED_ENTRIES and d["n_obs"] != d["n_pred"],
        "feature length": feat is not None and feat != d["n_obs"],
        "weights length / dimension": e in ("bias", "marginal", "decompose", "decompose_infer", "isoreg", "plot_bias",
                                            "plot_marginal", "plot_rel") and w_mis,
        "non-positive weights": e == "isoreg" and weighted and d["sign"] != "pos",
        "weighted quantile regression": weighted and iso_f in ("quantile", "median"),
        "mis-shaped weights (any exception)": e in ("call", "plot_murphy", "isofit", "pd") and w_mis,
        "non-positive weights (private class)": e == "isofit" and weighted and d["sign"] != "pos",
    }


def stricter_than_documented(d):
    """ElementaryScore.__init__ rejects a level outside (0, 1) also for mean / median, where the documentation
    says the level is neglected.  Not asked for by C20, not forbidden either; the judge only uses it to not
    demand NotImplementedError from a decompose call whose scoring object cannot even be built."""
    return (d["entry"] in CLASS_ENTRIES + ("plot_murphy",) and (d["kind"] == "ElementaryScore" or d["entry"] == "plot_murphy")
            and d["functional"] not in ("expectile", "quantile") and not 0 < d["level"] < 1)


def judge_one(d, codes):
    """Failures of the property text on one descriptor, given the outcome codes of its replicates.
    kind "accepted": a violating call returned a result (the serious kind);
    kind "class": an exception was raised, but not of the class the text names."""
    c = clauses(d)
    viol = [k for k, v in c.items() if v]
    if not viol:
        return []
    out = []
    if "O" in codes:
        out.append(dict(kind="accepted", clauses=viol, required="an exception", observed=codes))
        return out
    if d["entry"] == "isofit":               # private class: no exception class is claimed
        return out
    wq = c["weighted quantile regression"]
    if any(c[k] for k in VE_CLAUSES):
        allowed = "VN" if wq else "V"
    elif wq and not c["mis-shaped weights (any exception)"] and not stricter_than_documented(d):
        allowed = "N"
    else:
        return out
    if any(x not in allowed for x in codes):
        out.append(dict(kind="class", clauses=viol, required="/".join({"V": "ValueError", "N": "NotImplementedError"}[a]
                                                                      for a in allowed), observed=codes))
    return out


# ------------------------------------------------------------------ Coq case text
ENTRY_CH = {e: chr(97 + k) for k, e in enumerate(AXES)}
F_CH = {"mean": "m", "median": "d", "expectile": "e", "quantile": "q", "other": "o"}
NBINS_TAB = [-1, 0, 1, 2, 3, 10]
SIGN_CH = {"pos": "p", "zero": "z", "neg": "n"}


def encode(d, codes=""):
    """12 characters per descriptor (decoded by corr/CmpValidate.v: dec_case) + the outcome codes"""
    ln = lambda v: "-" if v is None else chr(65 + v)  # noqa: E731
    assert all(v is None or 0 <= v <= 25 for v in (d["n_obs"], d["n_pred"], d["n_feat"], d["n_w"]))
    return (ENTRY_CH[d["entry"]] + str(LEVELS.index(d["level"])) + F_CH[d["functional"]]
            + ("v" if d["bm"] == "valid" else "o") + str(NBINS_TAB.index(d["n_bins"])) + ln(d["n_obs"]) + ln(d["n_pred"])
            + ln(d["n_feat"]) + ln(d["n_w"]) + str(d["rank"]) + SIGN_CH[d["sign"]] + str(KINDS.index(d["kind"])) + codes)


CODE_IX = {c: k for k, c in enumerate("OVNTSUX")}


def pack(d, codes):
    """the descriptor and its outcome codes as one 63-bit integer (bit layout: corr/CmpValidate.v, dec_case)"""
    ol = lambda v: 0 if v is None else v + 1  # noqa: E731
    assert max(d["n_obs"], d["n_pred"], ol(d["n_feat"]), ol(d["n_w"])) < 32 and len(codes) <= 3
    fields = [(list(AXES).index(d["entry"]), 5), (LEVELS.index(d["level"]), 3), (FUNCS.index(d["functional"]), 3),
              (0 if d["bm"] == "valid" else 1, 1), (NBINS_TAB.index(d["n_bins"]), 3), (d["n_obs"], 5), (d["n_pred"], 5),
              (ol(d["n_feat"]), 5), (ol(d["n_w"]), 5), (d["rank"] - 1, 1), (["pos", "zero", "neg"].index(d["sign"]), 2),
              (KINDS.index(d["kind"]), 3), (len(codes), 2)] + [(CODE_IX[c], 3) for c in codes]
    x, off = 0, 0
    for v, w in fields:
        assert 0 <= v < (1 << w)
        x |= v << off
        off += w
    return x


def decode(s):
    """inverse of encode -> (descriptor dict, codes)"""
    ln = lambda c: None if c == "-" else ord(c) - 65  # noqa: E731
    inv = lambda m, c: next(k for k, v in m.items() if v == c)  # noqa: E731
    d = dict(entry=inv(ENTRY_CH, s[0]), level=LEVELS[int(s[1])], functional=inv(F_CH, s[2]),
             bm="valid" if s[3] == "v" else "other", n_bins=NBINS_TAB[int(s[4])], n_obs=ln(s[5]), n_pred=ln(s[6]),
             n_feat=ln(s[7]), n_w=ln(s[8]), rank=int(s[9]), sign=inv(SIGN_CH, s[10]), kind=KINDS[int(s[11])])
    return d, s[12:]


CHUNK = 4000
SHARD = 20000


def run_chunk(task):
    """(entry, seed, reps, lo, hi) -> [(descriptor, codes)], {exception class name: count}"""
    entry, seed, reps, lo, hi = task
    g = grid(entry)
    out, names = [], {}
    for i in range(lo, min(hi, len(g))):
        rng = random.Random(f"{seed}/{entry}/{i}")
        d = descriptor_at(entry, g[i], rng)
        if d is None:
            continue
        codes = ""
        for r in range(reps):
            c, nm, _ = observe(concretise(d, rng, i + r))
            codes += c
            if c not in "OVN":
                names[nm] = names.get(nm, 0) + 1
        out.append((d, codes))
    plt.close("all")
    return out, names, _calls[0]


def _init_worker():
    warnings.simplefilter("ignore")
    np.seterr(all="ignore")


def run_all(entries, seed, reps, plot_reps, jobs):
    tasks = []
    for e in entries:
        n = len(grid(e))
        for lo in range(0, n, CHUNK):
            tasks.append((e, seed, plot_reps if e in PLOT_ENTRIES else reps, lo, lo + CHUNK))
    if jobs <= 1:
        results = [run_chunk(t) for t in tasks]
        calls = _calls[0]
    else:
        import multiprocessing as mp
        with mp.get_context("spawn").Pool(jobs, initializer=_init_worker) as pool:
            results = pool.map(run_chunk, tasks, chunksize=1)
        calls = None
    per_entry = {}
    for t, (out, names, _) in zip(tasks, results):
        pe = per_entry.setdefault(t[0], dict(cases=[], names={}))
        pe["cases"] += out
        for k, v in names.items():
            pe["names"][k] = pe["names"].get(k, 0) + v
    return per_entry, calls


def main_corr(argv):
    outdir, prefix, seed, reps, plot_reps = argv[0], argv[1], argv[2], int(argv[3]), int(argv[4])
    entries = argv[5].split(",") if len(argv) > 5 and argv[5] else list(AXES)
    jobs = int(os.environ.get("VALIDATE_JOBS", min(16, os.cpu_count() or 1)))
    per_entry, _ = run_all(entries, seed, reps, plot_reps, jobs)
    allc, stats, pfails, unstable, ncalls = [], {}, [], [], 0
    for e in entries:
        cases, hist, nviol = per_entry[e]["cases"], {}, 0
        for d, codes in cases:
            ncalls += len(codes)
            hist[codes[0]] = hist.get(codes[0], 0) + 1
            if len(set(codes)) > 1:
                unstable.append(dict(case=d, observed=codes))
            nviol += any(clauses(d).values())
            for f in judge_one(d, codes):
                pfails.append(dict(case=d, **f))
        stats[e] = dict(descriptors=len(cases), grid_points=len(grid(e)), outcome_hist=hist,
                        other_exception_classes=per_entry[e]["names"], violating_descriptors=nviol)
        allc += cases
    os.makedirs(outdir, exist_ok=True)
    paths, size = [], SHARD
    for k, sh in enumerate(shard(allc, size)):
        p = os.path.join(os.path.abspath(outdir), f"{prefix}_{k}.v")
        blocks = ["[" + "; ".join(str(pack(d, c)) for d, c in sh[b:b + 500]) + "]" for b in range(0, len(sh), 500)]
        body = ("Open Scope uint63_scope.\nDefinition cases : list (list int) := [\n  " + ";\n  ".join(blocks)
                + "\n]%list.\nClose Scope uint63_scope.")
        write_case_file(p, "From MD Require Import model.Validate corr.Decode corr.CmpValidate.", body, "summary_int cases")
        paths.append(p)
    # the descriptors in the same order, in the compact encoding (run_validate.decode / mode `judge` read it)
    json.dump([encode(d, c) for d, c in allc], open(os.path.join(outdir, prefix + "_cases.json"), "w"))
    samples = [dict(d, observed=c) for d, c in allc if c[0] != "V"][:: max(1, len(allc) // 60)][:3]
    accepted = [f for f in pfails if f["kind"] == "accepted"]
    wrong_class = [f for f in pfails if f["kind"] == "class"]
    groups = {}
    for f in wrong_class:
        offending = [c for c in f["observed"] if {"V": "ValueError", "N": "NotImplementedError"}.get(c, "?") not in f["required"]]
        key = f"{f['case']['entry']}: {(offending or ['?'])[0]} instead of {f['required']}"
        groups[key] = groups.get(key, 0) + 1
    print(json.dumps(dict(paths=paths, shard_size=size,
                          stats=dict(total_descriptors=len(allc), real_calls=ncalls, per_entry=stats,
                                     data_dependent_outcomes=unstable[:5], n_data_dependent=len(unstable),
                                     property_failures_accepted=len(accepted), property_failures_class=len(wrong_class),
                                     property_failures_class_groups=groups),
                          samples=samples, property_failures=accepted[:10] + wrong_class[:10])))


def main_judge(argv):
    dicts = json.load(open(argv[0]))
    fails = []
    for k, d in enumerate(dicts):
        d = decode(d)[0] if isinstance(d, str) else {kk: v for kk, v in d.items() if kk != "observed"}
        rng = random.Random(f"judge/{k}")
        codes = "".join(observe(concretise(d, rng, r))[0] for r in range(3))
        for f in judge_one(d, codes):
            fails.append(dict(case=d, clauses=f["clauses"],
                              observed=f"{f['kind']}: outcome classes {codes}, required {f['required']}"))
    print(json.dumps(dict(failures=fails)))


def main_search(argv):
    """directed search on the implementation: every VIOLATING descriptor of every entry point the text covers
    (exhaustive, the space is small), then random re-concretisations until the budget is used"""
    seed, budget = argv[0], int(argv[1])
    tried, fails = 0, []
    # per entry point: the violating descriptors, those that violate a SINGLE clause first (nothing masks the guard
    # in question), then round robin over the entry points so that a small budget still reaches all of them
    queues = []
    for e in AXES:
        q = []
        for i, a in enumerate(grid(e)):
            rng = random.Random(f"search/{seed}/{e}/{i}")
            d = descriptor_at(e, a, rng)
            if d is None:
                continue
            nv = sum(clauses(d).values())
            if nv:
                q.append((nv, i, d, rng))
        q.sort(key=lambda t: (t[0], t[1]))
        queues.append(q)
    pos = 0
    while tried < budget and any(pos < len(q) for q in queues):
        for q in queues:
            if pos < len(q) and tried < budget:
                _, i, d, rng = q[pos]
                tried += 1
                codes = observe(concretise(d, rng, i))[0]
                for f in judge_one(d, codes):
                    fails.append(dict(case=d, clauses=f["clauses"],
                                      observed=f"{f['kind']}: outcome class {codes}, required {f['required']}"))
        pos += 1
    plt.close("all")
    # "accepted" before "class", then fewest simultaneously violated clauses
    fails.sort(key=lambda f: (not f["observed"].startswith("accepted"), len(f["clauses"])))
    print(json.dumps(dict(tried=tried, n_failures=len(fails), failures=fails[:20])))


if __name__ == "__main__":
    mode = sys.argv[1]
    {"corr": main_corr, "judge": main_judge, "search": main_search}[mode](sys.argv[2:])
