"""Correspondence / judge / search harness for C16 (compute_partial_dependence).

  run_pd.py corr   <outdir> <prefix> <seed> <ncases> <nmax>
      structured cases from ONE random.Random(seed); runs the REAL function, writes Coq shards
      (coq/corr/CmpPartialDep.v) + <prefix>_cases.json; last stdout line = JSON
      {paths, shard_size, stats, samples, property_failures}
  run_pd.py judge  <cases.json>
      re-runs the case dicts on the implementation and evaluates the PROPERTY's own statement
      (brute-force definitional partial dependence with Fractions, rows handed to the
      predictor, purity, seed determinism); prints {"failures": [...]}
  run_pd.py search <seed> <budget>
      small exhaustive space first, then seeded random; prints {"tried": n, "failures": [...]}

The predictor of a case is data (same family as corr/CmpPartialDep.v):
    f(row) = c0 + sum_k cs[k]*row[k] + d*row[a]*row[b] + (h if row[s] <= t else 0)
evaluated EXACTLY (Fractions) on whatever matrix the real function hands over, which is also
recorded (every call, every row)."""
import copy
import itertools
import json
import os
import random
import sys
import warnings
from fractions import Fraction

import numpy as np
import polars as pl

from common import natlist, qlit, qlist, shard, write_case_file
from model_diagnostics._utils.partial_dependence import compute_partial_dependence

warnings.simplefilter("ignore")
np.seterr(all="ignore")

# containers whose feature column is stored as integers, so that the assignment of the grid CASTS
# (truncates) - the behaviour of the unchanged tree (defect D9), modelled by coltype CInt.  After a
# repair of safe_assign_column (fix 6654639 in /repo) every container is CFloat: that is the default now;
# PD_INT_STORED="i64,polarsint" restores the pre-fix model (used to demonstrate the finding).
INT_STORED = tuple(c for c in os.environ.get("PD_INT_STORED", "").split(",") if c)
CONTAINERS = ("f64", "i64", "list", "listint", "listnd", "polars", "polarsint", "polarsmix", "polarsuint")
INT_DATA = ("i64", "listint", "polarsint", "polarsmix", "polarsuint")
JUDGE_TOL = Fraction(1, 10 ** 9)


# ----------------------------------------------------------------------------- containers
def num(v, as_int):
    return int(v) if as_int else float(v)


def build_X(d):
    c, X, j = d["container"], d["X"], d["j"]
    p = len(X[0]) if X else 0
    if c == "f64":
        return np.array(X, dtype=np.float64).reshape(len(X), p)
    if c == "i64":
        return np.array(X, dtype=np.int64).reshape(len(X), p)
    if c == "list":
        return [[float(v) for v in r] for r in X]
    if c == "listint":
        return [[int(v) for v in r] for r in X]
    if c == "listnd":      # a list of rows, every row a one-dimensional float64 ndarray
        return [np.array([float(v) for v in r], dtype=np.float64) for r in X]
    if c == "polars":
        return pl.DataFrame({f"x{k}": pl.Series([float(r[k]) for r in X], dtype=pl.Float64) for k in range(p)})
    if c == "polarsint":
        return pl.DataFrame({f"x{k}": pl.Series([int(r[k]) for r in X], dtype=pl.Int64) for k in range(p)})
    if c == "polarsuint":  # unsigned integer columns (the data are made non-negative by the generator)
        return pl.DataFrame({f"x{k}": pl.Series([int(r[k]) for r in X], dtype=pl.UInt32) for k in range(p)})
    if c == "polarsmix":   # the feature column is float, all other columns are integer
        return pl.DataFrame({f"x{k}": (pl.Series([float(r[k]) for r in X], dtype=pl.Float64) if k == j
                                       else pl.Series([int(r[k]) for r in X], dtype=pl.Int64)) for k in range(p)})
    raise ValueError(c)


def build_vec(vals, kind):
    if vals is None:
        return None
    if kind == "ndarray":
        return np.array([float(v) for v in vals], dtype=np.float64)
    if kind == "list":
        return [float(v) for v in vals]
    if kind == "series":
        return pl.Series([float(v) for v in vals], dtype=pl.Float64)
    if kind == "intarray":
        return np.array([int(v) for v in vals], dtype=np.int64)
    raise ValueError(kind)


def snapshot(o):
    if isinstance(o, (pl.DataFrame, pl.Series)):
        return o.clone()
    return copy.deepcopy(o)


def unchanged(a, b):
    """is the caller's object `a` still equal to the snapshot `b` (same type, dtype, values)?"""
    if a is None or b is None:
        return a is None and b is None
    if type(a) is not type(b):
        return False
    if isinstance(a, np.ndarray):
        return a.dtype == b.dtype and a.shape == b.shape and a.tobytes() == b.tobytes()
    if isinstance(a, pl.DataFrame):
        return a.schema == b.schema and a.equals(b)
    if isinstance(a, pl.Series):
        return a.dtype == b.dtype and a.equals(b)

    def same(u, v):
        if isinstance(u, np.ndarray):
            return isinstance(v, np.ndarray) and u.dtype == v.dtype and u.shape == v.shape and u.tobytes() == v.tobytes()
        if isinstance(u, list):
            return isinstance(v, list) and len(u) == len(v) and all(same(x, y) for x, y in zip(u, v))
        return type(u) is type(v) and u == v
    return same(a, b)


def to_rows(Z):
    """abstraction container -> list of rows of exact numbers (int / float)"""
    if isinstance(Z, pl.DataFrame):
        return [list(r) for r in Z.rows()]
    if isinstance(Z, np.ndarray):
        return Z.tolist() if Z.ndim == 2 else [list(r) for r in Z]
    return [[(v.item() if hasattr(v, "item") else v) for v in r] for r in Z]


# ----------------------------------------------------------------------------- predictor
def F(v):
    return Fraction(v)


def pred_exact(ps, row):
    """exact value of the case's predictor on one row (row: ints / floats / Fractions)"""
    r = [F(v) for v in row]
    v = F(ps["c0"])
    for c, x in zip(ps["cs"], r):
        v += F(c) * x
    v += F(ps["d"]) * r[ps["a"]] * r[ps["b"]]
    if r[ps["s"]] <= F(ps["t"]):
        v += F(ps["h"])
    return v


class Recorder:
    def __init__(self, ps, ret):
        self.ps, self.ret, self.calls = ps, ret, []

    def __call__(self, Z):
        rows = to_rows(Z)
        self.calls.append(rows)
        y = [float(pred_exact(self.ps, r)) for r in rows]
        if self.ret == "series":
            return pl.Series(y, dtype=pl.Float64)
        return np.array(y, dtype=np.float64)

    def all_rows(self):
        return [r for c in self.calls for r in c]


# ----------------------------------------------------------------------------- running
def draw_indices(d):
    """the documented draw (partial_dependence.py l.60-62), or None when no sub-sampling"""
    n = len(d["X"])
    if "n_max" in d:
        n_max = d["n_max"]
    else:
        n_max = 1000
    if n_max is not None and n > n_max:
        return [int(i) for i in np.random.default_rng(d["seed"]).choice(n, size=n_max, replace=False)]
    return None


def call_impl(d):
    """-> dict(out=('ok', [floats]) | ('exc', ClassName, msg), seen=[rows], pure={...})"""
    X = build_X(d)
    grid = build_vec(d["grid"], d["gridc"])
    w = build_vec(d["w"], d.get("wc", "ndarray"))
    X0, g0, w0 = snapshot(X), snapshot(grid), snapshot(w)
    rec = Recorder(d["pred"], d.get("ret", "ndarray"))
    kw = {}
    if "n_max" in d:
        kw["n_max"] = d["n_max"]
    if d.get("seed") is not None:
        kw["rng"] = np.random.default_rng(d["seed"]) if d.get("rngkind") == "gen" else d["seed"]
    try:
        out = compute_partial_dependence(rec, X, d["j"], grid, weights=w, **kw)
        out = ("ok", [float(v) for v in np.asarray(out, dtype=float).reshape(-1)])
    except Exception as e:  # noqa: BLE001
        out = ("exc", type(e).__name__, str(e)[:120])
    pure = dict(X=unchanged(X, X0), grid=unchanged(grid, g0), weights=unchanged(w, w0))
    return dict(out=out, seen=rec.all_rows(), ncalls=len(rec.calls), pure=pure)


# ----------------------------------------------------------------------------- the property, directly
def judge_case(d):
    """clauses of C16 that fail on this input (evaluated on the implementation's own output)"""
    r1 = call_impl(d)
    r2 = call_impl(d)
    bad = []
    for k, ok in r1["pure"].items():
        if not ok:
            bad.append(f"purity: caller's {k} changed")
    if r1["out"] != r2["out"] or r1["seen"] != r2["seen"]:
        bad.append("seed: two calls with equal seed differ")
    if d.get("kind"):      # malformed input: the property only asks for purity
        if r1["out"][0] != "exc":
            bad.append(f"malformed input ({d['kind']}) accepted")
        return bad, r1
    if r1["out"][0] == "exc":
        bad.append(f"exception on a well-formed input: {r1['out'][1]}: {r1['out'][2]}")
        return bad, r1
    out = r1["out"][1]
    X, j, grid = d["X"], d["j"], d["grid"]
    idx = draw_indices(d)
    if idx is None:
        idx = list(range(len(X)))
    elif len(set(idx)) != len(idx) or len(idx) != d.get("n_max", 1000):
        bad.append("draw: indices not distinct / wrong number")
    rows = [[F(v) for v in X[i]] for i in idx]
    ws = [F(1)] * len(rows) if d["w"] is None else [F(d["w"][i]) for i in idx]
    if len(out) != len(grid):
        bad.append(f"length: {len(out)} values for {len(grid)} grid points")
    else:
        wrong = []
        for gi, g in enumerate(grid):
            tot = sum((wi * pred_exact(d["pred"], r[:j] + [F(g)] + r[j + 1:]) for wi, r in zip(ws, rows)), F(0))
            exact = tot / sum(ws, F(0))
            if not (out[gi] == out[gi]) or abs(F(out[gi]) - exact) > JUDGE_TOL * (1 + abs(exact)):
                wrong.append((gi, out[gi], float(exact)))
        if wrong:
            gi, o, e = wrong[0]
            bad.append(f"definition: value at grid[{gi}]={grid[gi]} is {o}, definitional partial dependence is {e}")
    # rows handed to the predictor = sampled rows with column j := grid value, everything else untouched
    want = sorted(tuple(r[:j] + [F(g)] + r[j + 1:]) for g in grid for r in rows)
    try:
        got = sorted(tuple(F(v) for v in r) for r in r1["seen"])
    except (TypeError, ValueError):
        got = None
    if got != want:
        msg = "rows handed to the predictor differ from the (sub)sampled rows with column j := grid value"
        if got is not None and len(got) == len(want):
            other = sorted(tuple(v for k, v in enumerate(r) if k != j) for r in got) == \
                    sorted(tuple(v for k, v in enumerate(r) if k != j) for r in want)
            msg += " (only in the feature column)" if other else " (also in OTHER columns / other rows)"
        bad.append("stacked: " + msg)
    return bad, r1


def finding_tag(d, clauses):
    """recognise the recorded defect class D9 (integer storage, non-integer grid value)"""
    if not clauses:
        return None
    nonint = any(float(g) != int(g) for g in d["grid"])
    if d["container"] in INT_STORED and nonint and all(c.startswith(("definition", "stacked", "exception")) for c in clauses) \
            and not any("OTHER" in c for c in clauses):
        return "D9"
    if d["container"] == "polarsint" and d["gridc"] == "list" and all(c.startswith("exception") for c in clauses):
        return "D9b"         # strict Series construction: list of Python floats into an Int64 column -> TypeError
    return None


# ----------------------------------------------------------------------------- generation
def gen_values(rng, n, style, as_int):
    if as_int:
        style = {"dyadic": "smallint", "wide": "bigint", "halves": "smallint"}.get(style, style)
    if style == "smallint":
        return [rng.randint(-5, 5) for _ in range(n)]
    if style == "bigint":
        return [rng.randint(-10 ** 6, 10 ** 6) for _ in range(n)]
    if style == "dyadic":
        return [rng.randint(-64, 64) / 8 for _ in range(n)]
    if style == "halves":
        return [rng.randint(-9, 9) / 2 for _ in range(n)]
    if style == "ties":
        pool = [rng.randint(-3, 3) for _ in range(2)]
        return [rng.choice(pool) for _ in range(n)]
    if style == "const":
        v = rng.randint(-4, 4)
        return [v] * n
    if style == "zeros":
        return [0 if rng.random() < 0.7 else rng.randint(-2, 2) for _ in range(n)]
    if style == "neg":
        return [-rng.randint(1, 9) for _ in range(n)]
    if style == "wide":
        return [float(f"{rng.uniform(1, 10):.6g}") * 10.0 ** rng.randint(-3, 4) for _ in range(n)]
    raise ValueError(style)


VALUE_STYLES = ["smallint", "dyadic", "halves", "ties", "const", "zeros", "neg", "wide"]


def gen_grid(rng, col, style, m):
    lo, hi = min(col), max(col)
    if style == "column":            # what the library itself uses: values of the column
        g = sorted(set(col))
        return g[:m] if len(g) > m else g
    if style == "ints":
        return [rng.randint(-6, 6) for _ in range(m)]
    if style == "halves":
        return [rng.randint(-9, 9) / 2 + (0.5 if rng.random() < 0.5 else 0) for _ in range(m)]
    if style == "outside":
        return [lo - rng.randint(1, 20) - (0.25 if rng.random() < 0.5 else 0) for _ in range((m + 1) // 2)] + \
               [hi + rng.randint(1, 20) + (0.75 if rng.random() < 0.5 else 0) for _ in range(m // 2)]
    if style == "dup":
        v = rng.randint(-8, 8) / 4
        return [v] * m
    if style == "negfrac":
        return [-(rng.randint(0, 7) + rng.choice([0.25, 0.5, 0.75])) for _ in range(m)]
    if style == "wide":
        return [float(f"{rng.uniform(1, 10):.6g}") * 10.0 ** rng.randint(-3, 4) for _ in range(m)]
    raise ValueError(style)


GRID_STYLES = ["column", "ints", "halves", "outside", "dup", "negfrac", "wide"]


def gen_weights(rng, n, style):
    if style == "none":
        return None
    if style == "ones":
        return [1.0] * n
    if style == "smallint":
        w = [rng.randint(0, 4) for _ in range(n)]
    elif style == "dyadic":
        w = [rng.randint(1, 32) / 8 for _ in range(n)]
    elif style == "wide":
        w = [float(f"{rng.uniform(1, 10):.5g}") * 10.0 ** rng.randint(-3, 3) for _ in range(n)]
    else:
        raise ValueError(style)
    if all(v == 0 for v in w):
        w[rng.randrange(n)] = 1
    return [float(v) for v in w]


W_STYLES = ["none", "none", "ones", "smallint", "smallint", "dyadic", "wide"]


def gen_pred(rng, p, j, grid, X, wide):
    kind = rng.choice(["linear", "interaction", "interaction_j", "step_j", "step_other", "full", "const"])
    co = (lambda: rng.randint(0, 16) / 4) if wide else (lambda: rng.randint(-16, 16) / 4)
    ps = dict(c0=co(), cs=[0.0] * p, d=0.0, a=0, b=0, h=0.0, s=0, t=0.0, kind=kind)
    if kind != "const":
        ps["cs"] = [co() for _ in range(p)]
    if kind in ("interaction", "full"):
        ps.update(d=co(), a=rng.randrange(p), b=rng.randrange(p))
    if kind in ("interaction_j", "full") and rng.random() < 0.8:
        ps.update(d=co() or 1.0, a=j, b=rng.randrange(p))
    if kind in ("step_j", "full"):
        # threshold ON a grid value / a data value: the comparison `<=` is hit with equality
        ps.update(h=co() or 2.0, s=j, t=float(rng.choice(list(grid) + [r[j] for r in X])))
    if kind == "step_other":
        s = rng.randrange(p)
        ps.update(h=co() or 2.0, s=s, t=float(rng.choice([r[s] for r in X])))
    return ps


def well_conditioned(d):
    """Fractions: is every definitional value large compared with the rounding of its terms?
    (false-alarm policy: no comparison where cancellation could exceed the 1e-9 tolerance)"""
    idx = draw_indices(d)
    rows = [[F(v) for v in d["X"][i]] for i in (idx if idx is not None else range(len(d["X"])))]
    ws = [F(1)] * len(rows) if d["w"] is None else [F(d["w"][i]) for i in (idx if idx is not None else range(len(d["X"])))]
    j = d["j"]
    if sum(ws) == 0:
        return True
    for g in d["grid"]:
        gs = {F(g), F(int(g))}
        for gv in gs:
            terms = [wi * pred_exact(d["pred"], r[:j] + [gv] + r[j + 1:]) for wi, r in zip(ws, rows)]
            mag = (sum(abs(t) for t in terms) + sum(abs(wi) for wi in ws)) / abs(sum(ws))
            exact = sum(terms) / sum(ws)
            # float error of the implementation ~ 1e-13 * mag must stay below 1e-9 * (1 + |exact|)
            if mag > 10 ** 4 * (1 + abs(exact)):
                return False
    return True


def gen_case(rng, nmax, force=None):
    force = force or {}
    container = force.get("container") or rng.choice(CONTAINERS)
    as_int = container in INT_DATA
    n = force.get("n") or rng.choice([1, 1, 2, 2, 3, 4, 5] + list(range(1, nmax + 1)))
    p = force.get("p") or rng.choice([1, 1, 2, 2, 3, 3, 4])
    style = rng.choice(VALUE_STYLES)
    cols = [gen_values(rng, n, rng.choice([style, style, rng.choice(VALUE_STYLES)]), as_int) for _ in range(p)]
    X = [[cols[k][i] for k in range(p)] for i in range(n)]
    j = rng.randrange(p)
    if container == "polarsuint":
        X = [[min(abs(int(v)), 2 ** 31) for v in r] for r in X]
    if container == "polarsmix":
        X = [[float(v) if k == j else v for k, v in enumerate(r)] for r in X]
    gstyle = force.get("gstyle") or rng.choice(GRID_STYLES)
    m = rng.choice([1, 1, 2, 3, 4, 5])
    grid = [float(v) for v in gen_grid(rng, [r[j] for r in X], gstyle, m)]
    if container in INT_STORED:
        # int64 range only; |g| small anyway
        grid = [g for g in grid if abs(g) < 2 ** 52] or [0.5]
    wstyle = rng.choice(W_STYLES)
    w = gen_weights(rng, n, wstyle)
    wide = "wide" in (style, gstyle, wstyle)
    d = dict(container=container, X=X, j=j, grid=grid, w=w,
             gridc=rng.choice(["ndarray", "list", "series"]), wc=rng.choice(["ndarray", "list", "series"]),
             ret=rng.choice(["ndarray", "ndarray", "series"]), kind=None,
             styles=[style, gstyle, wstyle])
    if container == "polarsint" and container in INT_STORED and d["gridc"] == "list":
        d["gridc"] = rng.choice(["ndarray", "series"])     # list -> TypeError (strict Series), see search
    if wide:
        # positive data, non-negative coefficients: no cancellation in the float pipeline
        d["X"] = X = [[abs(v) for v in r] for r in X]
        d["grid"] = grid = [abs(g) for g in grid]
    r = rng.random()
    if n >= 2 and r < 0.45:
        d["n_max"] = rng.randint(1, n - 1)
        d["seed"] = rng.randrange(10 ** 6)
        d["rngkind"] = rng.choice(["int", "int", "gen"])
        if w is not None:
            # the weights that are USED must not sum to zero
            idx = draw_indices(d)
            if all(w[i] == 0 for i in idx):
                w[idx[0]] = 1.0
    elif r < 0.6:
        d["n_max"] = n + rng.randint(0, 3)
        d["seed"] = rng.randrange(10 ** 6)
    elif r < 0.7:
        d["n_max"] = None
    elif r < 0.8:
        d["seed"] = rng.randrange(10 ** 6)                   # default n_max = 1000
    d["pred"] = gen_pred(rng, p, j, grid, X, wide)
    return d


MALFORMED = ["jrange", "emptygrid", "wzero", "wlen"]


def gen_malformed(rng, nmax):
    d = gen_case(rng, min(nmax, 6), force=dict(container=rng.choice(["f64", "i64", "list", "polars"])))
    d.pop("n_max", None)
    kind = rng.choice(MALFORMED)
    n, p = len(d["X"]), len(d["X"][0])
    if kind == "jrange":
        d["j"] = p + rng.randint(0, 2)
    elif kind == "emptygrid":
        d["grid"] = []
        if d["gridc"] == "series":
            d["gridc"] = "ndarray"
    elif kind == "wzero":
        d["w"] = [0.0] * n if rng.random() < 0.5 or n < 2 else [1.0, -1.0] + [0.0] * (n - 2)
    elif kind == "wlen":
        d["w"] = [1.0] * (n + rng.choice([1, 2]) if rng.random() < 0.5 or n == 1 else n - 1)
    d["kind"] = kind
    return d


# ----------------------------------------------------------------------------- Coq case text
OBS = {"IndexError": "ObsIndexError", "ValueError": "ObsValueError", "ZeroDivisionError": "ObsZeroDivision",
       "TypeError": "ObsTypeError"}


def qmatrix(rows):
    return "[" + "; ".join(qlist(r) for r in rows) + "]"


def coq_case(d, res):
    ps = d["pred"]
    pred = (f"(mkpred {qlit(ps['c0'])} {qlist(ps['cs'])} {qlit(ps['d'])} {ps['a']}%nat {ps['b']}%nat "
            f"{qlit(ps['h'])} {ps['s']}%nat {qlit(ps['t'])})")
    ct = "CInt" if d["container"] in INT_STORED else "CFloat"
    w = "None" if d["w"] is None else f"(Some {qlist(d['w'])})"
    if "n_max" in d:
        nm = "None" if d["n_max"] is None else f"(Some {d['n_max']}%nat)"
    else:
        nm = "(Some 1000%nat)"
    idx = draw_indices(d) or []
    if res["out"][0] == "ok":
        obs = f"(ObsOk {qlist(res['out'][1])})"
        seen = qmatrix(res["seen"])
    else:
        obs = OBS.get(res["out"][1], "ObsOther")
        seen = "[]"
    return (f"mkpd {ct} {pred} {qmatrix(d['X'])} {d['j']}%nat {qlist(d['grid'])} {w} {nm} {natlist(idx)} "
            f"{seen} {obs}")


def finite(res):
    return res["out"][0] != "ok" or all(v == v and abs(v) != float("inf") for v in res["out"][1])


# ----------------------------------------------------------------------------- modes
def corr(outdir, prefix, seed, ncases, nmax):
    rng = random.Random(seed)
    os.makedirs(outdir, exist_ok=True)
    dicts, texts, fails, stats = [], [], [], {}

    def bump(k):
        stats[k] = stats.get(k, 0) + 1

    fixed = [
        # the D9 reproducer and its float twin, n = 1, single column, grid outside the range
        dict(container="i64", X=[[1, 10], [2, 20]], j=0, grid=[0.5, 1.5], w=None, gridc="ndarray", wc="ndarray",
             ret="ndarray", kind=None, pred=dict(c0=0.0, cs=[1.0, 1.0], d=0.0, a=0, b=0, h=0.0, s=0, t=0.0, kind="linear")),
        dict(container="f64", X=[[1.0, 10.0], [2.0, 20.0]], j=0, grid=[0.5, 1.5], w=None, gridc="ndarray", wc="ndarray",
             ret="ndarray", kind=None, pred=dict(c0=0.0, cs=[1.0, 1.0], d=0.0, a=0, b=0, h=0.0, s=0, t=0.0, kind="linear")),
        dict(container="list", X=[[3.0]], j=0, grid=[-100.0, 3.0, 250.5], w=[2.0], gridc="list", wc="list",
             ret="ndarray", kind=None, pred=dict(c0=1.0, cs=[2.0], d=0.5, a=0, b=0, h=4.0, s=0, t=3.0, kind="full")),
        dict(container="polars", X=[[1.0, 2.0], [3.0, 4.0], [5.0, 6.0]], j=1, grid=[-7.0, 99.0], w=[1.0, 0.0, 3.0],
             gridc="series", wc="series", ret="series", kind=None, n_max=2, seed=7, rngkind="int",
             pred=dict(c0=0.0, cs=[1.0, -1.0], d=2.0, a=0, b=1, h=0.0, s=0, t=0.0, kind="interaction_j")),
    ]
    if ncases >= 50:
        # the default n_max = 1000 (n = 1003 > 1000, n_max not passed)
        col = [rng.randint(-20, 20) / 2 for _ in range(1003)]
        fixed.append(dict(container="f64", X=[[v] for v in col], j=0, grid=[0.25, 7.0], w=[float(rng.randint(0, 3)) for _ in col],
                          gridc="ndarray", wc="ndarray", ret="ndarray", kind=None, seed=rng.randrange(10 ** 6), rngkind="int",
                          pred=dict(c0=1.0, cs=[0.5], d=0.25, a=0, b=0, h=3.0, s=0, t=0.25, kind="full")))
    todo = list(fixed)
    while len(todo) < ncases:
        todo.append(gen_malformed(rng, nmax) if rng.random() < 0.12 else gen_case(rng, nmax))
    for d in todo[:max(ncases, len(fixed))]:
        if not d.get("kind") and not well_conditioned(d):
            bump("skipped_ill_conditioned")
            continue
        clauses, res = judge_case(d)
        if not finite(res):
            bump("skipped_nonfinite")
            continue
        dicts.append(d)
        texts.append(coq_case(d, res))
        bump("container:" + d["container"])
        bump("n:" + ("1" if len(d["X"]) == 1 else "2-5" if len(d["X"]) <= 5 else "6+"))
        bump("p:" + str(len(d["X"][0])))
        bump("weights:" + ("none" if d["w"] is None else "given"))
        bump("outcome:" + (res["out"][0] if res["out"][0] == "ok" else res["out"][1]))
        bump("pred:" + d["pred"].get("kind", "?"))
        if d.get("kind"):
            bump("malformed:" + d["kind"])
        if draw_indices(d) is not None:
            bump("subsampled")
        if d["grid"] and not d.get("kind"):
            col = [r[d["j"]] for r in d["X"]]
            if any(g < min(col) or g > max(col) for g in d["grid"]):
                bump("grid_outside_range")
            if d["container"] in INT_STORED and any(float(g) != int(g) for g in d["grid"]):
                bump("int_storage_nonint_grid")
        if clauses:
            fails.append(dict(case=d, clauses=clauses, observed=res["out"], finding=finding_tag(d, clauses)))
    paths = []
    for k, sh in enumerate(shard(texts, 400)):
        path = os.path.join(outdir, f"{prefix}_{k}.v")
        write_case_file(path, "From MD Require Import lib.QLists model.PartialDep corr.Decode corr.CmpPartialDep.",
                        "Definition cases : list pdcase := [\n " + ";\n ".join(sh) + "\n].", "summary cases")
        paths.append(path)
    json.dump(dicts, open(os.path.join(outdir, prefix + "_cases.json"), "w"))
    stats["property_failures_total"] = len(fails)
    stats["property_failures_D9"] = sum(1 for f in fails if f["finding"] in ("D9", "D9b"))
    other = [f for f in fails if f["finding"] not in ("D9", "D9b")]
    d9 = [f for f in fails if f["finding"] in ("D9", "D9b")]
    print(json.dumps(dict(paths=paths, shard_size=400, stats=stats, samples=dicts[:1] + dicts[5:7],
                          property_failures=other[:10] + d9[:3])))


def judge(path):
    ds = json.load(open(path))
    out = []
    for d in ds:
        if isinstance(d, dict) and "probe" in d:      # a recorded directed probe of the seeded draw: run the probes again
            out += [f for f in probe_draw() if f["case"].get("probe") == d["probe"]][:1]
            continue
        clauses, res = judge_case(d)
        if clauses:
            m = minimise(d)
            mc, mr = judge_case(m)
            out.append(dict(case=m, clauses=mc, observed=mr["out"], finding=finding_tag(m, mc)))
    print(json.dumps(dict(failures=out)))


def minimise(d):
    """greedy: drop rows / grid points / weights while the same class of clause still fails"""
    def key(c):
        return sorted(x.split(":")[0] for x in judge_case(c)[0])
    want = key(d)
    cur = copy.deepcopy(d)
    if draw_indices(cur) is not None:
        return cur                      # the draw depends on n: keep sub-sampled cases as they are
    changed = True
    while changed:
        changed = False
        for i in range(len(cur["X"])):
            if len(cur["X"]) <= 1:
                break
            c = copy.deepcopy(cur)
            del c["X"][i]
            if c["w"] is not None:
                del c["w"][i]
                if sum(c["w"]) == 0:
                    continue
            if "n_max" in c and c["n_max"] is not None and c["n_max"] < len(c["X"]):
                continue
            if key(c) == want:
                cur, changed = c, True
                break
        for i in range(len(cur["grid"])):
            if len(cur["grid"]) <= 1:
                break
            c = copy.deepcopy(cur)
            del c["grid"][i]
            if key(c) == want:
                cur, changed = c, True
                break
    for simple in (dict(c0=0.0, cs=[1.0] * len(cur["X"][0]), d=0.0, a=0, b=0, h=0.0, s=0, t=0.0, kind="linear"),):
        c = copy.deepcopy(cur)
        c["pred"] = simple
        if key(c) == want:
            cur = c
    if cur["w"] is not None:
        c = copy.deepcopy(cur)
        c["w"] = None
        if key(c) == want:
            cur = c
    return cur


def probe_draw():
    """directed probes of "the subsample is the documented seeded draw without replacement": (i) a large frame where numpy's
    choice switches algorithm (n = 30000, n_max = 1000: any other way of drawing - shuffle=False, permutation()[:k], a
    different generator - gives other rows); (ii) ONE Generator handed to several calls: the used generator is
    np.random.default_rng(rng), i.e. that very object, so call k sees the k-th draw of the generator"""
    fails = []

    def rows_seen(n, n_max, rng):
        seen = []

        def pred(Z):
            Z = np.asarray(Z, dtype=float)
            seen.append(Z[:, 1].copy())
            return Z[:, 0] + Z[:, 1]
        X = np.column_stack([np.zeros(n), np.arange(n, dtype=float)])
        out = compute_partial_dependence(pred, X, 0, np.array([1.0]), n_max=n_max, rng=rng)
        return [int(v) for v in seen[0]], float(out[0])

    for n, n_max, seed in ((30000, 1000, 3), (30000, 601, 0), (12000, 599, 5), (2000, 1000, 1)):
        want = [int(i) for i in np.random.default_rng(seed).choice(n, size=n_max, replace=False)]
        try:
            got, val = rows_seen(n, n_max, seed)
        except Exception as e:  # noqa: BLE001
            fails.append(dict(case=dict(probe="large draw", n=n, n_max=n_max, seed=seed), clauses=[f"exception on a well-formed input: {type(e).__name__}: {str(e)[:100]}"], observed=None, finding=None))
            continue
        got, want = sorted(got), sorted(want)       # the SET of rows is the draw; their order does not affect any returned value
        if got != want:
            k = next(i for i, (a, b) in enumerate(zip(got, want)) if a != b) if len(got) == len(want) else None
            fails.append(dict(case=dict(probe="large draw", n=n, n_max=n_max, seed=seed, X="column 0 zeros, column 1 = row number", grid=[1.0]),
                              clauses=[f"seed: the rows shown to the predictor are not default_rng({seed}).choice({n}, size={n_max}, replace=False) as a set (first difference of the sorted row numbers at position {k})"],
                              observed=got[:8], finding=None))
    g, ref = np.random.default_rng(11), np.random.default_rng(11)
    for call in (1, 2, 3):
        want = [int(i) for i in ref.choice(50, size=7, replace=False)]
        got, val = rows_seen(50, 7, g)
        if sorted(got) != sorted(want):
            fails.append(dict(case=dict(probe="one Generator handed to three calls", n=50, n_max=7, generator="default_rng(11)", call=call),
                              clauses=[f"seed: call {call} with the same Generator object does not use its next draw ({got} instead of {want})"], observed=got, finding=None))
            break
    return fails


def search(seed, budget):
    tried, found, classes = 0, [], {}

    def consider(d):
        nonlocal tried
        tried += 1
        clauses, res = judge_case(d)
        if clauses:
            tag = finding_tag(d, clauses) or "NEW"
            k = (tag, d["container"], tuple(sorted(c.split(":")[0] for c in clauses)))
            classes[k] = classes.get(k, 0) + 1
            if classes[k] <= 1:
                found.append(dict(case=d, clauses=clauses, observed=res["out"], finding=finding_tag(d, clauses)))

    # tier 1: small exhaustive space
    preds = [dict(c0=0.0, cs=None, d=0.0, a=0, b=0, h=0.0, s=0, t=0.0, kind="linear"),
             dict(c0=1.0, cs=None, d=2.0, a=0, b=-1, h=0.0, s=0, t=0.0, kind="interaction_j"),
             dict(c0=0.0, cs=None, d=0.0, a=0, b=0, h=5.0, s=0, t=1.0, kind="step_j")]
    Xs = [[[1, 10], [2, 20]], [[3]], [[0, -1], [0, 4], [2, 4]], [[-2, 5, 1]]]
    grids = [[0.5, 1.5], [1.0, 2.0], [-0.5], [-7.25, 30.0], [1.0, 1.0, 0.75]]
    tier1 = []
    for container, X, grid, gridc in itertools.product(CONTAINERS, Xs, grids, ["ndarray", "list", "series"]):
        n, p = len(X), len(X[0])
        if container == "polarsuint" and any(v < 0 for r in X for v in r):
            continue               # unsigned columns hold non-negative data only
        for j, wk, sub, pk in itertools.product(range(p), range(3), (False, True), range(3)):
            if sub and n < 2:
                continue
            w = [None, [1.0] * n, [float(i % 3) + (1.0 if i == 0 else 0.0) for i in range(n)]][wk]
            ps = dict(preds[pk])
            ps["cs"] = [1.0] * p
            ps["a"], ps["s"] = j, j
            ps["b"] = p - 1
            XX = [[float(v) if (container == "polarsmix" and k == j) else v for k, v in enumerate(r)] for r in X]
            d = dict(container=container, X=XX, j=j, grid=grid, w=w, gridc=gridc, wc=["ndarray", "list", "series"][wk],
                     ret="ndarray", kind=None, pred=ps)
            if sub:
                d.update(n_max=n - 1, seed=(0 if (j + wk + pk) % 2 == 0 else 3), rngkind="int")     # the seed 0 is a seed like any other
                if w is not None and all(w[i] == 0 for i in draw_indices(d)):
                    continue
            tier1.append(d)
    # the whole space if the budget allows (about 9 000 calls), else a seeded sample of it
    if len(tier1) > (2 * budget) // 3:
        random.Random(seed + 1).shuffle(tier1)
        tier1 = tier1[:(2 * budget) // 3]
    for d in tier1:
        consider(d)
    # n_max=None given explicitly with more than 1000 rows: every row is used; the seed 0 with sub-sampling of many rows
    colr = [((7 * i) % 41 - 20) / 2 for i in range(1003)]
    consider(dict(container="f64", X=[[v] for v in colr], j=0, grid=[0.25, 7.0], w=[float(i % 4) for i in range(1003)], gridc="ndarray", wc="ndarray",
                  ret="ndarray", kind=None, n_max=None, seed=5, rngkind="int", pred=dict(c0=1.0, cs=[0.5], d=0.25, a=0, b=0, h=3.0, s=0, t=0.25, kind="full")))
    consider(dict(container="f64", X=[[v] for v in colr[:40]], j=0, grid=[0.25, 7.0], w=None, gridc="ndarray", wc="ndarray",
                  ret="ndarray", kind=None, n_max=7, seed=0, rngkind="int", pred=dict(c0=1.0, cs=[0.5], d=0.25, a=0, b=0, h=3.0, s=0, t=0.25, kind="full")))
    # tier 2: seeded random, same generator as the correspondence run (+ list grids for int polars)
    rng = random.Random(seed)
    while tried < budget:
        d = gen_case(rng, 12)
        if d["container"] == "polarsint" and rng.random() < 0.2:
            d["gridc"] = "list"
        if not well_conditioned(d):
            continue
        consider(d)
    out = []
    for f in found:
        m = minimise(f["case"])
        mc, mr = judge_case(m)
        out.append(dict(case=m, clauses=mc, observed=mr["out"], finding=finding_tag(m, mc)))
    out = probe_draw() + out
    tried += 7
    print(json.dumps(dict(tried=tried, failures=out[:12],
                          classes={"/".join([k[0], k[1]] + list(k[2])): v for k, v in classes.items()})))


def main():
    mode = sys.argv[1]
    if mode == "corr":
        outdir, prefix, seed, ncases, nmax = sys.argv[2:7]
        corr(outdir, prefix, int(seed), int(ncases), int(nmax))
    elif mode == "judge":
        judge(sys.argv[2])
    elif mode == "search":
        search(int(sys.argv[2]), int(sys.argv[3]))
    else:
        raise SystemExit(__doc__)


if __name__ == "__main__":
    main()
