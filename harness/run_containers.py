"""C17: results do not depend on the container or numeric dtype of the inputs.

The abstraction function "container -> list of numbers" lives here: the same numbers are handed to the
public API as Python list, tuple, int64 / float64 ndarray (int64 only when every number is integral),
polars Series, and a Python list mixing int and float objects; every result is compared with the result for
the float64 ndarray (tolerance 1e-12 relative; exceptions must agree in class).  Also: the aggregate score
equals the weighted average of the per-observation scores and is unchanged by rescaling the weights.

  run_containers.py run <seed> <ncases>
prints one JSON object {"n":..., "failures":[...], "stats":{...}} on the last line."""
import json
import random
import sys
import warnings

import numpy as np
import polars as pl

from model_diagnostics.calibration import compute_bias, compute_marginal, identification_function
from model_diagnostics.scoring import (ElementaryScore, GammaDeviance, HomogeneousExpectileScore, HomogeneousQuantileScore,
                                       LogLoss, PinballLoss, PoissonDeviance, SquaredError, decompose)
from model_diagnostics._utils.isotonic import IsotonicRegression, isotonic_regression

warnings.simplefilter("ignore")
np.seterr(all="ignore")


def containers(vals, integral):
    """name -> container holding the same numbers"""
    out = {"f64": np.asarray(vals, dtype=np.float64), "list": [float(v) for v in vals], "tuple": tuple(float(v) for v in vals),
           "series": pl.Series([float(v) for v in vals])}
    if integral:
        out["i64"] = np.asarray([int(v) for v in vals], dtype=np.int64)
        out["listint"] = [int(v) for v in vals]
        out["seriesint"] = pl.Series([int(v) for v in vals])
        if len(vals) > 1:
            out["listmixed"] = [int(v) if i % 2 == 0 else float(v) for i, v in enumerate(vals)]
        if all(0 <= v <= 255 for v in vals):
            # unsigned integers (count data; polars' own count columns are UInt32): differences must not wrap around
            out["u8"] = np.asarray([int(v) for v in vals], dtype=np.uint8)
            out["seriesu32"] = pl.Series([int(v) for v in vals], dtype=pl.UInt32)
    return out


def as_matrix(col):
    """one-column feature matrix in the container family of `col`"""
    if isinstance(col, np.ndarray):
        return col.reshape(-1, 1)
    if isinstance(col, pl.Series):
        return pl.DataFrame({"f": col})
    return [[v] for v in col]


def canon(res):
    """result -> comparable structure of floats / strings"""
    if isinstance(res, pl.DataFrame):
        out = {}
        for c in res.columns:
            col = res.get_column(c)
            if col.dtype in (pl.Float64, pl.Float32, pl.Int64, pl.Int32, pl.UInt32, pl.UInt64):
                out[c] = [None if v is None else float(v) for v in col.to_list()]
            elif isinstance(col.dtype, (pl.List, pl.Array)):
                out[c] = [None if v is None else [None if w is None else float(w) for w in v] for v in col.to_list()]
            else:
                out[c] = [None if v is None else str(v) for v in col.to_list()]
        return out
    if isinstance(res, tuple):
        return [canon(r) for r in res]
    a = np.asarray(res, dtype=float)
    return a.reshape(-1).tolist()


def close(a, b, tol=1e-12):
    if isinstance(a, dict) and isinstance(b, dict):
        # column names may legitimately differ (a Series / frame column carries its own name, an ndarray gets
        # "feature 0"): compare the columns positionally
        return len(a) == len(b) and all(close(x, y, tol) for x, y in zip(a.values(), b.values()))
    if isinstance(a, (list, tuple)) and isinstance(b, (list, tuple)):
        return len(a) == len(b) and all(close(x, y, tol) for x, y in zip(a, b))
    if a is None or b is None or isinstance(a, str) or isinstance(b, str):
        return a == b
    if a != a and b != b:
        return True
    return abs(a - b) <= tol * (1 + abs(a))


def outcome(f):
    try:
        return ("ok", canon(f()))
    except Exception as e:  # noqa: BLE001
        return ("exc", type(e).__name__, str(e)[:120])


def main():
    seed, ncases = int(sys.argv[2]), int(sys.argv[3])
    rng = random.Random(seed)
    fails, n, stats = [], 0, {}

    def check(api, mk, names, conts):
        """mk(container dict -> callable); compare every container combination against f64"""
        nonlocal n
        ref = outcome(mk({k: conts[k]["f64"] for k in names}))
        # a kind that some argument cannot take (e.g. int64 for fractional weights) falls back to float64 for it
        kinds = sorted(set.union(*[set(conts[k]) for k in names]))
        for kind in kinds:
            if kind == "f64":
                continue
            n += 1
            stats[f"{api}:{kind}"] = stats.get(f"{api}:{kind}", 0) + 1
            got = outcome(mk({k: conts[k].get(kind, conts[k]["f64"]) for k in names}))
            same = (ref[0] == got[0]) and (close(ref[1], got[1]) if ref[0] == "ok" else ref[1] == got[1])
            if not same and sum(1 for f in fails if (f['case'].get('api'), f['case'].get('container')) == (api, kind)) < 1:
                fails.append(dict(case=dict(api=api, container=kind, data={k: [float(v) for v in conts[k]["f64"]] for k in names}),
                                  observed=dict(float64_ndarray=str(ref)[:300], this_container=str(got)[:300]),
                                  clauses=[f"{api}: result for container {kind} differs from the result for a float64 ndarray"]))

    for _ in range(ncases):
        k = rng.randint(2, 8)
        integral = rng.random() < 0.6
        def draw(lo, hi):
            return [float(rng.randint(lo, hi)) if integral else rng.choice([0.5, 1.25, 2.0, 3.5, 1.0, 4.0, 2.75]) for _ in range(k)]
        y, z = draw(1, 6), draw(1, 6)
        wint = rng.random() < 0.5
        w = [float(rng.randint(1, 4)) if wint else rng.choice([0.25, 0.5, 1.25, 2.75, 0.75]) for _ in range(k)]
        C = dict(y=containers(y, integral), z=containers(z, integral), w=containers(w, wint))
        # scores
        sfs = [("SquaredError", SquaredError()), ("PoissonDeviance", PoissonDeviance()), ("GammaDeviance", GammaDeviance()),
               ("PinballLoss(0.3)", PinballLoss(level=0.3)), ("HES(1.5,0.2)", HomogeneousExpectileScore(1.5, 0.2)), ("HES(-1,0.5)", HomogeneousExpectileScore(-1, 0.5)),
               ("HES(3,0.7)", HomogeneousExpectileScore(3, 0.7)), ("HQS(3,0.7)", HomogeneousQuantileScore(3, 0.7)), ("HQS(-1,0.3)", HomogeneousQuantileScore(-1, 0.3)),
               ("HQS(0,0.5)", HomogeneousQuantileScore(0, 0.5)), ("HQS(-2,0.5)", HomogeneousQuantileScore(-2, 0.5)), ("HES(-2,0.3)", HomogeneousExpectileScore(-2, 0.3)),
               ("Elementary(2,mean)", ElementaryScore(2, "mean")), ("Elementary(2,quantile,0.3)", ElementaryScore(2, "quantile", 0.3))]
        name, sf = rng.choice(sfs)
        check(name + ".score_per_obs", lambda c: (lambda: sf.score_per_obs(c["y"], c["z"])), ["y", "z"], C)
        check(name + ".__call__", lambda c: (lambda: sf(c["y"], c["z"], weights=c["w"])), ["y", "z", "w"], C)
        # aggregate = weighted average of score_per_obs; unchanged by rescaling the weights
        spo = np.asarray(sf.score_per_obs(C["y"]["f64"], C["z"]["f64"]), dtype=float)
        wa = C["w"]["f64"]
        n += 2
        want = float((spo * wa).sum() / wa.sum())
        got = float(sf(C["y"]["f64"], C["z"]["f64"], weights=wa))
        got2 = float(sf(C["y"]["f64"], C["z"]["f64"], weights=3.5 * wa))
        if abs(got - want) > 1e-12 * (1 + abs(want)):
            fails.append(dict(case=dict(api=name + ".__call__", y=y, z=z, w=w), observed=got, clauses=[f"aggregate score {got} is not the weighted average {want} of the per-observation scores"]))
        if abs(got2 - got) > 1e-12 * (1 + abs(got)):
            fails.append(dict(case=dict(api=name + ".__call__", y=y, z=z, w=w), observed=[got, got2], clauses=["aggregate score changed when all weights were multiplied by 3.5"]))
        # identification function
        fn = rng.choice(["mean", "median", "expectile", "quantile"])
        check(f"identification_function[{fn}]", lambda c: (lambda: identification_function(c["y"], c["z"], functional=fn, level=0.3)), ["y", "z"], C)
        # isotonic fits
        fn2 = rng.choice(["mean", "median", "expectile", "quantile"])
        if fn2 in ("mean", "expectile"):
            check(f"isotonic_regression[{fn2}]", lambda c: (lambda: isotonic_regression(c["y"], c["w"], functional=fn2, level=0.25)), ["y", "w"], C)
            check(f"IsotonicRegression[{fn2}]", lambda c: (lambda: IsotonicRegression(functional=fn2, level=0.25).fit(c["z"], c["y"], c["w"]).predict(c["z"])), ["y", "z", "w"], C)
        else:
            check(f"isotonic_regression[{fn2}]", lambda c: (lambda: isotonic_regression(c["y"], functional=fn2, level=0.25)), ["y"], C)
            check(f"IsotonicRegression[{fn2}]", lambda c: (lambda: IsotonicRegression(functional=fn2, level=0.25).fit(c["z"], c["y"]).predict(c["z"])), ["y", "z"], C)
        # decompositions
        name3, sf3 = rng.choice([("SquaredError", SquaredError()), ("PoissonDeviance", PoissonDeviance()), ("PinballLoss(0.25)", PinballLoss(level=0.25)),
                                 ("HES(2,0.2)", HomogeneousExpectileScore(2, 0.2))])
        if name3.startswith("Pinball"):
            check(f"decompose[{name3}]", lambda c: (lambda: decompose(c["y"], c["z"], scoring_function=sf3)), ["y", "z"], C)
        else:
            check(f"decompose[{name3}]", lambda c: (lambda: decompose(c["y"], c["z"], c["w"], scoring_function=sf3)), ["y", "z", "w"], C)
        # the domain-repair path of decompose (Poisson deviance with zero counts), weights in every container
        y0 = [0.0] + [float(rng.randint(0, 3)) for _ in range(k - 1)]
        z0 = sorted(rng.choice([0.25, 0.5, 1.5, 2.0, 3.5]) for _ in range(k))
        C0 = dict(y=containers(y0, True), z=containers(z0, False), w=containers(w, wint))
        check("decompose[PoissonDeviance,zeros]", lambda c: (lambda: decompose(c["y"], c["z"], c["w"], scoring_function=PoissonDeviance())), ["y", "z", "w"], C0)
        # a feature matrix given as rows that mix a numeric and a string column: list of rows / tuple of rows vs polars frame
        cats = [rng.choice(["a", "b", "c"]) for _ in range(k)]
        xnum = [rng.choice([0.5, 1.5, 2.5, 3.0]) for _ in range(k)]
        rows = [[xnum[i], cats[i]] for i in range(k)]
        ref = outcome(lambda: compute_marginal(C["y"]["f64"], C["z"]["f64"], X=pl.DataFrame({"f": xnum, "g": cats}), feature_name=0, n_bins=3, bin_method="uniform"))
        for kind, Xc in (("rows_list", rows), ("rows_tuple", tuple(tuple(r) for r in rows))):
            n += 1
            stats[f"compute_marginal[mixed rows]:{kind}"] = stats.get(f"compute_marginal[mixed rows]:{kind}", 0) + 1
            got = outcome(lambda: compute_marginal(C["y"]["f64"], C["z"]["f64"], X=Xc, feature_name=0, n_bins=3, bin_method="uniform"))
            same = (ref[0] == got[0]) and (close(ref[1], got[1]) if ref[0] == "ok" else ref[1] == got[1])
            if not same and sum(1 for f in fails if f["case"].get("api") == "compute_marginal[mixed rows]" and f["case"].get("container") == kind) < 1:
                fails.append(dict(case=dict(api="compute_marginal[mixed rows]", container=kind, data=dict(y=y, z=z, rows=rows)),
                                  observed=dict(polars_frame=str(ref)[:300], this_container=str(got)[:300]),
                                  clauses=["compute_marginal: a feature matrix given as rows mixing numeric and string columns differs from the same data as a polars frame"]))
        # partial dependence requested: the feature matrix as ndarray (reference) / list of rows / tuple of row lists / polars frame
        x2 = [rng.choice([0.0, 1.0, 2.0]) for _ in range(k)]

        def pf(Z):
            Z = Z.to_numpy() if isinstance(Z, pl.DataFrame) else np.asarray([list(r) for r in Z] if isinstance(Z, (list, tuple)) else Z, dtype=float)
            return 0.25 * Z[:, 0].astype(float) + 0.5 * Z[:, 1].astype(float) + 1.0
        Xref = np.asarray([xnum, x2], dtype=float).T.reshape(k, 2)
        ref = outcome(lambda: compute_marginal(C["y"]["f64"], C["z"]["f64"], X=Xref, feature_name=0, predict_function=pf, n_bins=3, bin_method="uniform"))
        for kind, Xc in (("rows_list", [[xnum[i], x2[i]] for i in range(k)]), ("tuple_of_row_lists", tuple([xnum[i], x2[i]] for i in range(k))),
                         ("frame", pl.DataFrame({"f": xnum, "g": x2}))):
            n += 1
            stats[f"compute_marginal[partial dependence]:{kind}"] = stats.get(f"compute_marginal[partial dependence]:{kind}", 0) + 1
            got = outcome(lambda: compute_marginal(C["y"]["f64"], C["z"]["f64"], X=Xc, feature_name=0, predict_function=pf, n_bins=3, bin_method="uniform"))
            same = (ref[0] == got[0]) and (close(ref[1], got[1]) if ref[0] == "ok" else ref[1] == got[1])
            if not same and sum(1 for f in fails if f["case"].get("api") == "compute_marginal[partial dependence]" and f["case"].get("container") == kind) < 1:
                fails.append(dict(case=dict(api="compute_marginal[partial dependence]", container=kind, data=dict(y=y, z=z, X=[[xnum[i], x2[i]] for i in range(k)])),
                                  observed=dict(float64_ndarray=str(ref)[:300], this_container=str(got)[:300]),
                                  clauses=["compute_marginal with a predict_function: the table for this container of X differs from the table for a float64 ndarray"]))
        # aggregated scores inside tables: unchanged when all weights are multiplied by an exact power of two (tiny and huge)
        for scale, sname in ((2.0 ** -33, "2^-33"), (2.0 ** 40, "2^40")):
            for api, call in (("decompose", lambda ww: decompose(C["y"]["f64"], C["z"]["f64"], ww, scoring_function=sf3)),
                              ("compute_bias", lambda ww: compute_bias(C["y"]["f64"], C["z"]["f64"], weights=ww, functional=fn, level=0.3).select(["bias_mean"])),
                              ("__call__", lambda ww: sf(C["y"]["f64"], C["z"]["f64"], weights=ww))):
                if api == "decompose" and name3.startswith("Pinball"):
                    continue
                n += 1
                stats[f"weights x {sname}:{api}"] = stats.get(f"weights x {sname}:{api}", 0) + 1
                a, b = outcome(lambda: call(wa)), outcome(lambda: call(wa * scale))
                same = (a[0] == b[0]) and (close(a[1], b[1], 1e-9) if a[0] == "ok" else a[1] == b[1])
                if not same and sum(1 for f in fails if f["case"].get("api") == api + "[weights rescaled]") < 1:
                    fails.append(dict(case=dict(api=api + "[weights rescaled]", container=sname, data=dict(y=y, z=z, w=w, scoring=name3 if api == "decompose" else name)),
                                      observed=dict(weights=str(a)[:300], weights_rescaled=str(b)[:300]),
                                      clauses=[f"{api}: the aggregated scores changed when all weights were multiplied by {sname}"]))
        # bias and marginal tables, with and without a (numeric) feature
        feat = draw(0, 3)
        C["x"] = containers(feat, integral)
        check("compute_bias", lambda c: (lambda: compute_bias(c["y"], c["z"], weights=c["w"], functional=fn, level=0.3)), ["y", "z", "w"], C)
        check("compute_marginal", lambda c: (lambda: compute_marginal(c["y"], c["z"], weights=c["w"])), ["y", "z", "w"], C)
        for bm in ("sturges", "quantile", "uniform"):
            check(f"compute_bias[feature,{bm}]", lambda c: (lambda: compute_bias(c["y"], c["z"], feature=c["x"], weights=c["w"], functional="mean", n_bins=3, bin_method=bm)),
                  ["y", "z", "w", "x"], C)
            check(f"compute_marginal[feature,{bm}]", lambda c: (lambda: compute_marginal(c["y"], c["z"], X=as_matrix(c["x"]), feature_name=0, weights=c["w"], n_bins=3, bin_method=bm)),
                  ["y", "z", "w", "x"], C)
        # integer data of a realistic size (counts around 1e5) as int32 ndarray / polars Int32: squares of differences do not
        # fit into 32 bits
        if k >= 2:
            yb = [float(rng.choice([100000, 70000, 5, 250000, 12])) for _ in range(k)]
            zb = [float(rng.choice([1, 60000, 7, 90000, 300])) for _ in range(k)]
            CB = dict(y={"f64": np.asarray(yb), "i32": np.asarray(yb, dtype=np.int32), "seriesi32": pl.Series([int(v) for v in yb], dtype=pl.Int32)},
                      z={"f64": np.asarray(zb), "i32": np.asarray(zb, dtype=np.int32), "seriesi32": pl.Series([int(v) for v in zb], dtype=pl.Int32)})
            for nmb, sfb in (("SquaredError", SquaredError()), ("HES(2,0.2)", HomogeneousExpectileScore(2, 0.2)), ("HQS(3,0.7)", HomogeneousQuantileScore(3, 0.7))):
                check(nmb + ".score_per_obs[counts ~1e5]", lambda c: (lambda: sfb.score_per_obs(c["y"], c["z"])), ["y", "z"], CB)
            check("identification_function[expectile, counts ~1e5]", lambda c: (lambda: identification_function(c["y"], c["z"], functional="expectile", level=0.3)), ["y", "z"], CB)
            check("decompose[SquaredError, counts ~1e5]", lambda c: (lambda: decompose(c["y"], c["z"], scoring_function=SquaredError())), ["y", "z"], CB)
        # several models: a 2-d ndarray (reference), a list of rows, and a polars frame whose column names are NOT in
        # alphabetical order - the numbers reported for column i are those of column i (the `model` labels themselves differ
        # by construction and are not compared)
        if not name3.startswith("Pinball"):
            zcols = [z, draw(1, 6), draw(1, 6)]
            Zref = np.asarray(zcols, dtype=float).T.reshape(k, 3)

            def dec_numbers(Z):
                t = decompose(C["y"]["f64"], Z, C["w"]["f64"], scoring_function=sf3)
                return t.select([c for c in t.columns if c != "model"])
            ref = outcome(lambda: dec_numbers(Zref))
            for kind, Zc in (("rows_list", Zref.tolist()), ("frame_unsorted_names", pl.DataFrame({"model_z": zcols[0], "model_a": zcols[1], "model_m": zcols[2]})),
                             ("frame_sorted_names", pl.DataFrame({"a": zcols[0], "b": zcols[1], "c": zcols[2]}))):
                n += 1
                stats[f"decompose[3 models]:{kind}"] = stats.get(f"decompose[3 models]:{kind}", 0) + 1
                got = outcome(lambda: dec_numbers(Zc))
                same = (ref[0] == got[0]) and (close(ref[1], got[1]) if ref[0] == "ok" else ref[1] == got[1])
                if not same and sum(1 for f in fails if f["case"].get("api") == "decompose[3 models]" and f["case"].get("container") == kind) < 1:
                    fails.append(dict(case=dict(api="decompose[3 models]", container=kind, data=dict(y=y, cols=zcols, w=w, scoring=name3)),
                                      observed=dict(float64_ndarray=str(ref)[:300], this_container=str(got)[:300]),
                                      clauses=["decompose with three forecast columns: the rows (in column order) differ from those for the same numbers as a 2-d float64 ndarray"]))
        # a float feature containing NaN (its rows form the null bin) in every container
        if k >= 3:
            fnan = [rng.choice([0.5, 1.5, 2.5, 3.0]) for _ in range(k)]
            fnan[rng.randrange(k)] = float("nan")
            C["xn"] = {"f64": np.asarray(fnan, dtype=np.float64), "list": list(fnan), "tuple": tuple(fnan), "series": pl.Series(fnan)}
            for bm in ("quantile", "uniform"):
                check(f"compute_bias[feature with NaN,{bm}]", lambda c: (lambda: compute_bias(c["y"], c["z"], feature=c["xn"], functional="mean", n_bins=3, bin_method=bm)),
                      ["y", "z", "xn"], C)
                check(f"compute_marginal[feature with NaN,{bm}]", lambda c: (lambda: compute_marginal(c["y"], c["z"], X=as_matrix(c["xn"]), feature_name=0, n_bins=3, bin_method=bm)),
                      ["y", "z", "xn"], C)
    # deduplicate failures by (api, container)
    seen, uniq = set(), []
    for f in fails:
        key = (f["case"].get("api"), f["case"].get("container"))
        if key not in seen:
            seen.add(key)
            uniq.append(f)
    print(json.dumps(dict(n=n, failures=uniq, stats=stats)))


if __name__ == "__main__":
    main()
