"""BIT-EXACT correspondence run of the closed forms of scoring.py / identification.py against the GENERATED
binary64 functions coq/gen/Gen_scoring_f.v, coq/gen/Gen_ident_f.v (translate/gen_f.py; comparator
coq/corr/CmpGenFloat.v).

  run_genfloat.py corr   <outdir> <prefix> <seed> <ncases> <nmax>
      generates ARBITRARY finite doubles (ordinary values, ties y == z, y and z one ulp apart, zeros of both signs,
      subnormals, huge magnitudes / overflow provokers, negatives, decimals, random bit patterns; eta equal to / one
      ulp from a data value; levels 0.5 / one ulp from 0.5 / near 0 / near 1 / decimal / dyadic / outside (0, 1);
      degrees on and one ulp off every branch point; 1 <= n <= nmax; NaN excluded), calls the PUBLIC
      score_per_obs of HomogeneousExpectileScore, HomogeneousQuantileScore, ElementaryScore, LogLoss, SquaredError,
      PoissonDeviance, GammaDeviance, PinballLoss and identification_function on float64 ndarrays, writes shards
      <outdir>/<prefix>_<k>.v (<= 400 cases each) whose last command prints
        (disagreeing indices, #cases, #cases not expressible, #ValueError agreements, #observations compared
         bit for bit, #cases with inf/NaN among the model's values, #not-expressible cases in which the
         implementation raised (expected 0 for the present source), #encoding mismatches),
      writes <outdir>/<prefix>_cases.json and prints one JSON object as last line
      {paths, shard_size, stats, samples, property_failures, observations}.
  run_genfloat.py judge  <cases.json>
      re-runs the listed case dicts on the implementation and evaluates, in exact rational arithmetic, the
      documented statement: ValueError exactly outside the documented domain, otherwise a float64 array that is
      (for the closed forms without power / log) within 8 ulp-units of the exact value of the documented formula,
      zero where the formula is zero and never negative for a score; {"failures": [...], ...}
  run_genfloat.py search <seed> <budget>
      directed search on the implementation (small exhaustive space of special doubles first, then seeded random);
      {"tried": n, "failures": [...], ...}
  run_genfloat.py selfcheck <outdir> <prefix> <seed> <ncases> <nmax>
      corr + compiles every shard with coqc; reports parsed summaries and times.

Doubles travel as C99 hexadecimal strings (float.hex) everywhere: exact, -0.0 distinct from 0.0.
"""
import itertools
import json
import math
import os
import random
import struct
import sys
import time
import warnings
from fractions import Fraction

import numpy as np

import common

warnings.simplefilter("ignore")

SHARD = 400
MASK63 = (1 << 63) - 1
DBL_MAX = sys.float_info.max
FUNCTIONALS = {"mean": "Fmean", "median": "Fmedian", "expectile": "Fexpectile", "quantile": "Fquantile"}


# ------------------------------------------------------------------ bit level helpers
def f2b(v):
    return struct.unpack("<Q", struct.pack("<d", v))[0]


def b2f(b):
    return struct.unpack("<d", struct.pack("<Q", b))[0]


def finite(v):
    return v == v and abs(v) != math.inf


def ulp_step(v, k):
    """the double k units in the last place away from v (clamped to the finite range)"""
    b = f2b(v)
    o = -(b & MASK63) if b >> 63 else b
    o += k
    top = f2b(DBL_MAX)
    o = max(-top, min(top, o))
    return b2f((1 << 63) | (-o)) if o < 0 else b2f(o)


def rand_bits(rng):
    while True:
        v = b2f(rng.getrandbits(64))
        if finite(v):
            return v


def rand_scaled(rng, elo, ehi):
    m = (1 << 52) | rng.getrandbits(52)
    v = math.ldexp(m, rng.randint(elo, ehi) - 52)
    return -v if rng.random() < 0.5 else v


def rand_subnormal(rng):
    k = rng.choice([1, 2, 3, rng.getrandbits(8) + 1, rng.getrandbits(30) + 1, rng.getrandbits(52) or 1])
    v = b2f(k)
    return -v if rng.random() < 0.5 else v


def hx(vs):
    return [float(v).hex() for v in vs]


def unhx(hs):
    return [float.fromhex(h) for h in hs]


# ------------------------------------------------------------------ generators
PAIR_STYLES = ["ordinary", "ordinary", "ordinary", "ties", "ties", "ulp", "ulp", "ulp", "zeros", "zeros", "subnormal",
               "huge", "huge", "negative", "decimal", "decimal", "smallint", "bits", "bits", "positive", "positive",
               "positive", "poszero", "mixed", "mixed", "scaled"]


def one_value(rng, style):
    if style == "ordinary":
        return rng.choice([rng.gauss(0, 1), rng.uniform(-10, 10), rng.gauss(0, 100), rng.uniform(0, 1)])
    if style == "bits":
        return rand_bits(rng)
    if style == "scaled":
        return rand_scaled(rng, -1000, 1000)
    if style == "huge":
        return rng.choice([1e300, -1e300, 1e308, -1e308, 1.7e308, -1.7e308, DBL_MAX, -DBL_MAX, 1e154, -1e154, 1.5e154,
                           rand_scaled(rng, 1000, 1023), rand_scaled(rng, 500, 520), 1.0, 0.0])
    if style == "subnormal":
        return rng.choice([rand_subnormal(rng), rand_subnormal(rng), 2.2250738585072014e-308, -2.2250738585072014e-308,
                           0.0, 1e-160, -1e-160])
    if style == "zeros":
        return rng.choice([0.0, -0.0, 0.0, -0.0, 5e-324, -5e-324, 1.0, -1.0])
    if style == "negative":
        return -abs(rng.choice([rng.gauss(0, 1), rng.uniform(0, 10), rand_scaled(rng, -30, 30)]))
    if style == "decimal":
        return rng.randrange(-30, 31) / 10.0
    if style == "smallint":
        return float(rng.randrange(-3, 4))
    if style == "positive":
        return rng.choice([rng.uniform(0.01, 10), rng.lognormvariate(0, 2), rng.randrange(1, 40) / 10.0,
                           abs(rand_scaled(rng, -40, 40))])
    if style == "poszero":
        return rng.choice([0.0, -0.0, rng.uniform(0.01, 10), rng.randrange(0, 30) / 10.0, 5e-324])
    raise ValueError(style)


def gen_pairs(rng, n, style):
    if style == "ties":
        pool = [one_value(rng, rng.choice(["ordinary", "decimal", "bits", "zeros", "positive", "huge"]))
                for _ in range(rng.randint(1, 3))]
        ys = [rng.choice(pool) for _ in range(n)]
        zs = [y if rng.random() < 0.7 else rng.choice(pool) for y in ys]
        return ys, zs
    if style == "ulp":
        base = rng.choice(["ordinary", "decimal", "bits", "positive", "zeros", "huge", "subnormal"])
        ys = [one_value(rng, base) for _ in range(n)]
        zs = [ulp_step(y, rng.choice([-2, -1, -1, 0, 1, 1, 2])) for y in ys]
        return ys, zs
    if style == "mixed":
        sts = ["ordinary", "bits", "huge", "subnormal", "zeros", "decimal", "positive", "negative", "scaled"]
        return ([one_value(rng, rng.choice(sts)) for _ in range(n)], [one_value(rng, rng.choice(sts)) for _ in range(n)])
    return [one_value(rng, style) for _ in range(n)], [one_value(rng, style) for _ in range(n)]


def gen_level(rng):
    """-> (level, class)"""
    u = rng.random()
    if u < 0.25:
        return 0.5, "half"
    if u < 0.33:
        return ulp_step(0.5, rng.choice([-1, 1, -2, 2])), "half_ulp"
    if u < 0.45:
        return rng.choice([5e-324, 1e-300, 2.0 ** -53, 2.0 ** -1074 * 3, 1e-17, 1e-3, ulp_step(0.0, 7)]), "near0"
    if u < 0.57:
        return rng.choice([ulp_step(1.0, -1), ulp_step(1.0, -2), 1 - 2.0 ** -52, 1 - 1e-10, 0.999]), "near1"
    if u < 0.72:
        return rng.randrange(1, 10) / 10.0, "decimal"
    if u < 0.82:
        return rng.choice([0.25, 0.75, 0.125, 0.875, 0.0625, 2.0 ** -20]), "dyadic"
    if u < 0.90:
        return rng.uniform(0.0, 1.0) or 0.3, "uniform"
    return rng.choice([0.0, -0.0, 1.0, ulp_step(1.0, 1), -0.3, 2.0, -5e-324, 1e300, -1e300, 1.5]), "invalid"


HES_DEGREES = [2.0] * 10 + [ulp_step(2.0, 1), ulp_step(2.0, -1), 1.0, 1.0, ulp_step(1.0, 1), ulp_step(1.0, -1), 0.0, -0.0,
                            5e-324, -5e-324, 0.5, 0.3, -1.0, -2.5, 1.5, 3.0, 2.5, 1e300, -1e300]
HQS_DEGREES = [1.0] * 10 + [ulp_step(1.0, 1), ulp_step(1.0, -1), 3.0, 5.0, 7.0, 2.0, 4.0, 0.0, -0.0, -1.0, -3.0, 2.5, 3.5,
                            0.5, 2.0 ** 53 - 1, 2.0 ** 53, 2.0 ** 53 + 2, 1e16 + 2, 9007199254740991.0, 1e300,
                            ulp_step(3.0, 1), ulp_step(3.0, -1), 5e-324, 1.0000000000000002e15 + 0.5, 123456789.0,
                            4503599627370497.0, 4503599627370496.5, 2251799813685249.5]


def gen_eta(rng, ys, zs):
    u = rng.random()
    data = ys + zs
    if u < 0.35:
        return rng.choice(data), "data"
    if u < 0.60:
        return ulp_step(rng.choice(data), rng.choice([-1, 1])), "data_ulp"
    if u < 0.70:
        return rng.choice([0.0, -0.0]), "zero"
    if u < 0.80:
        a, b = rng.choice(ys), rng.choice(zs)
        m = a / 2 + b / 2
        return (m if finite(m) else 0.0), "between"
    if u < 0.9:
        return one_value(rng, rng.choice(["ordinary", "decimal", "bits", "huge", "subnormal"])), "random"
    return rng.choice([DBL_MAX, -DBL_MAX, 5e-324, -5e-324, 1e308, -1e308]), "extreme"


FUNS = ["hes"] * 8 + ["hqs"] * 8 + ["elem"] * 10 + ["ident"] * 6 + ["pinball"] * 2 + ["sqerr"] * 2 + ["poisson", "gamma",
                                                                                                      "logloss", "logloss"]


def gen_case(rng, nmax):
    u = rng.random()
    if u < 0.2:
        n = 1
    elif u < 0.85:
        n = rng.randint(1, max(1, min(8, nmax)))
    else:
        n = rng.randint(1, nmax)
    fun = rng.choice(FUNS)
    style = rng.choice(PAIR_STYLES)
    d = dict(fun=fun)
    if fun in ("hes", "hqs"):
        deg = rng.choice(HES_DEGREES if fun == "hes" else HQS_DEGREES)
        d["degree"] = deg.hex()
        d["degree_int"] = bool(deg == int(deg) and abs(deg) < 100 and rng.random() < 0.15 and (deg != 0 or str(deg) == "0.0"))
        # branches with a positivity domain: make the data positive most of the time
        branch_all_reals = (deg == 2 or deg > 1) if fun == "hes" else (deg == 1 or (deg > 1 and deg % 2 == 1))
        if not branch_all_reals and rng.random() < 0.6:
            style = rng.choice(["positive", "positive", "poszero"])
    if fun in ("poisson", "gamma", "logloss") and rng.random() < 0.7:
        style = rng.choice(["positive", "poszero"])
    ys, zs = gen_pairs(rng, n, style)
    if fun == "logloss" and rng.random() < 0.6:
        ys = [rng.choice([0.0, 1.0, rng.random()]) for _ in range(n)]
        zs = [rng.random() or 0.5 for _ in range(n)]
    d["style"] = style
    if fun in ("hes", "hqs", "elem", "pinball", "ident"):
        lv, lc = gen_level(rng)
        d["level"], d["level_class"] = lv.hex(), lc
    if fun in ("elem", "ident"):
        d["functional"] = rng.choice(["mean", "mean", "median", "median", "quantile", "quantile", "quantile", "expectile",
                                      "expectile", "expectile", "foo", ""])
    if fun == "elem":
        e, ec = gen_eta(rng, ys, zs)
        d["eta"], d["eta_class"] = e.hex(), ec
    d["y"], d["z"] = hx(ys), hx(zs)
    return d


def mk(fun, y, z, **kw):
    d = dict(fun=fun, y=hx(y), z=hx(z), style="fixed")
    for k, v in kw.items():
        d[k] = v.hex() if isinstance(v, float) else v
    if "level" in d:
        d["level_class"] = "fixed"
    if "eta" in d:
        d["eta_class"] = "fixed"
    if "degree" in d:
        d.setdefault("degree_int", False)
    return d


U = ulp_step
FIXED = [
    mk("hqs", [1.0, 1.0, 0.0, -0.0], [1.0, U(1.0, 1), -0.0, 0.0], degree=1.0, level=0.5),
    mk("hqs", [1.0, 1.0, 0.0, -0.0], [1.0, U(1.0, -1), -0.0, 0.0], degree=1.0, level=0.1),
    mk("hqs", [DBL_MAX, -DBL_MAX, 1e308], [-DBL_MAX, DBL_MAX, -1e308], degree=1.0, level=0.3),       # z - y overflows
    mk("hqs", [5e-324, 0.0, 1e-310], [0.0, 5e-324, 2e-310], degree=1.0, level=0.9),                  # subnormal products
    mk("hqs", [1.0, 2.0], [3.0, 1.0], degree=1.0, level=U(1.0, -1)),
    mk("hqs", [1.0, 2.0], [3.0, 1.0], degree=1.0, level=5e-324),
    mk("hqs", [1.0, -2.0], [3.0, 1.0], degree=3.0, level=0.5),                                       # odd degree: no domain
    mk("hqs", [1.0, -2.0], [3.0, 1.0], degree=2.0, level=0.5),                                       # even degree: ValueError
    mk("hqs", [1.0, 2.0], [3.0, 1.0], degree=2.0, level=0.5),
    mk("hqs", [1.0, 0.0], [3.0, 1.0], degree=0.0, level=0.5),
    mk("hes", [1.0, 0.1, -0.0, 0.0], [1.0, 0.3, 0.0, -0.0], degree=2.0, level=0.5),
    mk("hes", [1.0, 0.1, -0.0, 0.0], [1.0, 0.3, 0.0, -0.0], degree=2.0, level=0.2),
    mk("hes", [1e200, -1e200, 1e154], [-1e200, 1e200, -1e154], degree=2.0, level=0.7),                # square overflows
    mk("hes", [1e-200, 0.0], [-1e-200, 5e-324], degree=2.0, level=0.7),                               # square underflows
    mk("hes", [1.0, 2.0], [1.0, 3.0], degree=2.0, level=0.0),                                         # constructor raises
    mk("hes", [1.0, 2.0], [1.0, 3.0], degree=2.0, level=1.0),
    mk("hes", [0.0, 2.0], [1.0, 3.0], degree=1.0, level=0.5),
    mk("hes", [-0.0, 2.0], [1.0, 3.0], degree=1.0, level=0.5),                                        # y = -0 >= 0: accepted
    mk("hes", [0.0, 2.0], [0.0, 3.0], degree=1.0, level=0.5),                                         # z = 0: ValueError
    mk("hes", [0.0, 2.0], [1.0, 3.0], degree=0.0, level=0.5),                                         # y = 0: ValueError
    mk("hes", [0.0, 2.0], [1.0, 3.0], degree=0.5, level=0.5),
    mk("hes", [0.0, 2.0], [1.0, 3.0], degree=-1.0, level=0.5),
    mk("hes", [-1.0, 2.0], [1.0, -3.0], degree=3.0, level=0.5),
    mk("elem", [1.0, 2.0, 3.0], [3.0, 2.0, 1.0], eta=2.0, functional="mean", level=0.5),
    mk("elem", [1.0, 2.0, 3.0], [3.0, 2.0, 1.0], eta=2.0, functional="median", level=0.5),
    mk("elem", [1.0, 2.0, 3.0], [3.0, 2.0, 1.0], eta=2.0, functional="quantile", level=0.3),
    mk("elem", [1.0, 2.0, 3.0], [3.0, 2.0, 1.0], eta=2.0, functional="expectile", level=0.3),
    mk("elem", [1.0, 2.0, 3.0], [3.0, 2.0, 1.0], eta=U(2.0, 1), functional="quantile", level=0.3),
    mk("elem", [1.0, 2.0, 3.0], [3.0, 2.0, 1.0], eta=U(2.0, -1), functional="expectile", level=0.3),
    mk("elem", [0.0, -0.0, 0.0, -0.0], [-0.0, 0.0, 1.0, -1.0], eta=0.0, functional="mean", level=0.5),
    mk("elem", [0.0, -0.0, 0.0, -0.0], [-0.0, 0.0, 1.0, -1.0], eta=-0.0, functional="quantile", level=0.5),
    mk("elem", [-1e308, -1e308], [-1e308, 1e308], eta=1e308, functional="mean", level=0.5),            # 0 * inf = NaN
    mk("elem", [-1e308, -1e308], [-1e308, 1e308], eta=1e308, functional="expectile", level=0.25),
    mk("elem", [1.0], [2.0], eta=1.5, functional="foo", level=0.5),                                    # ValueError at the call
    mk("elem", [1.0], [2.0], eta=1.5, functional="mean", level=1.0),                                   # ValueError at construction
    mk("ident", [1.0, 2.0, 0.0], [2.0, 2.0, -0.0], functional="mean", level=0.5),
    mk("ident", [1.0, 2.0, 0.0], [2.0, 2.0, -0.0], functional="median", level=7.0),                    # level neglected
    mk("ident", [1.0, 2.0, 0.0], [2.0, 2.0, -0.0], functional="mean", level=-1.0),
    mk("ident", [1.0, 2.0, 0.0], [2.0, 2.0, -0.0], functional="quantile", level=0.1),
    mk("ident", [1.0, 2.0, 0.0], [2.0, 2.0, -0.0], functional="expectile", level=0.1),
    mk("ident", [1.0, 2.0, 0.0], [2.0, 2.0, -0.0], functional="expectile", level=1.0),
    mk("ident", [1.0, 2.0, 0.0], [2.0, 2.0, -0.0], functional="quantile", level=0.0),
    mk("ident", [1.0], [2.0], functional="mode", level=0.5),
    mk("ident", [DBL_MAX, -DBL_MAX], [-DBL_MAX, DBL_MAX], functional="expectile", level=0.4),
    mk("pinball", [1.0, 2.0, 3.0], [3.0, 2.0, 1.0], level=0.5),
    mk("pinball", [1.0, 2.0, 3.0], [3.0, 2.0, 1.0], level=0.1),
    mk("pinball", [1.0], [3.0], level=1.0),
    mk("sqerr", [1.0, 0.1, 1e200, 5e-324], [3.0, 0.3, -1e200, 0.0]),
    mk("poisson", [0.0, 1.0], [1.0, 2.0]), mk("poisson", [0.0, -1.0], [1.0, 2.0]),
    mk("gamma", [1.0, 1.0], [1.0, 2.0]), mk("gamma", [0.0, 1.0], [1.0, 2.0]),
    mk("logloss", [0.0, 1.0, 0.5], [0.1, 0.9, 0.5]),
]


# ------------------------------------------------------------------ implementation
def params(d):
    p = {}
    if "degree" in d:
        deg = float.fromhex(d["degree"])
        p["degree"] = int(deg) if d.get("degree_int") else deg
    if "level" in d:
        p["level"] = float.fromhex(d["level"])
    if "eta" in d:
        p["eta"] = float.fromhex(d["eta"])
    if "functional" in d:
        p["functional"] = d["functional"]
    return p


def run_impl(d):
    from model_diagnostics.scoring import (ElementaryScore, GammaDeviance, HomogeneousExpectileScore,
                                           HomogeneousQuantileScore, LogLoss, PinballLoss, PoissonDeviance, SquaredError)
    from model_diagnostics.calibration import identification_function
    y = np.array(unhx(d["y"]), dtype=np.float64)
    z = np.array(unhx(d["z"]), dtype=np.float64)
    p = params(d)
    fun = d["fun"]
    try:
        with np.errstate(all="ignore"):
            if fun == "ident":
                r = identification_function(y, z, functional=p["functional"], level=p["level"])
            else:
                if fun == "hes":
                    o = HomogeneousExpectileScore(degree=p["degree"], level=p["level"])
                elif fun == "hqs":
                    o = HomogeneousQuantileScore(degree=p["degree"], level=p["level"])
                elif fun == "elem":
                    o = ElementaryScore(eta=p["eta"], functional=p["functional"], level=p["level"])
                elif fun == "pinball":
                    o = PinballLoss(level=p["level"])
                else:
                    o = {"sqerr": SquaredError, "poisson": PoissonDeviance, "gamma": GammaDeviance, "logloss": LogLoss}[fun]()
                r = o.score_per_obs(y, z)
    except ValueError:
        return ("ValueError",)
    except Exception as e:  # noqa: BLE001
        return ("Other", type(e).__name__ + ": " + str(e)[:100])
    if not isinstance(r, np.ndarray) or r.dtype != np.float64 or r.shape != y.shape:
        return ("Other", f"returned {type(r).__name__} dtype {getattr(r, 'dtype', None)} shape {getattr(r, 'shape', None)}")
    return ("ok", [float(v) for v in r])


def obs_json(obs):
    if obs[0] == "ok":
        return ["ok", [v.hex() if finite(v) else repr(v) for v in obs[1]]]
    return list(obs)


# ------------------------------------------------------------------ judge: the documented statement, exactly
F = Fraction


def expected_error(d):
    """True iff the documentation / domain comments of the source require a ValueError (exact rationals)"""
    fun = d["fun"]
    p = params(d)
    ys, zs = [F(v) for v in unhx(d["y"])], [F(v) for v in unhx(d["z"])]
    lev = F(p["level"]) if "level" in p else None
    if fun in ("hes", "hqs", "elem", "pinball") and not (0 < lev < 1):
        return True
    if fun == "ident":
        if p["functional"] in ("expectile", "quantile") and not (0 < lev < 1):
            return True
        return p["functional"] not in FUNCTIONALS
    if fun == "elem":
        return p["functional"] not in FUNCTIONALS
    deg = {"sqerr": F(2), "poisson": F(1), "gamma": F(0), "pinball": F(1)}.get(fun)
    if fun in ("hes", "hqs"):
        deg = F(p["degree"])
    if fun in ("hes", "sqerr", "poisson", "gamma"):
        if deg == 2 or deg > 1:
            return False
        if deg == 1 or 0 < deg < 1:
            return not all(y >= 0 and z > 0 for y, z in zip(ys, zs))
        return not all(y > 0 and z > 0 for y, z in zip(ys, zs))
    if fun in ("hqs", "pinball"):
        if deg == 1 or (deg > 1 and deg % 2 == 1):
            return False
        return not all(y > 0 and z > 0 for y, z in zip(ys, zs))
    return False      # logloss: no documented ValueError


def ident_exact(functional, lev, y, z):
    ind = 1 if z >= y else 0
    if functional == "mean":
        return z - y
    if functional == "median":
        return ind - F(1, 2)
    if functional == "expectile":
        return 2 * abs(ind - lev) * (z - y)
    return ind - lev


def exact_value(d, i):
    """exact rational value of the documented closed form for observation i, or None (power / log needed)"""
    fun = d["fun"]
    p = params(d)
    y, z = F(float.fromhex(d["y"][i])), F(float.fromhex(d["z"][i]))
    lev = F(p["level"]) if "level" in p else F(1, 2)
    if fun == "sqerr" or (fun == "hes" and F(p["degree"]) == 2):
        s = (z - y) ** 2
        return s if lev == F(1, 2) else 2 * abs((1 if z >= y else 0) - lev) * s
    if fun == "pinball" or (fun == "hqs" and F(p["degree"]) == 1):
        # (1{z >= y} - level) (z - y); for level 1/2 this is |z - y| / 2
        return ((1 if z >= y else 0) - lev) * (z - y)
    if fun == "ident":
        return ident_exact(p["functional"], lev, y, z)
    if fun == "elem":
        eta = F(p["eta"])
        if p["functional"] in ("median", "quantile"):
            t = (1 if eta < z else 0) - (1 if eta < y else 0)
        else:
            t = (1 if eta <= z else 0) - (1 if eta <= y else 0)
        return t * ident_exact(p["functional"], lev, y, eta)
    return None


TINY, HUGE = Fraction(1, 10 ** 280), Fraction(10 ** 300)


def judge_case(d):
    """-> (clauses violated, info, obs)"""
    obs = run_impl(d)
    info = {}
    want_err = expected_error(d)
    if want_err:
        return ([] if obs[0] == "ValueError" else [f"documented domain requires ValueError, observed {obs[0]}"]), info, obs
    if obs[0] != "ok":
        return [f"inside the documented domain, observed {obs}"], info, obs
    bad = []
    vals = obs[1]
    info["nan"] = any(v != v for v in vals)
    info["nonfinite"] = any(not finite(v) for v in vals)
    is_score = d["fun"] != "ident"
    for i, v in enumerate(vals):
        e = exact_value(d, i)
        if v != v:
            if e is not None:
                info.setdefault("nan_where_exact_is", str(float(e)) if abs(e) < HUGE else "huge")
            continue
        if e is None:
            continue            # power / log branches: no exact reference here (and cancellation near degree 0 / 1)
        if is_score and v < 0:
            bad.append(f"obs {i}: negative score {v!r}")
        if e == 0 and v != 0:
            bad.append(f"obs {i}: formula is exactly 0, observed {v!r}")
        y, z = F(float.fromhex(d["y"][i])), F(float.fromhex(d["z"][i]))
        diffs = [abs(z - y)]
        if d["fun"] == "elem":
            diffs = [abs(F(float.fromhex(d["eta"])) - y)]
        ok_range = TINY < abs(e) < HUGE and all(x == 0 or TINY < x < HUGE for x in diffs) \
            and (d["fun"] not in ("hes", "sqerr") or all(x == 0 or TINY < x * x < HUGE for x in diffs))
        if ok_range and finite(v):
            if abs(F(v) - e) > 8 * Fraction(1, 2 ** 53) * abs(e):
                bad.append(f"obs {i}: observed {v!r} is not within 8 * 2^-53 relative of the exact value {float(e)!r}")
    return bad, info, obs


# ------------------------------------------------------------------ Coq output
def flit(v):
    if v != v:
        return "PrimFloat.nan"
    if v == math.inf:
        return "PrimFloat.infinity"
    if v == -math.inf:
        return "PrimFloat.neg_infinity"
    h = float(v).hex()
    return f"({h})" if h[0] == "-" else h


def flist(vs):
    return "[" + "; ".join(flit(v) for v in vs) + "]"


def enc_triple(v):
    p, q = abs(v).as_integer_ratio()
    e = -(q.bit_length() - 1)
    while p and p % 2 == 0:
        p //= 2
        e += 1
    s = "true" if math.copysign(1.0, v) < 0 else "false"
    return f"({flit(v)}, ({s}, {p}%uint63, ({e})%Z))"


def fun_term(d):
    fun = d["fun"]
    g = lambda k: flit(float.fromhex(d[k]))  # noqa: E731
    fn = FUNCTIONALS.get(d.get("functional"), "Fother")
    if fun == "hes":
        return f"(GHes {g('degree')} {g('level')})"
    if fun == "hqs":
        return f"(GHqs {g('degree')} {g('level')})"
    if fun == "elem":
        return f"(GElem {g('eta')} {fn} {g('level')})"
    if fun == "pinball":
        return f"(GPinball {g('level')})"
    if fun == "ident":
        return f"(GIdent {fn} {g('level')})"
    return {"sqerr": "GSquaredError", "poisson": "GPoissonDeviance", "gamma": "GGammaDeviance", "logloss": "GLogLoss"}[fun]


def case_term(d, obs):
    ot = f"(GORes {flist(obs[1])})" if obs[0] == "ok" else ("GOValueError" if obs[0] == "ValueError" else "GOOther")
    return f"mkgcase {fun_term(d)} {flist(unhx(d['y']))} {flist(unhx(d['z']))} {ot}"


def write_shard(path, items):
    encs, seen = [], set()
    for d, obs in items:
        vals = unhx(d["y"]) + unhx(d["z"]) + [float.fromhex(d[k]) for k in ("degree", "level", "eta") if k in d] \
            + (obs[1] if obs[0] == "ok" else [])
        for v in vals:
            if finite(v) and f2b(v) not in seen and len(encs) < 4000:
                seen.add(f2b(v))
                encs.append(enc_triple(v))
    with open(path, "w") as f:
        f.write("From Coq Require Import PrimFloat Uint63 ZArith List Bool.\nImport ListNotations.\n")
        f.write("From MD Require Import lib.NumpyF corr.CmpGenFloat.\nOpen Scope float_scope.\n")
        f.write("Definition cases : list gcase := [\n " + ";\n ".join(case_term(d, o) for d, o in items) + "].\n")
        f.write("Definition enc : list (float * (bool * int * Z)) := [\n " + ";\n ".join(encs) + "].\n")
        f.write("Eval vm_compute in (gsummary cases enc).\n")


def bump(dct, key):
    dct[key] = dct.get(key, 0) + 1


def build(seed, ncases, nmax):
    rng = random.Random(seed)
    dicts = [dict(d) for d in FIXED]
    while len(dicts) < ncases:
        dicts.append(gen_case(rng, nmax))
    dicts = dicts[:max(ncases, 1)]
    stats = dict(cases=len(dicts), fun={}, style={}, level_class={}, eta_class={}, functional={}, observed={},
                 n_hist={}, observations_total=0, nan_outputs=0, nonfinite_outputs=0, ties_y_eq_z=0, one_ulp_pairs=0,
                 eta_equals_data=0, degree_int=0, distinct_doubles=0, closed_form_checked_exactly=0)
    items, fails, observations = [], [], dict(nan=[])
    alld = set()
    for d in dicts:
        bad, info, obs = judge_case(d)
        items.append((d, obs))
        bump(stats["fun"], d["fun"])
        bump(stats["style"], d["style"])
        bump(stats["observed"], obs[0])
        for k in ("level_class", "eta_class", "functional"):
            if k in d:
                bump(stats[k], d[k] or "(empty)")
        n = len(d["y"])
        bump(stats["n_hist"], "1" if n == 1 else "2-3" if n <= 3 else "4-8" if n <= 8 else ">8")
        stats["observations_total"] += n
        ys, zs = unhx(d["y"]), unhx(d["z"])
        stats["ties_y_eq_z"] += sum(1 for a, b in zip(ys, zs) if a == b)
        stats["one_ulp_pairs"] += sum(1 for a, b in zip(ys, zs) if a != b and (ulp_step(a, 1) == b or ulp_step(a, -1) == b))
        if "eta" in d:
            stats["eta_equals_data"] += float.fromhex(d["eta"]) in ys + zs
        stats["degree_int"] += bool(d.get("degree_int"))
        alld.update(d["y"] + d["z"])
        if obs[0] == "ok":
            stats["nan_outputs"] += bool(info.get("nan"))
            stats["nonfinite_outputs"] += bool(info.get("nonfinite"))
            stats["closed_form_checked_exactly"] += exact_value(d, 0) is not None
            if info.get("nan") and "nan_where_exact_is" in info and len(observations["nan"]) < 3:
                observations["nan"].append(dict(case=d, observed=obs_json(obs), exact_value=info["nan_where_exact_is"]))
        if bad:
            fails.append(dict(case=d, clauses=bad, observed=obs_json(obs)))
    stats["distinct_doubles"] = len(alld)
    return dicts, items, stats, fails, observations


def corr(outdir, prefix, seed, ncases, nmax):
    os.makedirs(outdir, exist_ok=True)
    dicts, items, stats, fails, observations = build(seed, ncases, nmax)
    paths = []
    for k, sh in enumerate(common.shard(items, SHARD)):
        p = os.path.join(os.path.abspath(outdir), f"{prefix}_{k}.v")
        write_shard(p, sh)
        paths.append(p)
    json.dump(dicts, open(os.path.join(outdir, prefix + "_cases.json"), "w"))
    pick = [items[0], items[min(len(items) - 1, len(FIXED))], items[-1]]
    samples = [dict(case=d, observed=obs_json(o)) for d, o in pick]
    return dict(paths=paths, shard_size=SHARD, stats=stats, samples=samples, property_failures=fails[:5],
                observations=observations)


def main():
    mode = sys.argv[1]
    if mode == "corr":
        outdir, prefix, seed, ncases, nmax = sys.argv[2:7]
        print(json.dumps(corr(outdir, prefix, int(seed), int(ncases), int(nmax))))
    elif mode == "judge":
        ds = json.load(open(sys.argv[2]))
        out, nnan, nan_obs = [], 0, []
        for d in ds:
            bad, info, obs = judge_case(d)
            if info.get("nan"):
                nnan += 1
                if len(nan_obs) < 3 and "nan_where_exact_is" in info:
                    nan_obs.append(dict(case=d, observed=obs_json(obs), exact_value=info["nan_where_exact_is"]))
            if bad:
                out.append(dict(case=d, clauses=bad, observed=obs_json(obs)))
        print(json.dumps(dict(failures=out, judged=len(ds), nan_outputs=nnan, nan_observations=nan_obs)))
    elif mode == "search":
        seed, budget = int(sys.argv[2]), int(sys.argv[3])
        found, tried, nnan = [], 0, 0
        sp = [0.0, -0.0, 1.0, -1.0, U(1.0, 1), 0.1, 5e-324, 1e308, -1e308, 2.0]
        levels = [0.5, 0.1, U(1.0, -1), 5e-324, 0.0, 1.0]

        def tryit(d):
            nonlocal tried, nnan
            tried += 1
            bad, info, obs = judge_case(d)
            nnan += bool(info.get("nan"))
            if bad:
                found.append(dict(case=d, clauses=bad, observed=obs_json(obs)))

        for y, z in itertools.product(sp, repeat=2):
            for lv in levels:
                if tried >= budget or found:
                    break
                tryit(mk("hes", [y], [z], degree=2.0, level=lv))
                tryit(mk("hqs", [y], [z], degree=1.0, level=lv))
                for fn in ("mean", "median", "quantile", "expectile"):
                    tryit(mk("ident", [y], [z], functional=fn, level=lv))
                    for eta in (y, z, U(y, 1), U(z, -1), 0.5):
                        tryit(mk("elem", [y], [z], eta=eta, functional=fn, level=lv))
        rng = random.Random(seed)
        while not found and tried < budget:
            tryit(gen_case(rng, 6))
        print(json.dumps(dict(tried=tried, failures=found[:3], nan_outputs=nnan)))
    elif mode == "selfcheck":
        outdir, prefix, seed, ncases, nmax = sys.argv[2:7]
        t00 = time.time()
        res = corr(outdir, prefix, int(seed), int(ncases), int(nmax))
        res["harness_seconds"] = round(time.time() - t00, 2)
        t0 = time.time()
        outs = common.run_coqc_parallel(res["paths"], jobs=8)
        res["coqc_wall_seconds"] = round(time.time() - t0, 2)
        summ = {}
        for p in res["paths"]:
            rc, text = outs[p]
            ps = common.parse_summary(text)
            summ[os.path.basename(p)] = dict(rc=rc, bad=None if ps is None else ps[0],
                                             counters=None if ps is None else ps[1], raw=None if ps else text[-600:])
        res["summaries"] = summ
        res["all_empty"] = all(v["rc"] == 0 and v["bad"] == [] and v["counters"] and v["counters"][-1] == 0 for v in summ.values())
        res["notexpr_while_impl_raised"] = sum(v["counters"][-2] for v in summ.values() if v["counters"])
        print(json.dumps(res))
    else:
        raise SystemExit(__doc__)


if __name__ == "__main__":
    main()
