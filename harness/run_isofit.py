"""Correspondence / judge / search harness for class IsotonicRegression (property C11).

  run_isofit.py corr   <outdir> <prefix> <seed> <ncases> <nmax>
      generates structured cases from ONE random.Random(seed), runs the real
      IsotonicRegression.fit / .predict, writes Coq case shards (comparator
      coq/corr/CmpIsoFit.v evaluates model/IsoFit.v on the exact rational inputs),
      writes <outdir>/<prefix>_cases.json, and evaluates the property statement on
      every valid case (-> property_failures).  Last stdout line: one JSON object.
  run_isofit.py judge  <cases.json>
      re-runs the listed case dicts and evaluates the PROPERTY's own statement exactly.
  run_isofit.py search <seed> <budget> [dtypes, default f64,int,f32,i32]
      directed search for an input violating the property statement.

A case dict: X, y, w (or None), inc, functional, level, q (query points),
xdtype in {"f64","int","f32","i32"} (how X is handed to fit), optional kind (malformed).
Every dtype is compared with the numpy.interp model (`predict`): since /repo fix 7007a15 the
thresholds are float64; a non-finite prediction is a correspondence AND a property failure.
"""
import itertools
import json
import math
import os
import random
import sys
import warnings
from fractions import Fraction

import numpy as np

import iso
import judge as J
from common import qlit, qlist, shard, write_case_file

warnings.filterwarnings("ignore")

SHARD = 400
# X handed over as float64 / int64.  Since /repo fix 7007a15 the thresholds are cast to float64, so
# interp1d uses numpy.interp for EVERY dtype; the flag is informational in the Coq case only.
NP_DTYPES = ("f64", "int")


# --------------------------------------------------------------- implementation
def wrap_X(X, xdtype):
    if xdtype == "f64":
        return [float(v) for v in X]
    if xdtype == "int":
        return [int(v) for v in X]
    if xdtype == "f32":
        return np.asarray(X, dtype=np.float32)
    if xdtype == "i32":
        return np.asarray(X, dtype=np.int32)
    raise ValueError(xdtype)


def run_impl(d):
    """('ok', X_thresholds_, y_thresholds_, predictions (None = not finite)) or (exception class,)"""
    from model_diagnostics._utils.isotonic import IsotonicRegression
    if d.get("reuse"):
        # the estimator is constructed with OTHER hyper-parameters, fitted once, and then re-parameterised through its
        # public attributes (scikit-learn convention: fit reads the hyper-parameters at fit time)
        m = IsotonicRegression(increasing=not d["inc"], functional="mean", level=0.5)
        try:
            m.fit([0.0, 1.0, 2.0], [1.0, 0.0, 2.0])
        except Exception:  # noqa: BLE001
            pass
        m.increasing, m.functional, m.level = d["inc"], d["functional"], d["level"]
    else:
        m = IsotonicRegression(increasing=d["inc"], functional=d["functional"], level=d["level"])
    yarg = list(d["y"])
    if d.get("ydtype"):
        yarg = np.asarray(d["y"]).astype({"bool": np.bool_, "u8": np.uint8, "i8": np.int8, "f32": np.float32}[d["ydtype"]])
    try:
        with np.errstate(all="ignore"):
            m.fit(wrap_X(d["X"], d["xdtype"]), yarg, None if d["w"] is None else list(d["w"]))
            p = m.predict(np.asarray(d["q"], dtype=float)) if d["q"] else np.zeros(0)
    except ValueError:
        return ("ValueError",)
    except NotImplementedError:
        return ("NotImplementedError",)
    except IndexError:
        return ("IndexError",)
    except Exception as e:  # noqa: BLE001
        if type(e).__name__ == "ShapeError":
            return ("ShapeError",)
        return ("Other", type(e).__name__)
    xt = [float(v) for v in m.X_thresholds_]
    yt = [float(v) for v in m.y_thresholds_]
    preds = [float(v) if math.isfinite(float(v)) else None for v in np.asarray(p, dtype=float).ravel()]
    return ("ok", xt, yt, preds)


def sorted_frame(d):
    """the (y, w) columns in the order the implementation hands them to isotonic_regression"""
    import polars as pl
    df = pl.DataFrame({"_X": wrap_X(d["X"], d["xdtype"]), "_target_y": list(d["y"])})
    if d["w"] is not None:
        df = df.hstack([pl.Series(name="_weights", values=list(d["w"]))])
    df = df.sort(by=["_X", "_target_y"], descending=[False, d["inc"]])
    yy = [float(v) for v in df["_target_y"].to_numpy()]
    ww = [1.0] * len(yy) if d["w"] is None else [float(v) for v in df["_weights"].to_numpy()]
    return yy, ww


def dyadic_small(vs):
    return all(float(v) * 1024 == int(float(v) * 1024) and abs(v) < 2 ** 20 for v in vs)


def exact_flag(d):
    fn = d["functional"]
    try:
        yy, ww = sorted_frame(d)
    except Exception:  # noqa: BLE001
        return True
    if not yy:
        return True
    if not d["inc"]:
        yy, ww = yy[::-1], ww[::-1]
    if fn == "mean":
        return bool(iso.shadow_pava_exact(yy, ww))
    if fn in ("median", "quantile"):
        return dyadic_small(yy)
    return False


# -------------------------------------------------------------------- generators
X_STYLES = ["distinct", "distinct", "dups", "dups", "dups", "constant", "sorted", "dyadic", "double", "twovals"]


def gen_X(rng, n, style):
    if style == "distinct":
        return [float(v) for v in rng.sample(range(-2 * n - 2, 2 * n + 3), n)]
    if style == "dups":
        k = max(1, rng.randrange(1, n + 1) // rng.choice([1, 2, 3]))
        return [float(rng.randrange(k)) for _ in range(n)]
    if style == "constant":
        return [float(rng.randrange(-3, 4))] * n
    if style == "sorted":
        return sorted(float(rng.randrange(0, n + 2)) for _ in range(n))
    if style == "dyadic":
        return [rng.randrange(-32, 33) / 4.0 for _ in range(n)]
    if style == "double":
        return [rng.uniform(-5, 5) for _ in range(n)]
    if style == "twovals":
        return [float(rng.choice([0, 1])) for _ in range(n)]
    raise ValueError(style)


def gen_queries(rng, X, nq=30):
    xs = sorted(set(X))
    q = list(xs)  # every training point
    for a, b in zip(xs, xs[1:]):
        q.append((a + b) / 2.0)
        if rng.random() < 0.3:
            q.append(a + (b - a) * rng.choice([0.25, 0.75, 0.125]))
    lo, hi = xs[0], xs[-1]
    q += [lo - 1.0, lo - 0.125, hi + 0.125, hi + 1.0, lo - 1000.0, hi + 1000.0]
    for _ in range(4):
        q.append(rng.uniform(lo - 1, hi + 1))
    if len(q) > nq:
        keep = set(rng.sample(range(len(q)), nq))
        q = [v for i, v in enumerate(q) if i in keep]
    rng.shuffle(q)
    return [float(v) for v in q]


def safe_levels(n):
    return [lv for lv in iso.DYADIC_LEVELS + iso.DECIMAL_LEVELS if iso.quantile_float_safe(lv, n)]


def gen_case(rng, nmax, dtypes=("f64", "f64", "f64", "int", "f32", "i32")):
    r = rng.random()
    if r < 0.08:
        n = 1
    elif r < 0.16:
        n = 2
    elif r < 0.40:
        n = rng.randrange(3, 7)
    elif r < 0.88:
        n = rng.randrange(3, max(4, nmax // 2))
    else:
        n = rng.randrange(3, nmax + 1)
    functional = rng.choice(["mean", "mean", "mean", "median", "quantile", "quantile", "expectile", "expectile"])
    xstyle = rng.choice(X_STYLES)
    xdtype = rng.choice(dtypes)
    X = gen_X(rng, n, xstyle)
    vstyle = rng.choice(iso.VALUE_STYLES)
    y = iso.gen_values(rng, n, vstyle)
    if functional in ("median", "quantile"):
        wstyle = "none"
    else:
        wstyle = rng.choice(["none", "none", "ones", "smallint", "smallint", "dyadic", "double"])
    w = iso.gen_weights(rng, n, wstyle)
    if functional == "quantile":
        level = rng.choice(safe_levels(n) or [0.5])
    else:
        level = rng.choice(iso.DYADIC_LEVELS + iso.DECIMAL_LEVELS)
    inc = rng.random() < 0.6
    if xdtype in ("int", "i32") and any(v != int(v) for v in X):
        xdtype = "f64"
    if xdtype == "f32":
        X = [float(np.float32(v)) for v in X]
    q = gen_queries(rng, X)
    return dict(X=X, y=y, w=w, inc=inc, functional=functional, level=level, q=q, xdtype=xdtype,
                xstyle=xstyle, vstyle=vstyle, wstyle=wstyle)


def gen_malformed(rng):
    n = rng.randrange(1, 6)
    X = gen_X(rng, n, "dups")
    y = iso.gen_values(rng, n, "int")
    kind = rng.choice(["xlen", "ylen", "wlen", "wzero", "wneg", "wquantile", "wmedian", "functional", "level0",
                       "level1", "levelneg", "empty", "emptyw", "xone", "wone"])
    d = dict(X=X, y=y, w=None, inc=rng.random() < 0.5, functional="mean", level=0.5, q=[0.0, 1.0],
             xdtype="f64", kind=kind)
    if kind == "xlen":
        d["X"] = X + [1.0]
    elif kind == "ylen":
        d["y"] = y + [1.0, 2.0]
    elif kind == "xone":      # a single X against several y: no broadcasting
        d["X"], d["y"] = [1.0], y + [0.5]
    elif kind == "wone":
        d["X"], d["y"], d["w"] = X + [0.0], y + [0.5], [2.0]
    elif kind == "wlen":
        d["functional"] = rng.choice(["mean", "expectile", "quantile"])
        d["w"] = [1.0] * (n + rng.choice([1, 2]))
    elif kind == "wzero":
        d["functional"] = rng.choice(["mean", "expectile"])
        d["w"] = [1.0] * n
        d["w"][rng.randrange(n)] = 0.0
    elif kind == "wneg":
        d["functional"] = rng.choice(["mean", "expectile"])
        d["w"] = [2.0] * n
        d["w"][rng.randrange(n)] = -1.0
    elif kind == "wquantile":
        d["functional"], d["w"] = "quantile", [1.0] * n
    elif kind == "wmedian":
        d["functional"], d["w"] = "median", [1.0] * n
    elif kind == "functional":
        d["functional"] = rng.choice(["XXX", "Mean", "", "mode"])
    elif kind.startswith("level"):
        d["functional"] = rng.choice(["quantile", "expectile"])
        d["level"] = {"level0": 0.0, "level1": 1.0, "levelneg": -0.25}[kind]
    elif kind == "empty":
        d["X"], d["y"] = [], []
    elif kind == "emptyw":
        d["X"], d["y"], d["w"] = [], [], []
        d["functional"] = rng.choice(["mean", "quantile"])
    return d


EXPECTED_ERR = {"xone": "ShapeError", "wone": "ShapeError", "xlen": "ShapeError", "ylen": "ShapeError", "wlen": "ShapeError", "wzero": "ValueError",
                "wneg": "ValueError", "wquantile": "NotImplementedError", "wmedian": "NotImplementedError",
                "functional": "ValueError", "level0": "ValueError", "level1": "ValueError",
                "levelneg": "ValueError", "empty": "IndexError", "emptyw": None}


# ------------------------------------------------------------------ Coq encoding
def coq_case(d, obs, exact):
    wtxt = "None" if d["w"] is None else f"(Some {qlist(d['w'])})"
    f = iso.FUN_COQ.get(d["functional"], "IFother")
    if obs[0] == "ok":
        ps = "[" + "; ".join("None" if p is None else f"Some {qlit(p)}" for p in obs[3]) + "]"
        o = f"(FRes {qlist(obs[1])} {qlist(obs[2])} {ps})"
    else:
        o = {"ShapeError": "FShapeError", "ValueError": "FValueError", "NotImplementedError": "FNotImplemented",
             "IndexError": "FIndexError"}.get(obs[0], "FOther")
    b = lambda v: "true" if v else "false"  # noqa: E731
    return (f"mkfcase {qlist(d['X'])} {qlist(d['y'])} {wtxt} {b(d['inc'])} {f} "
            f"{qlit(iso.level_fraction(d['level']))} {b(d['xdtype'] in NP_DTYPES)} {b(exact)} {qlist(d['q'])} {o}")


# ------------------------------------------------------- the property, exactly
def F(v):
    return Fraction(v)


def group_rows(d):
    """rows pooled by the exact value of X, ascending: list of (X, [y...], [w...])"""
    n = len(d["X"])
    ws = [F(1)] * n if d["w"] is None else [F(v) for v in d["w"]]
    g = {}
    for x, y, w in zip(d["X"], d["y"], ws):
        k = F(x)
        g.setdefault(k, ([], []))
        g[k][0].append(F(y))
        g[k][1].append(w)
    return [(k, g[k][0], g[k][1]) for k in sorted(g)]


def maxmin_groups_mean(groups):
    G = len(groups)
    sw = [sum(w for w in g[2]) for g in groups]
    swy = [sum(w * y for y, w in zip(g[1], g[2])) for g in groups]
    T = [[None] * G for _ in range(G)]
    for a in range(G):
        s, t = F(0), F(0)
        for b in range(a, G):
            s += swy[b]
            t += sw[b]
            T[a][b] = s / t
    return [max(min(T[a][b] for b in range(k, G)) for a in range(k + 1)) for k in range(G)]


def maxmin_groups(groups, fun):
    G = len(groups)
    T = [[None] * G for _ in range(G)]
    for a in range(G):
        ys, ws = [], []
        for b in range(a, G):
            ys += groups[b][1]
            ws += groups[b][2]
            T[a][b] = fun(ys, ws)
    return [max(min(T[a][b] for b in range(k, G)) for a in range(k + 1)) for k in range(G)]


def pinball_group(ys, v, a):
    return sum(((1 if v >= y else 0) - a) * (v - y) for y in ys)


def pinball_optimum_groups(groups, a):
    """minimum total pinball loss over non-decreasing functions of the group index"""
    vals = sorted({y for g in groups for y in g[1]})
    best = [F(0)] * len(vals)
    for g in groups:
        new, m = [], None
        for k, v in enumerate(vals):
            m = best[k] if m is None else min(m, best[k])
            new.append(m + pinball_group(g[1], v, a))
        best = new
    return min(best)


SCALE = [1.0]      # natural magnitude of the case being judged: min(1, max |y|); tolerances are relative to it


def close(a, b, tol=1e-9):
    return abs(float(a) - float(b)) <= tol * (SCALE[0] + abs(float(a)))


def refit_predict(d, perm, qs):
    d2 = dict(d)
    d2["X"] = [d["X"][i] for i in perm]
    d2["y"] = [d["y"][i] for i in perm]
    d2["w"] = None if d["w"] is None else [d["w"][i] for i in perm]
    d2["q"] = qs
    return run_impl(d2)


def judge_case(d, brute_limit=16):
    """list of violated clauses of C11 on the implementation ([] if none), observation"""
    d = dict(d)
    my = max([abs(float(v)) for v in d["y"]] or [0.0])
    SCALE[0] = min(1.0, my) if my > 0 and math.isfinite(my) else 1.0
    groups = group_rows(d) if d["X"] and len(d["X"]) == len(d["y"]) else []
    xs = [float(g[0]) for g in groups]
    # the judge asks for the predictions at every distinct training X as well
    qs = list(d["q"]) + xs
    d["q"] = qs
    obs = run_impl(d)
    if d.get("kind"):
        want = EXPECTED_ERR[d["kind"]]
        if want is None or obs[0] == want:
            return [], obs
        return [f"expected {want}, observed {obs[0]}"], obs
    if obs[0] != "ok":
        return [f"raised {obs[0]} on valid input"], obs
    bad = []
    preds = obs[3]
    nq = len(qs) - len(xs)
    ptrain = preds[nq:]
    if any(p is None for p in preds):
        bad.append("prediction not finite")
        fin = [(q, p) for q, p in zip(qs, preds) if p is not None]
    else:
        fin = list(zip(qs, preds))
    sgn = 1 if d["inc"] else -1
    # monotone in X in the fitted direction (every pair)
    fs = sorted(fin)
    for (q1, p1), (q2, p2) in zip(fs, fs[1:]):
        if sgn * (p2 - p1) < -1e-12 * (1 + abs(p1)) or (q1 == q2 and p1 != p2):
            bad.append("predictions not monotone in X")
            break
    if all(p is not None for p in ptrain):
        # constant beyond the training range
        for q, p in fin:
            # (1e-12: float PAVA may split a run of equal values by one ulp)
            if q < xs[0] and not close(p, ptrain[0], 1e-12) or q > xs[-1] and not close(p, ptrain[-1], 1e-12):
                bad.append("not constant beyond the training range")
                break
        # between neighbouring fitted values
        for q, p in fin:
            if xs[0] <= q <= xs[-1]:
                k = max(i for i in range(len(xs)) if xs[i] <= q)
                k2 = min(k + 1, len(xs) - 1) if xs[k] < q else k
                lo, hi = sorted((ptrain[k], ptrain[k2]))
                if p < lo - 1e-12 * (1 + abs(lo)) or p > hi + 1e-12 * (1 + abs(hi)):
                    bad.append("prediction not between neighbouring fitted values")
                    break
        # the optimal monotone fit among functions of X
        fn, level = d["functional"], d["level"]
        if fn == "median":
            fn, level = "quantile", 0.5
        a = Fraction(str(level))
        gg = groups if d["inc"] else groups[::-1]
        pt = ptrain if d["inc"] else ptrain[::-1]
        n = len(d["X"])
        if fn == "mean":
            ref = maxmin_groups_mean(gg)
        elif fn == "expectile" and n <= brute_limit:
            ref = maxmin_groups(gg, lambda yy, ww: J.expectile(yy, ww, a))
        else:
            ref = None
        if ref is not None and any(not close(rv, p) for rv, p in zip(ref, pt)):
            bad.append("training predictions differ from the optimal monotone fit among functions of X")
        if fn == "quantile":
            opt = pinball_optimum_groups(gg, a)
            got = sum(pinball_group(g[1], F(p), a) for g, p in zip(gg, pt))
            if float(got - opt) > 1e-9 * (1 + abs(float(opt))):
                bad.append("pinball loss of the training predictions above the optimum among functions of X")
            if n <= brute_limit:
                lower = maxmin_groups(gg, lambda yy, ww: J.qlow(yy, a))
                upper = maxmin_groups(gg, lambda yy, ww: J.qupp(yy, a))
                if any(p < float(l) - 1e-9 * (1 + abs(float(l))) or p > float(u) + 1e-9 * (1 + abs(float(u)))
                       for p, l, u in zip(pt, lower, upper)):
                    bad.append("training predictions outside [smallest, largest optimal solution]")
    # regardless of row order: refit on a shuffled copy of the rows
    n = len(d["X"])
    rr = random.Random(hash((n, round(sum(d["y"]) * 1024))) & 0xFFFFFFFF)
    for _ in range(2):
        perm = list(range(n))
        rr.shuffle(perm)
        o2 = refit_predict(d, perm, qs)
        if o2[0] != "ok":
            bad.append("refit on permuted rows raised " + o2[0])
            break
        if any((p is None) != (p2 is None) or (p is not None and not close(p, p2)) for p, p2 in zip(preds, o2[3])):
            bad.append("predictions depend on the row order")
            break
    # mean: scikit-learn's clipped isotonic regression
    if d["functional"] == "mean":
        from sklearn.isotonic import IsotonicRegression as SK
        sk = SK(out_of_bounds="clip", increasing=bool(d["inc"]))
        sk.fit(np.asarray(d["X"], dtype=float), np.asarray(d["y"], dtype=float),
               sample_weight=None if d["w"] is None else np.asarray(d["w"], dtype=float))
        ps = sk.predict(np.asarray(qs, dtype=float))
        if any(p is None or abs(p - float(s)) > 1e-9 * (1 + abs(float(s))) for p, s in zip(preds, ps)):
            bad.append("differs from scikit-learn's clipped isotonic regression")
    return bad, obs


def minimise(d, fails):
    cur = dict(d)
    changed = True
    while changed:
        changed = False
        n = len(cur["X"])
        for i in range(n):
            if n <= 1:
                break
            c = dict(cur)
            for k in ("X", "y"):
                c[k] = cur[k][:i] + cur[k][i + 1:]
            if cur["w"] is not None:
                c["w"] = cur["w"][:i] + cur["w"][i + 1:]
            c["q"] = [v for v in cur["q"]]
            if fails(c):
                cur, changed = c, True
                break
    for key in ("y", "X"):
        for i in range(len(cur[key])):
            for cand in (float(round(cur[key][i])), 0.0, 1.0):
                if cand != cur[key][i]:
                    c = dict(cur)
                    c[key] = list(cur[key])
                    c[key][i] = cand
                    if fails(c):
                        cur = c
                        break
    xs = sorted(set(cur["X"]))
    cur["q"] = xs + [(a + b) / 2 for a, b in zip(xs, xs[1:])] + ([xs[0] - 1, xs[-1] + 1] if xs else [])
    return cur


def clean(d):
    return {k: d[k] for k in ("X", "y", "w", "inc", "functional", "level", "q", "xdtype", "kind", "ydtype", "reuse") if k in d}


# ---------------------------------------------------------------------- modes
def mode_corr(outdir, prefix, seed, ncases, nmax):
    rng = random.Random(seed)
    cases, dicts, samples, pfails = [], [], [], []
    stats = dict(cases=0, by_functional={}, by_xdtype={}, exact=0, function_compare=0, dup_X=0, constant_X=0,
                 unsorted_X=0, n1=0, n2=0, weighted=0, decreasing=0, errors={}, queries=0, nonfinite_predictions=0,
                 judged=0, sklearn_compared=0, property_failure_counts={})
    nmal = max(1, ncases // 12)
    # a few fixed corner cases first (n = 1, n = 2, constant X, duplicates in the first block)
    fixed = [
        dict(X=[3.0], y=[5.0], w=None, inc=True, functional="mean", level=0.5, xdtype="f64"),
        dict(X=[3.0], y=[5.0], w=None, inc=False, functional="quantile", level=0.25, xdtype="f32"),
        dict(X=[1.0, 2.0], y=[5.0, 3.0], w=None, inc=True, functional="mean", level=0.5, xdtype="int"),
        dict(X=[1.0, 2.0], y=[3.0, 5.0], w=[1.0, 2.0], inc=True, functional="expectile", level=0.25, xdtype="f64"),
        dict(X=[2.0, 2.0], y=[3.0, 5.0], w=None, inc=False, functional="median", level=0.5, xdtype="f64"),
        dict(X=[1.0, 1.0, 2.0], y=[5.0, 5.0, 7.0], w=None, inc=True, functional="mean", level=0.5, xdtype="f64"),
        dict(X=[1.0, 1.0, 2.0], y=[5.0, 5.0, 7.0], w=None, inc=True, functional="mean", level=0.5, xdtype="f32"),
        dict(X=[1.0, 1.0, 2.0, 2.0, 3.0], y=[5.0, 5.0, 7.0, 7.0, 8.0], w=None, inc=True, functional="mean",
             level=0.5, xdtype="i32"),
        dict(X=[4.0, 4.0, 4.0], y=[1.0, 2.0, 6.0], w=[1.0, 2.0, 1.0], inc=True, functional="mean", level=0.5,
             xdtype="f64"),
    ]
    for d in fixed:
        d["q"] = gen_queries(rng, d["X"])
    todo = fixed + [gen_case(rng, nmax) for _ in range(max(0, ncases - len(fixed) - nmal))]
    for d in todo:
        obs = run_impl(d)
        exact = exact_flag(d)
        cases.append(coq_case(d, obs, exact))
        dicts.append(clean(d))
        stats["cases"] += 1
        fn = d["functional"]
        stats["by_functional"][fn] = stats["by_functional"].get(fn, 0) + 1
        stats["by_xdtype"][d["xdtype"]] = stats["by_xdtype"].get(d["xdtype"], 0) + 1
        stats["exact" if exact else "function_compare"] += 1
        X = d["X"]
        stats["dup_X"] += len(set(X)) < len(X)
        stats["constant_X"] += len(set(X)) == 1 and len(X) > 1
        stats["unsorted_X"] += X != sorted(X)
        stats["n1"] += len(X) == 1
        stats["n2"] += len(X) == 2
        stats["weighted"] += d["w"] is not None
        stats["decreasing"] += not d["inc"]
        stats["queries"] += len(d["q"])
        if obs[0] == "ok":
            stats["nonfinite_predictions"] += sum(p is None for p in obs[3])
        else:
            stats["errors"]["valid:" + obs[0]] = stats["errors"].get("valid:" + obs[0], 0) + 1
        bad, jobs = judge_case(d)
        stats["judged"] += 1
        stats["sklearn_compared"] += d["functional"] == "mean"
        if bad:
            key = "|".join(bad) + " @" + d["xdtype"]
            stats["property_failure_counts"][key] = stats["property_failure_counts"].get(key, 0) + 1
            if stats["property_failure_counts"][key] <= 2 and len(pfails) < 12:
                pfails.append(dict(case=clean(d), clauses=bad, observed=jobs))
        if len(samples) < 3 and len(X) >= 3:
            samples.append(dict(case=clean(d), impl=obs))
    for _ in range(nmal):
        d = gen_malformed(rng)
        obs = run_impl(d)
        cases.append(coq_case(d, obs, True))
        dicts.append(clean(d))
        stats["cases"] += 1
        key = d["kind"] + ":" + obs[0]
        stats["errors"][key] = stats["errors"].get(key, 0) + 1
        bad, jobs = judge_case(d)
        if bad:
            key = "|".join(bad) + " @malformed"
            stats["property_failure_counts"][key] = stats["property_failure_counts"].get(key, 0) + 1
            if len(pfails) < 12:
                pfails.append(dict(case=clean(d), clauses=bad, observed=jobs))
    os.makedirs(outdir, exist_ok=True)
    paths = []
    for k, sh in enumerate(shard(cases, SHARD)):
        p = os.path.join(outdir, f"{prefix}_{k}.v")
        body = "Definition cases : list fcase := [\n  " + ";\n  ".join(sh) + "\n]."
        write_case_file(p, "From MD Require Import lib.QLists model.Isotonic model.IsoFit corr.Decode corr.CmpIsoFit.",
                        body, "summary cases")
        paths.append(p)
    json.dump(dicts, open(os.path.join(outdir, prefix + "_cases.json"), "w"))
    print(json.dumps(dict(paths=paths, shard_size=SHARD, stats=stats, samples=samples, property_failures=pfails)))


def mode_judge(path):
    ds = json.load(open(path))
    out = []
    for d in ds:
        bad, obs = judge_case(d)
        if bad:
            if d.get("kind"):
                out.append(dict(case=d, clauses=bad, observed=obs))
                continue
            m = minimise(d, lambda c: bool(judge_case(c)[0]))
            mb, mo = judge_case(m)
            out.append(dict(case=clean(m), clauses=mb, observed=mo))
    print(json.dumps(dict(failures=out)))


def mode_search(seed, budget, dtypes):
    found, tried = [], 0
    seen = set()

    def try_case(d):
        nonlocal tried
        tried += 1
        bad, obs = judge_case(d)
        if bad:
            key = (tuple(bad), d["xdtype"] in NP_DTYPES)
            if key not in seen:
                seen.add(key)
                m = minimise(d, lambda c: bool(judge_case(c)[0]))
                mb, mo = judge_case(m)
                found.append(dict(case=clean(m), clauses=mb, observed=mo))

    # exhaustive small space: X, y over {0,1,2}, n <= 4
    for n in range(1, 5):
        for X in itertools.product([0.0, 1.0, 2.0], repeat=n):
            for y in itertools.product([0.0, 1.0, 2.0], repeat=n):
                if tried >= budget // 2 or len(found) >= 3:
                    break
                k = hash((X, y)) % 7
                fn = ["mean", "mean", "median", "quantile", "expectile", "mean", "quantile"][k]
                w = None if fn in ("median", "quantile") or k % 2 else [[1.0, 2.0][(i + k) % 2] for i in range(n)]
                xs = sorted(set(X))
                q = xs + [(a + b) / 2 for a, b in zip(xs, xs[1:])] + [xs[0] - 1, xs[-1] + 1]
                for xdtype in dtypes:
                    for inc in (True, False):
                        try_case(dict(X=list(X), y=list(y), w=w, inc=inc, functional=fn,
                                      level=0.5 if fn != "quantile" else [0.25, 0.75][k % 2], q=q, xdtype=xdtype))
    # directed probes: tiny magnitudes (exact scaling by 2^-30), exotic y dtypes (same numbers), re-parameterised estimator
    base = [([0.0, 1.0, 2.0, 3.0], [1.0, 2.0, 3.0, 4.0]), ([0.0, 1.0, 2.0, 3.0], [2.0, 1.0, 4.0, 3.0]), ([2.0, 0.0, 1.0, 1.0, 3.0], [1.0, 3.0, 2.0, 5.0, 4.0]),
            ([0.0, 1.0, 2.0], [1.0, 1.5, 1.25])]
    for X, y in base:
        for fn in ("mean", "expectile", "median", "quantile"):
            for inc in (True, False):
                if len(found) >= 3:
                    break
                yy = y if inc else y[::-1]
                xs = sorted(set(X))
                q = xs + [(a + b) / 2 for a, b in zip(xs, xs[1:])] + [xs[0] - 1, xs[-1] + 1]
                lvl = 0.5 if fn in ("mean", "median") else 0.25
                w = None if fn in ("median", "quantile") else [1.0, 2.0, 1.0, 3.0, 1.0][: len(X)]
                d0 = dict(X=list(X), y=list(yy), w=w, inc=inc, functional=fn, level=lvl, q=q, xdtype="f64")
                try_case(dict(d0, y=[v * 2.0 ** -30 for v in yy]))
                try_case(dict(d0, y=[v * 2.0 ** -30 for v in yy], w=None))
                try_case(dict(d0, reuse=True))
    boolish = [([0.0, 1.0, 2.0, 3.0, 4.0], [1.0, 0.0, 1.0, 0.0, 1.0]), ([0.0, 1.0, 2.0, 3.0], [1.0, 1.0, 0.0, 1.0]), ([0.0, 0.0, 1.0, 2.0, 2.0, 3.0], [1.0, 0.0, 1.0, 1.0, 0.0, 1.0])]
    for X, y in boolish:
        for fn in ("mean", "expectile", "median"):
            for ydt in ("bool", "u8", "i8", "f32"):
                for inc in (True, False):
                    if len(found) >= 3:
                        break
                    xs = sorted(set(X))
                    q = xs + [(a + b) / 2 for a, b in zip(xs, xs[1:])]
                    d0 = dict(X=list(X), y=list(y if inc else y[::-1]), w=None, inc=inc, functional=fn, level=0.5, q=q, xdtype="f64", ydtype=ydt)
                    o = run_impl(d0)
                    if o[0] != "ok" and ydt in ("bool", "u8", "i8"):
                        tried += 1
                        continue       # rejecting an exotic dtype is fine; returning wrong numbers for it is not
                    try_case(d0)
    big = [float(v) for v in ([100, 90, 120, 80] * 40)]          # pooled blocks of more than 127 / 255 rows (small-integer weights overflow)
    for ydt in ("u8", "i8"):
        d0 = dict(X=[float(i) for i in range(len(big))], y=[v - 60 if ydt == "i8" else v for v in big], w=None, inc=False, functional="mean", level=0.5,
                  q=[0.0, 80.0, 159.0], xdtype="f64", ydtype=ydt)
        if len(found) < 3 and run_impl(d0)[0] == "ok":
            try_case(d0)
    rng = random.Random(seed)
    while tried < budget and len(found) < 3:
        try_case(gen_case(rng, 14, tuple(dtypes)))
    print(json.dumps(dict(tried=tried, failures=found[:3])))


def main():
    mode = sys.argv[1]
    if mode == "corr":
        outdir, prefix, seed, ncases, nmax = sys.argv[2:7]
        mode_corr(outdir, prefix, int(seed), int(ncases), int(nmax))
    elif mode == "judge":
        mode_judge(sys.argv[2])
    elif mode == "search":
        dt = sys.argv[4].split(",") if len(sys.argv) > 4 else ["f64", "int", "f32", "i32"]
        mode_search(int(sys.argv[2]), int(sys.argv[3]), dt)
    else:
        raise SystemExit(__doc__)


if __name__ == "__main__":
    main()
