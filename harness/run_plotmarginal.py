"""Correspondence / judge / search harness for `plot_marginal` (matplotlib / Agg backend; property C19, companion
statement: the marginal plot draws compute_marginal's numbers).

  run_plotmarginal.py corr   <outdir> <prefix> <seed> <ncases> <nmax>
      generates structured cases from ONE random.Random(seed) (the case generator of run_marginal.py: numeric /
      string / categorical / enum features, nulls and NaN, weights or none, predictors as data, sub-sampling), calls
      the REAL plot_marginal with a fresh Axes (or ax=None), default config or inside config_context, reads the
      Line2D objects of the returned Axes and the bar containers of its twin back, writes Coq case shards
      (coq/corr/CmpPlotMarginal.v evaluates model/PlotMarginal.v over model/Marginal.v on the exact rational inputs),
      writes <outdir>/<prefix>_cases.json and evaluates the property statement on every case.
      Last stdout line: one JSON object {"paths", "shard_size", "stats", "samples", "property_failures"}.
  run_plotmarginal.py judge  <cases.json>
      re-runs the listed case dicts: the artists' data against the REAL compute_marginal called with the same
      arguments (exact float equality where the code only forwards numbers: y data, x data of a numerical feature,
      bar heights = weights / total), the matrices the predictor is shown, labels, returned Axes, configuration.
  run_plotmarginal.py search <seed> <budget>
      small exhaustive spaces first, then seeded random.

A case dict is a run_marginal.py case dict (y, models = [one column], two_d, w, feat, X, pd) plus
  show_lines  "numerical" | "always" | anything else (malformed)
  pred_name   None | name of the polars Series y_pred is handed over as (-> title)
  ax_mode     "given" | "none"         cfg_mode  "default" | "context"
  malformed   optional tag ("show_lines" | "n_bins" | "two_models")
two_d = True hands y_pred over with shape (n_obs, 1) (the message of plots.py line 1000 calls it allowed).
"""
import copy
import itertools
import json
import math
import os
import random
import sys
import warnings
from fractions import Fraction

warnings.filterwarnings("ignore")

import matplotlib

matplotlib.use("Agg")
import matplotlib.colors as mcolors
import matplotlib.ticker as mticker
import numpy as np
import polars as pl

import run_bias as rbias
import run_binning as rb
import run_marginal as rm
from common import shard, write_case_file
from run_plots import Call

np.seterr(all="ignore")

F = Fraction
SHARD = 400
ITEMS = [("y_obs_mean", "mean y_obs"), ("y_pred_mean", "mean y_pred"), ("partial_dependence", "partial dependence")]
STYLE_COQ = {"None": "LSNone", "-": "LSSolid", "--": "LSDashed"}
EXC_COQ = {"ValueError": "PEValue", "TypeError": "PEType", "ComputeError": "PECompute", "InvalidOperationError": "PEInvalidOp",
           "IndexError": "PEIndex", "ZeroDivisionError": "PEZeroDiv"}
GREY = mcolors.to_rgba("grey")


# ------------------------------------------------------------------ calling
def build_args(d):
    """the arguments shared by plot_marginal and compute_marginal, and the recording predictor"""
    fd = d["feat"]
    y = np.array(d["y"], dtype=float)
    cols = d["models"]
    if len(cols) == 1 and not d.get("two_d"):
        z = np.array(cols[0], dtype=float)
        if d.get("pred_name"):
            z = pl.Series(d["pred_name"], z)
    else:
        z = np.array(cols, dtype=float).T.reshape(len(d["y"]), len(cols))
    w = None if d["w"] is None else np.array(d["w"], dtype=float)
    kw = dict(n_bins=fd["n_bins"], bin_method=fd["method"])
    rec = None
    if d["pd"] is not None:
        rec = rm.Recorder(d["pd"]["pred"], rm.codes(fd) if rm.is_str(fd) else {}, d["X"]["j"])
        if "n_max" in d["pd"]:
            kw["n_max"] = d["pd"]["n_max"]
        if d["pd"].get("seed") is not None:
            kw["rng"] = d["pd"]["seed"]
    args = dict(y_obs=y, y_pred=z, X=rm.build_X(d), feature_name=rm.feature_name_arg(d), predict_function=rec, weights=w, **kw)
    return args, rec


def fnum(v):
    if v is None:
        return None
    v = float(v)
    return None if (math.isnan(v) or math.isinf(v)) else v


def lab(s):
    s = None if s is None else str(s)
    return None if s is None or s.startswith("_") else s


def read_axes(ax):
    """what is on the returned Axes and on its twin"""
    fig = ax.figure
    twins = [a for a in fig.axes if a is not ax]
    series, structure = [], True
    for ln in ax.get_lines():
        pts = [[fnum(a), fnum(b)] for a, b in np.asarray(ln.get_xydata(), dtype=float)]
        raw = [[float(a), float(b)] for a, b in np.asarray(ln.get_xydata(), dtype=float)]
        mk = ln.get_marker()
        if mk == "o":
            series.append(dict(label=lab(ln.get_label()), style=str(ln.get_linestyle()), main=pts, raw=raw, null=None, null_raw=None))
        elif mk == "D" and series and series[-1]["null"] is None and len(pts) == 1 and lab(ln.get_label()) is None \
                and str(ln.get_linestyle()) == "None":
            series[-1]["null"] = pts[0]
            series[-1]["null_raw"] = raw[0]
        else:
            structure = False
    bars, hist, heights = [], False, []
    if len(twins) == 1:
        conts = list(twins[0].containers)
        for c in conts:
            bars.append([[float(r.get_x() + r.get_width() / 2), float(r.get_width()), fnum(r.get_height())] for r in c.patches])
            heights.append([float(v) for v in np.asarray(c.datavalues, dtype=float)])
        if conts and len(conts[0].patches) > 0:
            hist = all(tuple(r.get_edgecolor()) == GREY for r in conts[0].patches)
        if len(twins[0].get_lines()) or len(ax.containers):
            structure = False
    else:
        structure = False
    xticks = None
    if isinstance(ax.xaxis.get_major_locator(), mticker.FixedLocator):
        xticks = dict(pos=[float(v) for v in ax.get_xticks()], labels=[t.get_text() for t in ax.get_xticklabels()])
    lg = ax.get_legend()
    return dict(series=series, bars=bars, heights=heights, hist=hist, xticks=xticks, xlabel=ax.get_xlabel(), ylabel=ax.get_ylabel(),
                title=ax.get_title(), legend=None if lg is None else [t.get_text() for t in lg.get_texts()], structure=structure,
                n_axes=len(fig.axes))


def run_impl(d):
    from model_diagnostics.calibration import plot_marginal
    args, rec = build_args(d)
    c = Call(d).run(plot_marginal, show_lines=d.get("show_lines", "numerical"), **args)
    calls = [] if rec is None else rec.calls
    if c.exc is not None:
        o = dict(status="err", exc=type(c.exc).__name__, msg=str(c.exc)[:160], config_unchanged=c.config_unchanged)
    else:
        o = dict(status="ok", returned_is_ax=c.returned_is_ax, config_unchanged=c.config_unchanged, **read_axes(c.ret))
    o["_calls"] = calls
    c.close()
    return o


def reference(d):
    """the REAL compute_marginal with the same arguments -> (df | ("err", class, msg), predictor calls)"""
    from model_diagnostics.calibration import compute_marginal
    args, rec = build_args(d)
    try:
        with np.errstate(all="ignore"):
            df = compute_marginal(**args)
    except Exception as e:  # noqa: BLE001
        return ("err", type(e).__name__, str(e)[:160]), ([] if rec is None else rec.calls)
    return df, ([] if rec is None else rec.calls)


def expected_name(d):
    """the name compute_marginal gives the feature column"""
    xd = d["X"]
    if xd["container"] == "polars":
        return f"x{xd['j']}"
    return f"feature {xd['j']}" if xd["by"] == "index" else "feature"


def items_of(d):
    return ITEMS if d["pd"] is not None else ITEMS[:2]


# ------------------------------------------------------------------ the property
def same(a, b):
    """exact equality of two floats, NaN = NaN = null"""
    a = math.nan if a is None else float(a)
    b = math.nan if b is None else float(b)
    return (math.isnan(a) and math.isnan(b)) or a == b


def near(a, b, tol=1e-9):
    if a is None or b is None:
        return a is None and b is None
    return abs(a - b) <= tol * (1 + abs(a))


def table_of(df):
    fcol = df.columns[0]
    rows = df.to_dicts()
    for r in rows:
        if r[fcol] is not None and not isinstance(r[fcol], (int, float)):
            r[fcol] = str(r[fcol])
    return fcol, "bin_edges" not in df.columns, rows


def null_geometry(rows, fcol):
    """(x_null, width) of a numerical feature, as lines 1126-1137 compute them (floats)"""
    xs = [float(r[fcol]) for r in rows if r[fcol] is not None]
    n_x = len({("null" if r[fcol] is None else float(r[fcol])) for r in rows})
    x_min, x_max = min(xs), max(xs)
    if n_x == 1:
        x_null = 0.0
    elif n_x == 2:
        x_null = 2 * x_max
    else:
        x_null = x_max + (x_max - x_min) / n_x
    width = x_null - max(r["bin_edges"][2] for r in rows if r[fcol] is not None)
    if width <= 0:
        width = (x_max - x_min) / n_x / 2.0
    return x_null, width


def degenerate_float(r, fcol):
    lo, sd, hi = r["bin_edges"]
    return lo == hi or lo == r[fcol] or hi == r[fcol] or sd == 0


def judge_plot(d, o, df, ref_calls):
    """the drawn data against compute_marginal's frame `df`"""
    bad = []
    fcol, is_cat, rows = table_of(df)
    nn = [r for r in rows if r[fcol] is not None]
    nulls = [r for r in rows if r[fcol] is None]
    items = items_of(d)
    if not o["structure"] or o["n_axes"] != 2:
        return ["unexpected artists on the axes (lines other than one 'o' line per column each followed by at most one 'D' line, "
                "or not exactly one twin axis with the bars)"]
    if len(o["series"]) != len(items):
        return [f"{len(o['series'])} series drawn, expected {[lb for _, lb in items]}"]
    total = float(df["weights"].sum())
    for (col, label), s in zip(items, o["series"]):
        if s["label"] != label:
            bad.append(f"series label {s['label']!r}, expected {label!r}")
        if is_cat:
            want = [(float(k), r[col]) for k, r in enumerate(nn)]
            style = "None" if d.get("show_lines", "numerical") == "numerical" else ("--" if col == "partial_dependence" else "-")
        else:
            want = [(math.nan if r[fcol] is None else float(r[fcol]), r[col]) for r in rows]
            style = "--" if col == "partial_dependence" else "-"
        got = s["raw"]
        if len(got) != len(want) or any(not same(g[1], wv[1]) for g, wv in zip(got, want)):
            bad.append(f"the y data of the series {label!r} are not compute_marginal's column {col} (in table order)")
        elif any(not same(g[0], wv[0]) for g, wv in zip(got, want)):
            bad.append(f"the x data of the series {label!r} are not " + ("0, 1, .. per non-null category" if is_cat else
                                                                          "compute_marginal's feature column (bin means)"))
        if sum(1 for g in got if not math.isnan(g[0])) != len(nn):
            bad.append("not exactly one visible point per non-null group")
        if s["style"] != style:
            bad.append(f"line style {s['style']!r} of the series {label!r}, expected {style!r}")
        if (s["null"] is None) != (not nulls):
            bad.append("the Null marker is missing" if nulls else "a Null marker is drawn without a null group")
        elif nulls:
            if not same(s["null_raw"][1], nulls[0][col]):
                bad.append(f"the Null marker of the series {label!r} is not compute_marginal's {col} of the null group")
            xn = float(len(rows) - 1) if is_cat else (null_geometry(rows, fcol)[0] if nn else None)
            if xn is not None and not near(xn, s["null_raw"][0], 1e-12):
                bad.append("the Null marker is not at the position right of the last group")
    # bars
    want_cont = 1 + (1 if nulls else 0)
    if len(o["bars"]) != want_cont:
        bad.append(f"{len(o['bars'])} bar containers on the twin axis, expected {want_cont}")
    else:
        hs = o["heights"][0] + (o["heights"][1] if nulls else [])
        # polars divides a Series by a scalar by multiplying with its reciprocal: both roundings are "the number forwarded"
        want_h = [(r["weights"] / total, r["weights"] * (1.0 / total)) if total != 0 else (math.nan, math.nan) for r in nn + nulls[:1]]
        if len(hs) != len(want_h) or any(not same(a, b[0]) and not same(a, b[1]) and not (total == 0) for a, b in zip(hs, want_h)):
            bad.append("the bar heights are not compute_marginal's weights divided by their total")
        elif total != 0:
            tw = sum(F(r["weights"]) for r in rows)
            if any(not near(float(F(r["weights"]) / tw), h, 1e-12) for r, h in zip(nn + nulls[:1], hs)):
                bad.append("the bar heights are not weights over total weight")
            if not near(1.0, float(sum(F(h) for h in hs)), 1e-9):
                bad.append("the bar heights do not sum to 1")
        main = o["bars"][0]
        if len(main) == len(nn):
            nac = (not is_cat) and all(degenerate_float(r, fcol) for r in nn)
            for k, (r, b) in enumerate(zip(nn, main)):
                if is_cat:
                    wx, ww = float(k), 0.8
                elif nac:
                    wx, ww = float(r[fcol]), 0.8
                else:
                    lo, _, hi = r["bin_edges"]
                    wx, ww = 0.5 * (hi + lo), (hi - lo) * (1 if len(nn) > 2 else 0.8)
                if not near(wx, b[0]) or not near(ww, b[1]):
                    bad.append("bar positions / widths are not " + ("one unit bar per category" if is_cat else
                                                                   ("one bar at every bin mean" if nac else "the bins [lower edge, upper edge]")))
                    break
            if main and o["hist"] != (not is_cat and not nac):
                bad.append("histogram style (grey edges) on the wrong kind of feature")
        if nulls and len(o["bars"]) == 2 and len(o["bars"][1]) == 1:
            b = o["bars"][1][0]
            if is_cat:
                wx, ww = float(len(rows) - 1), 0.8
            else:
                wx, ww = null_geometry(rows, fcol) if nn else (None, None)
            if wx is not None and (not near(wx, b[0]) or not near(ww, b[1])):
                bad.append("the bar of the null group is not at the Null marker / has not the expected width")
    # texts
    if is_cat:
        wl = [r[fcol] for r in nn] + ["Null"] * len(nulls)
        if o["xticks"] is None or o["xticks"]["labels"] != wl or o["xticks"]["pos"] != [float(k) for k in range(len(rows))]:
            bad.append(f"tick labels {None if o['xticks'] is None else o['xticks']['labels']} are not the categories in table order (Null last)")
        wxl = fcol
    else:
        if o["xticks"] is not None:
            bad.append("fixed ticks on a numerical feature")
        wxl = "binned " + fcol
    if o["xlabel"] != wxl:
        bad.append(f"x label {o['xlabel']!r}, expected {wxl!r}")
    wt = "Marginal Plot" + ((" " + d["pred_name"]) if d.get("pred_name") else "")
    if o["title"] != wt:
        bad.append(f"title {o['title']!r}, expected {wt!r}")
    wlg = [lb for _, lb in items] + (["Null values"] if nulls else [])
    if o["legend"] != wlg:
        bad.append(f"legend {o['legend']}, expected {wlg}")
    if o["_calls"] != ref_calls:
        bad.append("the predictor is not shown the matrices compute_marginal shows it with the same arguments "
                   "(X / weights / n_max / rng not passed through)")
    return bad


def common_clauses(d, o):
    bad = []
    if o.get("status") == "ok" and not o.get("returned_is_ax", True):
        bad.append("returned object is not the Axes that was passed in" if d.get("ax_mode", "given") == "given"
                   else "ax=None: returned object is not the current Axes of the current figure")
    if not o.get("config_unchanged", True):
        bad.append("get_config() changed by the call")
    return bad


def judge_case(d, o=None):
    """-> (violated clauses, observation, reference frame | error)"""
    if o is None:
        try:
            o = run_impl(d)
        except Exception as e:  # noqa: BLE001
            return [f"harness could not read the plot back: {type(e).__name__}: {e}"], dict(status="harness", _calls=[]), None
    bad = common_clauses(d, o)
    mal = d.get("malformed")
    if mal in ("show_lines", "two_models"):
        if o["status"] == "ok":
            bad.append(f"invalid arguments accepted ({mal})")
        elif o["exc"] != "ValueError":
            bad.append(f"{mal}: raised {o['exc']} instead of ValueError")
        return bad, o, None
    ref, ref_calls = reference(d)
    if isinstance(ref, tuple):
        if o["status"] == "ok":
            bad.append(f"plot drawn although compute_marginal raises {ref[1]}")
        elif o["exc"] != ref[1]:
            bad.append(f"raised {o['exc']} where compute_marginal raises {ref[1]}")
        return bad, o, ref
    if d.get("two_d"):
        # compute_marginal's frame starts with the column "model": the feature is the second column
        if o["status"] != "ok":
            bad.append(f"y_pred of shape (n_obs, 1) (allowed by the message of line 1000): raised {o['exc']}: {o['msg']}")
        else:
            bad.append("y_pred of shape (n_obs, 1): the column 'model' is plotted as the feature "
                       f"(x label {o['xlabel']!r}, ticks {None if o['xticks'] is None else o['xticks']['labels']})")
        return bad, o, ref
    if o["status"] != "ok":
        bad.append(f"raised {o['exc']} on valid input ({d['feat']['ftype']} feature; compute_marginal returns {ref.shape[0]} rows): {o['msg']}")
        return bad, o, ref
    if ref.columns[0] != expected_name(d):
        bad.append(f"harness: feature column is named {ref.columns[0]!r}, the harness expects {expected_name(d)!r}")
    return bad + judge_plot(d, o, ref, ref_calls), o, ref


# ------------------------------------------------------------------ float decisions the exact model could take differently
def fragile(d, df):
    """a numerical feature on which a float comparison of the code (num_as_cat, width <= 0) and the same
    comparison in exact arithmetic disagree: dropped from the Coq shards (counted)"""
    fd = d["feat"]
    if rm.is_str(fd):
        return False
    fcol, _, rows = table_of(df)
    nn = [r for r in rows if r[fcol] is not None]
    nulls = [r for r in rows if r[fcol] is None]
    try:
        groups = rbias.group_rows(dict(y=d["y"], feat=fd))
    except Exception:  # noqa: BLE001
        return True
    if groups == ("nan",) or len(groups) != len(rows):
        return True
    cells = rb.numeric_cells(fd)
    ex = []
    for (lb, members) in groups:
        if lb is None:
            continue
        vals = [cells[i] for i in members]
        if any(not isinstance(v, Fraction) for v in vals):
            return True
        m = sum(vals) / len(vals)
        ex.append((m, sum((v - m) ** 2 for v in vals) / len(vals)))
    if len(ex) != len(nn):
        return True
    dec_f = all(degenerate_float(r, fcol) for r in nn)
    dec_e = all(F(r["bin_edges"][0]) == F(r["bin_edges"][2]) or F(r["bin_edges"][0]) == m or F(r["bin_edges"][2]) == m or v == 0
                for r, (m, v) in zip(nn, ex))
    if dec_f != dec_e:
        return True
    if nulls and nn:
        n_x = len(rows)
        xs = [m for m, _ in ex]
        x_min, x_max = min(xs), max(xs)
        x_null = 2 * x_max if n_x == 2 else x_max + (x_max - x_min) / n_x
        w_e = x_null - max(F(r["bin_edges"][2]) for r in nn)
        xf = [float(r[fcol]) for r in nn]
        xnf = 2 * max(xf) if n_x == 2 else max(xf) + (max(xf) - min(xf)) / n_x
        w_f = xnf - max(r["bin_edges"][2] for r in nn)
        if (w_e <= 0) != (w_f <= 0):
            return True
    return False


# ------------------------------------------------------------------ Coq encoding
def optq(v):
    return "None" if v is None else f"(Some {rm.qlit(v)})"


def coq_obs(o):
    if o["status"] != "ok":
        return EXC_COQ.get(o["exc"], "PEOther")
    if not o["structure"] or any(s["style"] not in STYLE_COQ for s in o["series"]) or o["legend"] is None:
        return "PEOther"
    ser = []
    for s in o["series"]:
        main = "[" + "; ".join(f"({optq(p[0])}, {optq(p[1])})" for p in s["main"]) + "]"
        nul = "None" if s["null"] is None else f"(Some ({optq(s['null'][0])}, {optq(s['null'][1])}))"
        lb = "None" if s["label"] is None else f"(Some {rb.slit(s['label'])})"
        ser.append(f"mkoser {lb} {STYLE_COQ[s['style']]} {main} {nul}")
    bars = []
    for cont in o["bars"]:
        if any(b[0] is None or b[1] is None or math.isnan(b[0]) or math.isnan(b[1]) for b in cont):
            return "PEOther"
        bars.append("[" + "; ".join(f"mkobar {rm.qlit(b[0])} {rm.qlit(b[1])} {optq(b[2])}" for b in cont) + "]")
    ticks = "None" if o["xticks"] is None else "(Some [" + "; ".join(rb.slit(s) for s in o["xticks"]["labels"]) + "])"
    return (f"(PObs [{'; '.join(ser)}] [{'; '.join(bars)}] {'true' if o['hist'] else 'false'} {ticks} {rb.slit(o['xlabel'])} "
            f"{rb.slit(o['title'])} [{'; '.join(rb.slit(s) for s in o['legend'])}])")


SL_COQ = {"numerical": "SLNumerical", "always": "SLAlways"}


def coq_case(d, o):
    m = rm.coq_case(d, ("err", "-", ""))                    # the inputs; c_obs = OBOther is not used
    return (f"mkpmc ({m}) {'true' if d.get('two_d') else 'false'} {SL_COQ.get(d.get('show_lines', 'numerical'), 'SLInvalid')} "
            f"{rb.slit(expected_name(d))} {rb.slit(d.get('pred_name') or '')} {coq_obs(o)}")


# ------------------------------------------------------------------ generators
def decorate(rng, d):
    d["models"] = d["models"][:1]
    d["two_d"] = False
    d["show_lines"] = rng.choice(["numerical", "numerical", "numerical", "always", "always"])
    d["pred_name"] = rng.choice([None, None, None, "m1", "model_a"])
    d["ax_mode"] = "none" if rng.random() < 0.15 else "given"
    d["cfg_mode"] = "context" if rng.random() < 0.3 else "default"
    return d


def gen_case(rng, nmax):
    while True:
        d = rm.gen_case(rng, nmax, malformed=False)
        if d["feat"] is None or d["X"] is None:
            continue
        vals = d["feat"]["values"]
        allnull = all(v is None or v == "nan" for v in vals)
        if allnull and d["feat"]["ftype"] == "str":
            continue                    # an untyped all-null column has dtype Null, not String
        if allnull and not rm.is_str(d["feat"]) and rng.random() < 0.75:
            continue                    # the TypeError of line 1135 (finding): thinned out
        break
    d = decorate(rng, d)
    r = rng.random()
    if r < 0.03:
        d["two_d"] = True                       # shape (n_obs, 1)
        d["pred_name"] = None
    elif r < 0.05:
        d["malformed"] = "show_lines"
        d["show_lines"] = rng.choice(["never", "", "Always"])
    elif r < 0.07:
        d["malformed"] = "n_bins"
        d["feat"]["n_bins"] = rng.choice([0, 1])
    elif r < 0.09:
        d["malformed"] = "two_models"
        d["models"] = [d["models"][0], [v + 1.0 for v in d["models"][0]]]
        d["two_d"] = True
        d["pred_name"] = None
    return d


def plot_case(base, **kw):
    d = copy.deepcopy(base)
    d["models"] = d["models"][:1]
    d.update(dict(two_d=False, show_lines="numerical", pred_name=None, ax_mode="given", cfg_mode="default"))
    d.update(kw)
    return d


def num_case(values, n_bins, method, pd=True, w=None, container="f64", **kw):
    n = len(values)
    d = dict(y=[float(i % 4) for i in range(n)], models=[[float((3 * i + 1) % 5) for i in range(n)]], two_d=False, w=w,
             feat=dict(ftype="float", values=list(values), n_bins=n_bins, method=method),
             X=dict(container=container, others=[[float(i % 3)] for i in range(n)], j=0, by="index"),
             pd=dict(pred=dict(c0=1.0, cs=[0.5, 2.0], d=0.25, a=0, b=1, h=3.0, s=0, t=1.0, kind="full")) if pd else None)
    return plot_case(d, **kw)


def fixed_cases():
    out = [plot_case(c) for c in rm.FIXED if c["feat"] is not None]
    out += [
        # docstring-like: numerical feature, partial dependence, no nulls: histogram
        num_case([0.0, 1.0, 2.0, 3.0, 4.0, 5.0, 6.0, 7.0, 8.0, 9.0], 3, "uniform", pred_name="m1"),
        # nulls: the null row is the first row of the frame
        num_case([0.0, 1.0, "nan", 3.0, 10.0, "nan", 4.0, 7.0], 3, "uniform", w=[1.0, 2.0, 3.0, 1.0, 2.0, 3.0, 1.0, 0.5]),
        # two bins only: bars shrunk to 0.8 of the bin
        num_case([0.0, 1.0, 2.0, 3.0, 4.0, 5.0], 2, "uniform", pd=False),
        # every bin degenerate: drawn like a categorical feature (num_as_cat)
        num_case([1.0, 1.0, 2.0, 2.0, "nan", 3.0], 5, "quantile"),
        num_case([1.0, 1.0, 2.0, 2.0, 3.0, 3.0], 5, "quantile", show_lines="always"),
        # one bin and nulls (n_x = 2): x_null = 2 * x_max, also for x_max <= 0
        num_case([-3.0, -3.0, -3.0, "nan", -3.0], 4, "uniform"),
        num_case([0.0, 0.0, "nan", 0.0], 4, "uniform", pd=False),
        num_case([2.0, 4.0, "nan", 4.0], 4, "quantile", ax_mode="none", cfg_mode="context"),
        # width of the null bar <= 0: replaced
        num_case([0.0, 0.0, 0.0, 0.0, 1.0, 100.0, "nan"], 2, "uniform"),
        # FINDING: numerical feature without any non-null value: TypeError at line 1135
        num_case(["nan", "nan", "nan"], 3, "uniform", pd=False),
        # FINDING: y_pred of shape (n_obs, 1)
        num_case([0.0, 1.0, 2.0, 3.0, 4.0, 5.0], 3, "uniform", pd=False, two_d=True),
        plot_case(rm.str_case(["b", "a", "c", "a", "c", "d"], 10, pd=False), two_d=True),
        plot_case(rm.str_case(["a", "a", "a"], 10, pd=False), two_d=True),
        # string-like features: show_lines, nulls, pooled category, weights
        plot_case(rm.str_case(["b", "a", None, "a", "c", "d", "e", "e"], 3, ftype="strnull"), show_lines="always",
                  w=[1.0, 2.0, 3.0, 4.0, 5.0, 6.0, 7.0, 8.0]),
        plot_case(rm.str_case(["b", "a", None, "a", "c", "d"], 3, ftype="cat"), ax_mode="none", pred_name="model_a"),
        plot_case(rm.str_case(["zz"] * 3 + ["yy"] * 2 + ["xx", "ww", "vv"], 3), show_lines="always", cfg_mode="context"),
        # malformed
        num_case([0.0, 1.0, 2.0, 3.0], 3, "uniform", pd=False, show_lines="never", malformed="show_lines"),
        num_case([0.0, 1.0, 2.0, 3.0], 1, "uniform", pd=False, malformed="n_bins"),
    ]
    d = num_case([0.0, 1.0, 2.0, 3.0], 3, "uniform", pd=False, two_d=True, malformed="two_models")
    d["models"] = [d["models"][0], [1.0, 1.0, 2.0, 2.0]]
    out.append(d)
    return out


# ------------------------------------------------------------------ reporting
def clean(d):
    return {k: v for k, v in d.items() if not k.startswith("_")}


def clause_class(c):
    for head in ("series label", "line style", "tick labels", "x label", "title", "legend", "raised", "y_pred of shape (n_obs, 1)",
                 "plot drawn although", "harness"):
        if c.startswith(head):
            return head + (" on valid input" if head == "raised" and "on valid input" in c else "")
    for key in ("the y data of the series", "the x data of the series", "the Null marker of the series"):
        if c.startswith(key):
            return key + " " + c.split("'")[1]
    return c.split(" (")[0]


def failure_key(bad):
    return tuple(sorted({clause_class(c) for c in bad}))


def summarise(o):
    s = {k: v for k, v in o.items() if k not in ("_calls", "heights")}
    for ser in s.get("series", []):
        ser.pop("raw", None)
        ser.pop("null_raw", None)
    return s


def drop_rows(c, idx):
    """the case without the rows idx; None when the case would change its nature"""
    idx = set(idx)
    keep = [i for i in range(len(c["y"])) if i not in idx]
    if not keep:
        return None
    c = copy.deepcopy(c)
    c["y"] = [c["y"][i] for i in keep]
    c["models"] = [[m[i] for i in keep] for m in c["models"]]
    if c["w"] is not None:
        c["w"] = [c["w"][i] for i in keep]
        if sum(c["w"]) == 0:
            return None
    c["feat"]["values"] = [c["feat"]["values"][i] for i in keep]
    c["X"]["others"] = [c["X"]["others"][i] for i in keep]
    if c["pd"] is not None and c["pd"].get("n_max") is not None and c["pd"]["n_max"] < len(c["y"]) + len(idx):
        return None                      # the draw depends on n: sub-sampled cases stay as they are
    return c


def minimise(d, key, budget=120):
    """delta debugging on the rows (blocks of n/2, n/4, .., 1) with a bounded number of evaluations"""
    cur = copy.deepcopy(d)
    used = 0

    def fails(c):
        nonlocal used
        used += 1
        try:
            return failure_key(judge_case(c)[0]) == key
        except Exception:  # noqa: BLE001
            return False
    size = max(1, len(cur["y"]) // 2)
    while size >= 1 and used < budget:
        i, changed = 0, False
        while i < len(cur["y"]) and used < budget:
            c = drop_rows(cur, range(i, min(i + size, len(cur["y"]))))
            if c is not None and fails(c):
                cur, changed = c, True
            else:
                i += size
        if size == 1 and not changed:
            break
        size = size // 2 if size > 1 else (1 if changed else 0)
    return cur


def failure_entry(d, key):
    m = minimise(d, key)
    bad, o, _ = judge_case(m)
    return dict(case=clean(m), clauses=bad, observed=summarise(o))


# ------------------------------------------------------------------ modes
def mode_corr(outdir, prefix, seed, ncases, nmax):
    rng = random.Random(seed)
    todo = fixed_cases()
    if ncases >= 50:
        todo += [decorate(rng, c) for c in rm.large_cases(rng)]
    todo += [gen_case(rng, nmax) for _ in range(max(0, ncases - len(todo)))]
    stats = dict(cases=0, judged=0, feature={}, container={}, with_predict_function=0, weighted=0, has_null_group=0,
                 show_lines={}, ax_none=0, config_context=0, named_series=0, two_d_single_column=0, malformed={}, errors={},
                 drawn_as={}, subsampled=0, dropped_fragile=0, dropped_dtype=0, returned_ax_checked=0, config_checked=0, points_compared=0,
                 property_failure_counts={})
    terms, dicts, samples, pfails = [], [], [], []

    def bump(k, key):
        stats[k][key] = stats[k].get(key, 0) + 1
    for d in todo:
        o = run_impl(d)
        bad, o, ref = judge_case(d, o)
        stats["judged"] += 1
        bump("feature", d["feat"]["ftype"])
        bump("container", d["X"]["container"])
        bump("show_lines", str(d.get("show_lines")))
        stats["with_predict_function"] += d["pd"] is not None
        stats["weighted"] += d["w"] is not None
        stats["ax_none"] += d.get("ax_mode") == "none"
        stats["config_context"] += d.get("cfg_mode") == "context"
        stats["named_series"] += bool(d.get("pred_name"))
        stats["two_d_single_column"] += bool(d.get("two_d")) and len(d["models"]) == 1
        stats["subsampled"] += d["pd"] is not None and rm.draw_indices(d) is not None
        stats["config_checked"] += "config_unchanged" in o
        stats["returned_ax_checked"] += "returned_is_ax" in o
        if d.get("malformed"):
            bump("malformed", d["malformed"])
        if o.get("status") == "err":
            bump("errors", (d.get("malformed") or ("two_d" if d.get("two_d") else "valid")) + ":" + o["exc"])
        if o.get("status") == "ok":
            stats["has_null_group"] += any(s["null"] is not None for s in o["series"])
            stats["points_compared"] += sum(len(s["main"]) for s in o["series"]) + sum(len(c) for c in o["bars"])
            bump("drawn_as", "categorical" if o["xticks"] is not None else ("histogram" if o["hist"] else "numerical_as_categorical"))
        if bad:
            key = "|".join(failure_key(bad))[:300]
            stats["property_failure_counts"][key] = stats["property_failure_counts"].get(key, 0) + 1
            if stats["property_failure_counts"][key] <= 2 and len(pfails) < 12:
                pfails.append(dict(case=clean(d), clauses=bad, observed=summarise(o)))
        if o.get("status") not in ("ok", "err"):
            continue
        if ref is not None and not isinstance(ref, tuple) and rm.is_str(d["feat"]) == ("bin_edges" in ref.columns):
            stats["dropped_dtype"] += 1        # the container changed the kind of the feature (e.g. dtype Null)
            continue
        if o["status"] == "ok" and ref is not None and not isinstance(ref, tuple) and not d.get("two_d") and fragile(d, ref):
            stats["dropped_fragile"] += 1
            continue
        terms.append(coq_case(d, o))
        dicts.append(clean(d))
        stats["cases"] += 1
        if len(samples) < 3 and o["status"] == "ok" and len(d["y"]) >= 5 and d["pd"] is not None and not d.get("two_d") \
                and d["feat"]["ftype"] not in [s["case"]["feat"]["ftype"] for s in samples]:
            samples.append(dict(case=clean(d), observed=summarise(o)))
    os.makedirs(outdir, exist_ok=True)
    paths = []
    for k, sh in enumerate(shard(terms, SHARD)):
        p = os.path.join(outdir, f"{prefix}_{k}.v")
        body = "Definition cases : list pmcase := [\n  " + ";\n  ".join(sh) + "\n]."
        write_case_file(p, "From Coq Require Import String.\nFrom MD Require Import model.Binning model.PartialDep model.Bias "
                           "model.Marginal model.PlotMarginal corr.Decode corr.CmpMarginal corr.CmpPlotMarginal.",
                        body, "CmpPlotMarginal.summary cases")
        paths.append(p)
    json.dump(dicts, open(os.path.join(outdir, prefix + "_cases.json"), "w"))
    print(json.dumps(dict(paths=paths, shard_size=SHARD, stats=stats, samples=samples, property_failures=pfails)))


def mode_judge(path):
    ds = json.load(open(path))
    out, seen = [], set()
    for d in ds:
        bad, o, _ = judge_case(d)
        if bad:
            key = failure_key(bad)
            if key in seen:
                continue
            seen.add(key)
            out.append(failure_entry(d, key))
    print(json.dumps(dict(failures=out)))


def mode_search(seed, budget):
    found, seen, tried = [], set(), 0

    def consider(d):
        nonlocal tried
        tried += 1
        bad, o, _ = judge_case(d)
        if bad:
            key = failure_key(bad)
            if key not in seen:
                seen.add(key)
                found.append(failure_entry(d, key))

    for d in fixed_cases():
        consider(d)
    # small exhaustive spaces: n = 4
    alpha = ["a", "b", "zz", None]
    k = 0
    for vals in itertools.product(alpha, repeat=4):
        if tried >= budget // 3:
            break
        k += 1
        ft = "strnull" if all(v is None for v in vals) else ["str", "cat"][k % 2]
        base = rm.str_case(list(vals), 2 + k % 2, ftype=ft, pd=(k % 3 != 0))
        consider(plot_case(base, show_lines=["numerical", "always"][k % 2], w=None if k % 4 else [1.0, 2.0, 0.5, 1.0],
                           ax_mode="none" if k % 7 == 0 else "given", cfg_mode="context" if k % 5 == 0 else "default"))
    for vals in itertools.product([0.0, 1.0, 2.5, -2.0, "nan"], repeat=4):
        for m in ("quantile", "uniform", "sturges"):
            if tried >= (2 * budget) // 3:
                break
            k += 1
            consider(num_case(list(vals), 2 + k % 3, m, pd=(k % 3 != 0), w=None if k % 2 else [1.0, 2.0, 1.0, 2.0],
                              container=["f64", "list", "polars"][k % 3], show_lines=["numerical", "always"][k % 2],
                              ax_mode="none" if k % 7 == 0 else "given", cfg_mode="context" if k % 5 == 0 else "default"))
    rng = random.Random(seed)
    while tried < budget:
        consider(gen_case(rng, 12))
    print(json.dumps(dict(tried=tried, failures=found)))


def main():
    mode = sys.argv[1] if len(sys.argv) > 1 else ""
    if mode == "corr":
        outdir, prefix, seed, ncases, nmax = sys.argv[2:7]
        mode_corr(outdir, prefix, int(seed), int(ncases), int(nmax))
    elif mode == "judge":
        mode_judge(sys.argv[2])
    elif mode == "search":
        mode_search(int(sys.argv[2]), int(sys.argv[3]))
    else:
        raise SystemExit(__doc__)


if __name__ == "__main__":
    main()
