"""Correspondence, judge and search for `decompose` (properties C06, C07).

  run_decompose.py corr   <outdir> <prefix> <seed> <ncases> <nmax>
      structured cases from ONE random.Random(seed) over the 12 score configurations
      (the 11 the library documents + the rational degree-3 quantile score), weights or
      none, 1 or 3 forecast columns, ties, constant and already recalibrated forecasts,
      plus a malformed stream.  The REAL `decompose` is run with a RECORDING scoring
      function (it forwards to the library's scoring function and notes every pair of
      arrays it is called with).  Writes Coq shards for coq/corr/CmpDecompose.v and
      <outdir>/<prefix>_cases.json; prints one JSON object on the last line.
  run_decompose.py judge  <cases.json>
      re-runs the case dicts on the implementation and evaluates the statements of
      C06 / C07 directly (exact Fractions where possible).
  run_decompose.py search <seed> <budget>
      directed search for an input that violates the property statements.

Tie chosen for the transcendental scores: the Coq model is generic in the
per-observation score; every case carries the table of the values of the real
`score_per_obs` at all (observation, prediction) pairs the implementation scored, and
the whole model runs on that table inside Coq (all configurations).  For the rational
scores the model additionally runs with the score computed inside Coq and every table
entry is compared with the Coq formula."""
import itertools
import json
import math
import os
import random
import sys
import warnings
from fractions import Fraction

import numpy as np

import iso
from common import qlit, qlist, shard, write_case_file

warnings.simplefilter("ignore")
np.seterr(all="ignore")

from model_diagnostics.scoring import (ElementaryScore, GammaDeviance, HomogeneousExpectileScore,  # noqa: E402
                                       HomogeneousQuantileScore, LogLoss, PinballLoss, PoissonDeviance,
                                       SquaredError, decompose)

SHARD = 200
FUN_COQ = {"mean": "IFmean", "median": "IFmedian", "expectile": "IFexpectile", "quantile": "IFquantile"}

def relevel(sf, level):
    sf.level = level
    return sf


# name -> (constructor, Coq score kind, domain of (y, z), weights possible)
CONFIGS = {
    "SquaredError": (lambda: SquaredError(), "KSq", "real"),
    "PoissonDeviance": (lambda: PoissonDeviance(), "KTable", "count"),
    "GammaDeviance": (lambda: GammaDeviance(), "KTable", "pos"),
    "LogLoss": (lambda: LogLoss(), "KTable", "unit"),
    "PinballLoss(0.5)": (lambda: PinballLoss(level=0.5), "KPin 0.5", "real"),
    "PinballLoss(0.25)": (lambda: PinballLoss(level=0.25), "KPin 0.25", "real"),
    # built at level 1/2 and re-parameterised through the public attribute: the scorer (its functional included) is read at call time
    "PinballLoss(0.8)": (lambda: relevel(PinballLoss(level=0.5), 0.8), "KPin 0.8", "real"),
    "HES(2,0.2)": (lambda: HomogeneousExpectileScore(degree=2, level=0.2), "KHes2 0.2", "real"),
    "HES(1,0.25)": (lambda: HomogeneousExpectileScore(degree=1, level=0.25), "KTable", "count"),
    "HES(3,0.7)": (lambda: relevel(HomogeneousExpectileScore(degree=3, level=0.5), 0.7), "KTable", "real"),
    "HQS(1/3,0.3)": (lambda: HomogeneousQuantileScore(degree=1 / 3, level=0.3), "KTable", "pos"),
    "HQS(3,0.1)": (lambda: HomogeneousQuantileScore(degree=3, level=0.1), "KHqs3 0.1", "real"),
    # elementary scores with the threshold on typical data values: the median alias of the SCORING FUNCTION itself
    "Elem(1,median)": (lambda: ElementaryScore(1.0, "median"), "KTable", "real"),
    "Elem(1,quantile,0.5)": (lambda: ElementaryScore(1.0, "quantile", 0.5), "KTable", "real"),
}
NAMES = [n for n in CONFIGS if not n.startswith("Elem(")]     # the elementary-score configurations are used by directed probes only


# directed probes (judged only, never sent to the Coq comparator): the threshold of the elementary score on data values
ELEM_PROBES = [dict(config="Elem(1,median)", y=[0.0, 1.0, 2.0, 1.0, 3.0], cols=[[0.5, 1.0, 2.5, 1.5, 1.0]], w=None, two_d=False),
               dict(config="Elem(1,median)", y=[1.0, 1.0, 0.0, 2.0], cols=[[1.0, 0.0, 1.0, 3.0]], w=None, two_d=False),
               dict(config="Elem(1,median)", y=[2.0, 1.0], cols=[[0.0, 1.0], [1.0, 1.0]], w=None, two_d=True),
               dict(config="Elem(1,quantile,0.5)", y=[1.0, 1.0, 0.0, 2.0], cols=[[1.0, 0.0, 1.0, 3.0]], w=None, two_d=False),
               # forecasts that differ only from the seventh significant digit on are NOT constant (1e-7 relative >> the 1e-9 tie policy)
               dict(config="SquaredError", y=[0.0, 1.0, 0.0, 1.0, 1.0, 0.0, 1.0, 1.0], cols=[[0.5 + 1e-7 * k for k in range(8)]], w=None, two_d=False),
               dict(config="PoissonDeviance", y=[0.0, 2.0, 1.0, 3.0, 1.0, 4.0], cols=[[1.5 + 2e-7 * k for k in range(6)]], w=[1.0, 2.0, 1.0, 1.0, 2.0, 1.0], two_d=False),
               dict(config="PinballLoss(0.25)", y=[0.0, 2.0, 1.0, 3.0, 1.0, 4.0], cols=[[1.5 + 2e-7 * k for k in range(6)], [1.0, 1.0, 2.0, 2.0, 3.0, 3.0]], w=None, two_d=True),
               # pooled blocks whose weights are unequal although first = last = average weight (anything that takes such a
               # block for "equal weights" recalibrates it with the unweighted functional); anti-ordered and constant forecasts
               dict(config="HES(2,0.2)", y=[4.0, 3.0, 2.0, 1.0], cols=[[1.0, 2.0, 3.0, 4.0], [2.5, 2.5, 2.5, 2.5]], w=[2.0, 1.0, 3.0, 2.0], two_d=True),
               dict(config="HES(3,0.7)", y=[1.0, 6.0, 4.0, 2.0, 1.0, 9.0], cols=[[1.0, 2.0, 3.0, 4.0, 5.0, 6.0]], w=[5.0, 3.0, 1.0, 5.0, 3.0, 0.5], two_d=False),
               dict(config="HES(1,0.25)", y=[4.0, 3.0, 2.0, 1.0, 7.0], cols=[[1.0, 2.0, 3.0, 4.0, 5.0]], w=[1.0, 0.5, 1.5, 1.0, 2.0], two_d=False),
               dict(config="SquaredError", y=[4.0, 3.0, 2.0, 1.0], cols=[[1.0, 2.0, 3.0, 4.0], [2.5, 2.5, 2.5, 2.5]], w=[2.0, 1.0, 3.0, 2.0], two_d=True),
               dict(config="PoissonDeviance", y=[4.0, 3.0, 0.0, 1.0], cols=[[1.0, 2.0, 3.0, 4.0]], w=[3.0, 1.0, 5.0, 3.0], two_d=False)]


def make_sf(name):
    return CONFIGS[name][0]()


def coq_kind(name):
    k = CONFIGS[name][1]
    if " " in k:
        c, lv = k.split()
        return f"({c} {qlit(Fraction(lv))})"
    return k


# ------------------------------------------------------------------ recorder
class Rec:
    """Forwards to the library's scoring function; records the arrays of every call."""

    def __init__(self, sf, hide=()):
        self.sf = sf
        self.calls = []
        if "functional" not in hide and hasattr(sf, "functional"):
            self.functional = sf.functional
        if "level" not in hide and hasattr(sf, "level"):
            self.level = sf.level

    def __call__(self, y_obs, y_pred, weights=None):
        self.calls.append(dict(ynd=int(np.ndim(y_obs)), znd=int(np.ndim(y_pred)),
                               y=[float(v) for v in np.atleast_1d(np.asarray(y_obs, dtype=float))],
                               z=[float(v) for v in np.atleast_1d(np.asarray(y_pred, dtype=float))]))
        return self.sf(y_obs, y_pred, weights)


def elem(sf, y, z, cache):
    """value of score_per_obs at one pair: float | None (ValueError) | 'nf' (nan/inf)"""
    key = (y, z)
    if key not in cache:
        try:
            v = float(np.asarray(sf.score_per_obs(np.array([y]), np.array([z])), dtype=float).reshape(-1)[0])
            cache[key] = v if math.isfinite(v) else "nf"
        except ValueError:
            cache[key] = None
    return cache[key]


def run_impl(d, record=True):
    """runs decompose on a case dict.  Returns dict(obs=..., marg=, recals=, table=)"""
    sf = make_sf(d["config"])
    rec = Rec(sf, hide=d.get("hide", ()))
    y = np.asarray(d["y"], dtype=float)
    cols = d["cols"]
    names = None                       # the names the rows of the result must carry, in this order
    if d.get("two_d", len(cols) != 1):
        if d.get("names"):
            import polars as pl
            zp = pl.DataFrame({nm: [float(v) for v in c] for nm, c in zip(d["names"], cols)})
            names = list(d["names"])
        else:
            zp = np.column_stack([np.asarray(c, dtype=float) for c in cols])
            names = [str(i) for i in range(len(cols))]
        if len(cols) <= 1:
            names = None               # the `model` column is dropped for a single forecast
    else:
        zp = np.asarray(cols[0], dtype=float)
    w = None if d["w"] is None else np.asarray(d["w"], dtype=float)
    kw = {}
    if d.get("functional") is not None:
        kw["functional"] = d["functional"]
    if d.get("level") is not None:
        kw["level"] = d["level"]
    try:
        df = decompose(y, zp, w, scoring_function=rec, **kw)
        rows = [[float(r[k]) for k in ("miscalibration", "discrimination", "uncertainty", "score")] for r in df.to_dicts()]
        labels = [str(v) for v in df["model"].to_list()] if "model" in df.columns else None
        if all(math.isfinite(v) for r in rows for v in r):
            obs = ("rows", rows)
        else:
            obs = ("nonfinite", rows)
    except ValueError as e:
        obs = ("ValueError", str(e)[:80])
    except NotImplementedError as e:
        obs = ("NotImplementedError", str(e)[:80])
    except UnboundLocalError as e:
        obs = ("UnboundLocalError", str(e)[:80])
    except Exception as e:  # noqa: BLE001
        obs = ("Other", type(e).__name__ + ": " + str(e)[:80])
    out = dict(obs=obs, marg=None, recals=[], table=None, nf=False, names=names, labels=None, by_name=None)
    if obs[0] in ("rows", "nonfinite"):
        out["labels"] = labels
        if names is None:
            out["by_name"] = obs[1] if labels is None else None
        elif labels is not None and sorted(labels) == sorted(names) and len(set(labels)) == len(labels):
            # the row that CLAIMS to describe column j, for every column j in input order
            out["by_name"] = [obs[1][labels.index(nm)] for nm in names]
    if not record:
        return out
    # parse the call sequence: [constant check (0-d)] ymin marginal (score recal)*
    calls = list(rec.calls)
    k = 0
    if calls and calls[0]["ynd"] == 0:
        k = 1
    k += 1                                   # y_min call
    if k < len(calls):
        out["marg"] = calls[k]["z"][0]
        k += 1
    j = 0
    while k < len(calls):
        if j % 2 == 1:
            out["recals"].append(calls[k]["z"])
        k += 1
        j += 1
    cache, tab = {}, {}
    for c in calls:
        ys = c["y"] if len(c["y"]) == len(c["z"]) else c["y"][:len(c["z"])]
        for yv, zv in zip(ys, c["z"]):
            if not (math.isfinite(yv) and math.isfinite(zv)):
                out["nf"] = True
                continue
            v = elem(sf, yv, zv, cache)
            if v == "nf":
                out["nf"] = True
                continue
            tab.setdefault(yv, {})[zv] = v
    out["table"] = tab
    return out


# ------------------------------------------------------------------ generators
def gen_y(rng, n, dom):
    if dom == "real":
        return iso.gen_values(rng, n, rng.choice(["smallint", "smallint", "int", "dyadic", "decimal", "double", "walk",
                                                  "positive", "constant"]))
    if dom == "count":
        st = rng.choice(["zeros", "zeros", "small", "dyadic", "nozero"])
        if st == "zeros":
            return [float(rng.choice([0, 0, 0, 1, 2, 3])) for _ in range(n)]
        if st == "small":
            return [float(rng.randrange(0, 6)) for _ in range(n)]
        if st == "dyadic":
            return [rng.randrange(0, 33) / 8.0 for _ in range(n)]
        return [float(rng.randrange(1, 9)) for _ in range(n)]
    if dom == "pos":
        st = rng.choice(["quarter", "int", "double"])
        if st == "quarter":
            return [rng.randrange(1, 40) / 4.0 for _ in range(n)]
        if st == "int":
            return [float(rng.randrange(1, 7)) for _ in range(n)]
        return [rng.uniform(0.1, 9.0) for _ in range(n)]
    if dom == "unit":
        if rng.random() < 0.7:
            return [float(rng.randrange(2)) for _ in range(n)]
        return [rng.randrange(0, 9) / 8.0 for _ in range(n)]
    raise ValueError(dom)


def gen_z(rng, n, dom, y, style):
    def one():
        if dom == "real":
            return rng.choice([rng.randrange(-16, 17) / 4.0, round(rng.uniform(-10, 10), 3), float(rng.randrange(-3, 4))])
        if dom in ("count", "pos"):
            return rng.choice([rng.randrange(1, 40) / 8.0, round(rng.uniform(0.05, 9), 3), float(rng.randrange(1, 5))])
        return rng.choice([rng.randrange(1, 16) / 16.0, round(rng.uniform(0.02, 0.98), 3)])

    if style == "random":
        return [one() for _ in range(n)]
    if style == "ties":
        pool = [one() for _ in range(rng.choice([2, 3, 4]))]
        return [rng.choice(pool) for _ in range(n)]
    if style == "constant":
        return [one()] * n
    if style == "sorted":
        return sorted(one() for _ in range(n))
    if style == "noisy":
        out = []
        for v in y:
            if dom == "real":
                out.append(v + rng.randrange(-8, 9) / 4.0)
            elif dom in ("count", "pos"):
                out.append(max(v + rng.randrange(-8, 9) / 8.0, 0.125))
            else:
                out.append(min(max(v * 0.5 + 0.25 + rng.randrange(-3, 4) / 16.0, 0.0625), 0.9375))
        # rounded: -1.55 + 2.5 and 0.2 + 0.75 differ by one ulp, and scikit-learn (mean functional) pools forecasts closer than
        # 1e-15 - numerically tied forecasts are outside what is judged or compared (DESIGN section 10, tolerances)
        return [round(v, 9) for v in out]
    raise ValueError(style)


NAME_POOL = ["zeta", "alpha", "mu", "beta", "omega", "Model_B", "model_a", "10", "2", "x1"]
ZSTYLES = ["random", "random", "ties", "ties", "constant", "sorted", "noisy", "noisy", "recal"]


def gen_case(rng, nmax, config=None):
    name = config or rng.choice(NAMES)
    sf = make_sf(name)
    dom = CONFIGS[name][2]
    quant = sf.functional == "quantile"
    for _ in range(50):
        r = rng.random()
        if r < 0.3:
            n = rng.randrange(2, 7)
        elif r < 0.85:
            n = rng.randrange(2, max(3, nmax // 2 + 1))
        else:
            n = rng.randrange(2, nmax + 1)
        if not quant or iso.quantile_float_safe(sf.level, n):
            break
    ncol = rng.choice([1, 1, 3, 3, 2, 4])
    wide = rng.random() < 0.04         # an ndarray with >= 11 columns: "10" sorts before "2"
    if wide:
        ncol = rng.choice([11, 12])
        n = rng.randrange(2, 6)
        if quant and not iso.quantile_float_safe(sf.level, n):
            n = 2
    y = gen_y(rng, n, dom)
    if quant:
        w = None
    else:
        w = iso.gen_weights(rng, n, rng.choice(["none", "none", "smallint", "smallint", "dyadic", "double"]))
    cols, styles = [], []
    for _ in range(ncol):
        # scores that reject the smallest observation: more sorted / nearly sorted forecasts, so that the
        # domain-repair path is taken AND succeeds (it assumes sorted rows)
        st = rng.choice(ZSTYLES + (["sorted", "sorted", "sorted", "noisy"] if dom == "count" else []))
        if st == "recal":
            base = gen_z(rng, n, dom, y, rng.choice(["random", "ties", "noisy"]))
            r0 = run_impl(dict(config=name, y=y, cols=[base], w=w))
            if (r0["obs"][0] == "rows" and r0["recals"] and len(r0["recals"][0]) == n
                    and all(math.isfinite(v) for v in r0["recals"][0])):
                cols.append([float(v) for v in r0["recals"][0]])
            else:
                cols.append(base)
                st = "random"
        else:
            cols.append(gen_z(rng, n, dom, y, st))
        styles.append(st)
    d = dict(config=name, y=y, cols=cols, w=w, styles=styles, two_d=(ncol != 1) or rng.random() < 0.1)
    if 2 <= ncol <= 4 and rng.random() < 0.5:
        # a polars DataFrame of forecasts whose column names are NOT in ascending order
        nm = rng.sample(NAME_POOL, ncol)
        if nm == sorted(nm):
            nm = nm[::-1]
        d["names"] = nm
    return d


MALFORMED = ["median", "median_w", "wquantile", "ylen", "wlen", "badlevel", "badfun", "zdomain", "ydomain", "n1",
             "constbad", "nofun", "nolevel", "explicit_same", "explicit_other", "explicit_level"]


def gen_malformed(rng, nmax):
    kind = rng.choice(MALFORMED)
    n = rng.randrange(2, 8)
    d = None
    if kind in ("median", "median_w"):
        name = rng.choice(["PinballLoss(0.5)", "PinballLoss(0.25)", "SquaredError"])
        d = gen_case(rng, 8, name)
        d["functional"] = "median"
        d["w"] = [1.0] * len(d["y"]) if kind == "median_w" else None
    elif kind == "wquantile":
        d = gen_case(rng, 8, rng.choice(["PinballLoss(0.25)", "HQS(3,0.1)", "HQS(1/3,0.3)"]))
        d["w"] = iso.gen_weights(rng, len(d["y"]), "smallint")
    elif kind == "ylen":
        d = gen_case(rng, 8, rng.choice(NAMES))
        d["cols"] = [c + [c[0]] for c in d["cols"]]
        d["ragged"] = False
    elif kind == "wlen":
        d = gen_case(rng, 8, rng.choice(["SquaredError", "HES(2,0.2)", "PoissonDeviance"]))
        d["w"] = [1.0] * (len(d["y"]) + 1)
    elif kind == "badlevel":
        d = gen_case(rng, 8, rng.choice(["PinballLoss(0.25)", "HES(2,0.2)", "SquaredError"]))
        d["functional"] = rng.choice(["quantile", "expectile"])
        d["level"] = rng.choice([0.0, 1.0, -0.25, 1.5])
        d["w"] = None
    elif kind == "badfun":
        d = gen_case(rng, 8, rng.choice(NAMES))
        d["functional"] = rng.choice(["XXX", "Mean", "mode"])
    elif kind == "zdomain":
        d = gen_case(rng, 8, rng.choice(["PoissonDeviance", "GammaDeviance", "HES(1,0.25)", "HQS(1/3,0.3)"]))
        c = rng.randrange(len(d["cols"]))
        col = list(d["cols"][c])
        col[rng.randrange(len(col))] = rng.choice([0.0, -1.0])
        d["cols"][c] = col
    elif kind == "ydomain":
        d = gen_case(rng, 8, rng.choice(["PoissonDeviance", "GammaDeviance", "HES(1,0.25)", "HQS(1/3,0.3)"]))
        y = list(d["y"])
        y[rng.randrange(len(y))] = -1.0 if d["config"] in ("PoissonDeviance", "HES(1,0.25)") else 0.0
        d["y"] = y
    elif kind == "n1":
        d = gen_case(rng, 8, rng.choice(NAMES))
        d["y"] = d["y"][:1]
        d["cols"] = [c[:1] for c in d["cols"]]
        d["w"] = None if d["w"] is None else d["w"][:1]
    elif kind == "constbad":
        d = gen_case(rng, 8, rng.choice(["PoissonDeviance", "HES(1,0.25)"]))
        d["y"] = [0.0] * len(d["y"])
    elif kind == "nofun":
        d = gen_case(rng, 8, rng.choice(NAMES))
        d["hide"] = ["functional"]
    elif kind == "nolevel":
        d = gen_case(rng, 8, rng.choice(["PinballLoss(0.25)", "HES(2,0.2)"]))
        d["hide"] = ["level"]
        d["functional"] = rng.choice([None, "quantile", "expectile", "mean"])
        if d["functional"] in ("quantile", None) and d["config"].startswith("Pinball"):
            d["w"] = None
    elif kind == "explicit_same":
        d = gen_case(rng, nmax, rng.choice(NAMES))
        sf = make_sf(d["config"])
        d["functional"] = sf.functional
        d["level"] = getattr(sf, "level", None) if rng.random() < 0.7 else None
    elif kind == "explicit_other":
        # a functional different from the score's own; the level is then taken from the score
        d = gen_case(rng, 8, rng.choice(["SquaredError", "PinballLoss(0.25)", "HES(2,0.2)", "PinballLoss(0.8)"]))
        own = make_sf(d["config"]).functional
        d["functional"] = rng.choice([f for f in ("mean", "expectile", "quantile") if f != own])
        if d["functional"] == "quantile":
            d["w"] = None
    elif kind == "explicit_level":
        d = gen_case(rng, 8, rng.choice(["PinballLoss(0.25)", "HES(2,0.2)", "SquaredError"]))
        d["level"] = rng.choice([0.25, 0.5, 0.75])
        if make_sf(d["config"]).functional == "quantile" and not iso.quantile_float_safe(d["level"], len(d["y"])):
            d["level"] = 0.5
    d["kind"] = kind
    d.pop("styles", None)
    return d


# ------------------------------------------------------------------ code variant
_VARIANT = None


def probe_variant():
    """Which of the three reported behaviours (DESIGN.md D1, D2 and the one-row data set) has the
    implementation under test fixed?  Probed once on fixed inputs; the model (model/Decompose.v,
    record `variant`) follows the answer, the JUDGE is what decides the property."""
    global _VARIANT
    if _VARIANT is not None:
        return _VARIANT

    def rows(f):
        try:
            return [[float(r[k]) for k in ("miscalibration", "discrimination", "uncertainty", "score")]
                    for r in f().to_dicts()]
        except Exception:  # noqa: BLE001
            return None

    a = rows(lambda: decompose([0.0, 1.0, 2.0, 1.0], [0.5, 1.0, 2.5, 1.5], scoring_function=PinballLoss(level=0.5),
                               functional="median"))
    b = rows(lambda: decompose([0.0, 1.0, 2.0, 1.0], [0.5, 1.0, 2.5, 1.5], scoring_function=PinballLoss(level=0.5),
                               functional="quantile", level=0.5))
    median = a is not None and a == b
    c = rows(lambda: decompose([1.0, 0.0], [2.0, 1.0], scoring_function=PoissonDeviance()))
    d = rows(lambda: decompose([0.0, 2.0, 1.0], [0.5, 2.5, 1.5], scoring_function=PoissonDeviance()))
    e = rows(lambda: decompose([0.0, 1.0, 2.0], [0.5, 1.5, 2.5], scoring_function=PoissonDeviance()))
    repair = (c is not None and d is not None and e is not None
              and all(abs(x - y) <= 1e-12 for x, y in zip(d[0], e[0])))
    g = rows(lambda: decompose([2.0], [3.0], scoring_function=SquaredError()))
    squeeze = g is not None
    _VARIANT = dict(median=median, repair=repair, squeeze=squeeze)
    return _VARIANT


def coq_variant():
    v = probe_variant()
    b = lambda x: "true" if x else "false"  # noqa: E731
    return f"(mkvariant {b(v['median'])} {b(v['repair'])} {b(v['squeeze'])})"


# ------------------------------------------------------------------ Coq text
def opt(txt):
    return "None" if txt is None else f"(Some {txt})"


def level_q(level):
    return qlit(Fraction(str(level)))


def coq_case(d, r):
    sf = make_sf(d["config"])
    hide = d.get("hide", ())
    sf_fun = None if "functional" in hide else FUN_COQ[sf.functional]
    sf_level = None if ("level" in hide or not hasattr(sf, "level")) else level_q(sf.level)
    fun = None if d.get("functional") is None else FUN_COQ.get(d["functional"], "IFother")
    lev = None if d.get("level") is None else level_q(d["level"])
    cols = "[" + "; ".join(qlist(c) for c in d["cols"]) + "]"
    w = None if d["w"] is None else qlist(d["w"])
    groups = []
    for yv, m in r["table"].items():
        ent = "; ".join(f"({qlit(zv)}, {opt(None if v is None else qlit(v))})" for zv, v in m.items())
        groups.append(f"({qlit(yv)}, [{ent}])")
    tab = "[" + "; ".join(groups) + "]"
    marg = None if r["marg"] is None or not math.isfinite(r["marg"]) else qlit(r["marg"])
    recs = "[" + "; ".join(qlist(x) for x in r["recals"]) + "]"
    o = r["obs"]
    if o[0] == "rows" and r["by_name"] is None:
        ot = "OOther"                  # the `model` labels are not the column names: never agrees
    elif o[0] == "rows":
        # position j = the row LABELLED with the name of column j (label -> row, not position)
        ot = "(ORows [" + "; ".join("(" + ", ".join(qlit(v) for v in row) + ")" for row in r["by_name"]) + "])"
    elif o[0] == "nonfinite":
        ot = "ONonFinite"
    else:
        ot = {"ValueError": "OValueError", "NotImplementedError": "ONotImplemented",
              "UnboundLocalError": "OUnbound"}.get(o[0], "OOther")
    return (f"mkdcase {coq_variant()} {coq_kind(d['config'])} {opt(sf_fun)} {opt(sf_level)} {opt(fun)} {opt(lev)}\n    {qlist(d['y'])} {cols} "
            f"{opt(w)}\n    {tab}\n    {opt(marg)} {recs} {ot}")


CASE_IMPORTS = "From MD Require Import lib.QLists model.Isotonic model.Decompose corr.Decode corr.CmpDecompose."


def encodable(d, r):
    """can the case be written for Coq (all recorded numbers finite, forecasts a proper matrix)"""
    if r["nf"]:
        return False
    if any(not math.isfinite(v) for x in r["recals"] for v in x):
        return False
    return True


# ------------------------------------------------------------------ exact helpers for the judge
def F(v):
    return Fraction(float(v))


def exact_expectile(y, w, a):
    ys = [F(v) for v in y]
    ws = [Fraction(1)] * len(y) if w is None else [F(v) for v in w]
    for c in sorted(set(ys)):
        num = sum(wi * ((1 - a) if yi <= c else a) * yi for yi, wi in zip(ys, ws))
        den = sum(wi * ((1 - a) if yi <= c else a) for yi, wi in zip(ys, ws))
        t = num / den
        if all((yi <= c) == (yi <= t) for yi in ys):
            return t
    raise AssertionError("no expectile")


def exact_marginal(functional, level, y, w):
    ys = [F(v) for v in y]
    if functional == "mean":
        ws = [Fraction(1)] * len(y) if w is None else [F(v) for v in w]
        return sum(a * b for a, b in zip(ys, ws)) / sum(ws)
    a = Fraction(str(level))
    if functional == "expectile":
        return exact_expectile(y, w, a)
    s = sorted(ys)
    n = len(s)
    lo = s[max(math.ceil(a * n) - 1, 0)]
    k = math.floor(a * n)          # upper quantile: smallest value with count(< t) ... = s[floor(a n)] (capped)
    up = s[min(k, n - 1)]
    return (lo + up) / 2


def relclose(a, b, tol, scale=0.0):
    return abs(a - b) <= tol * (1 + abs(a) + abs(b) + scale)


def call(d, **over):
    dd = dict(d)
    dd.update(over)
    return run_impl(dd, record=False)["obs"]


def permuted(d, perm):
    return dict(d, y=[d["y"][i] for i in perm], cols=[[c[i] for i in perm] for c in d["cols"]],
                w=None if d["w"] is None else [d["w"][i] for i in perm])


def admissible(sf, yv, zv):
    try:
        sf.score_per_obs(np.array([yv]), np.array([zv]))
        return True
    except ValueError:
        return False


EXPECTED_MALFORMED = {"wquantile": "NotImplementedError", "ylen": "ValueError", "wlen": "ValueError",
                      "badlevel": "ValueError", "badfun": "ValueError", "zdomain": "ValueError",
                      "ydomain": "ValueError", "constbad": "ValueError", "nofun": "ValueError"}


def judge_case(d, seed=0):
    """list of violated clauses of C06 / C07 on the implementation, with the observation"""
    bad = []
    kind = d.get("kind")
    sf = make_sf(d["config"])
    if kind in EXPECTED_MALFORMED:
        o = call(d)
        if kind == "nofun" and d.get("functional") is not None:
            return bad, o
        if o[0] != EXPECTED_MALFORMED[kind]:
            # a median request with weights etc. is judged below; here only documented rejections
            if not (kind == "zdomain" and o[0] == "rows"):
                bad.append(f"malformed input ({kind}): expected {EXPECTED_MALFORMED[kind]}, observed {o[0]}")
        return bad, o
    if kind == "nolevel":
        return bad, call(d)
    if kind in ("median", "median_w"):
        o = call(d)
        if kind == "median_w":
            return bad, o
        o2 = call(d, functional="quantile", level=0.5)
        same_exc = o[0] == o2[0] and o[0] in ("ValueError", "NotImplementedError")   # e.g. weights given
        if not same_exc and (o[0] != "rows" or o2[0] != "rows" or any(
                not relclose(a, b, 1e-12) for ra, rb in zip(o[1], o2[1]) for a, b in zip(ra, rb))):
            bad.append(f"C07 alias: functional='median' gives {o[:2]}, functional='quantile', level=0.5 gives {o2[:2]}")
        return bad, o
    functional = d.get("functional") or sf.functional
    level = d.get("level")
    if level is None:
        level = getattr(sf, "level", 0.5) if functional in ("expectile", "quantile") else 0.5
    consistent = (functional == sf.functional and (functional == "mean" or level == getattr(sf, "level", None)))
    y, cols, w = d["y"], d["cols"], d["w"]
    n = len(y)
    base = run_impl(d)
    o = base["obs"]
    ymin = min(y)
    const_bad = len(set(y)) == 1 and not admissible(sf, y[0], y[0])
    if o[0] != "rows":
        if o[0] == "nonfinite":
            if CONFIGS[d["config"]][2] != "unit":     # LogLoss is inf at predictions 0 / 1 (excluded by C04)
                bad.append(f"C06 identity: non-finite components {o[1]} on a well-formed data set (n={n})")
            return bad, o
        if const_bad and o[0] == "ValueError":
            return bad, o
        bad.append(f"C06 identity: decompose raised {o[0]} ({o[1]}) on a well-formed data set (n={n})")
        # is it the row order?  (C07)
        order = sorted(range(n), key=lambda i: (cols[0][i], -y[i]))
        o3 = call(permuted(d, order))
        if o3[0] == "rows":
            bad.append("C07 permutation: the same rows sorted by the first forecast column succeed")
        return bad, o
    rows = o[1]
    wts = [Fraction(1)] * n if w is None else [F(v) for v in w]
    W = sum(wts)
    ymin_ok = admissible(sf, y[0], ymin)
    for j, (m, dsc_, u, s) in enumerate(rows):
        scale = abs(s) + abs(u)
        # --- C06 identity, exact on the returned floats
        if abs(F(s) - (F(m) - F(dsc_) + F(u))) > Fraction(1, 10 ** 12) * (1 + F(abs(s)) + F(abs(u)) + F(abs(m))):
            bad.append(f"C06 identity: column {j}: score {s} != mcb {m} - dsc {dsc_} + unc {u}")
        # --- score is the plain average score
        per = sf.score_per_obs(np.asarray(y, dtype=float), np.asarray(cols[j], dtype=float))
        avg = sum(F(v) * wi for v, wi in zip(per, wts)) / W
        if abs(avg - F(s)) > Fraction(1, 10 ** 12) * (1 + abs(avg)):
            bad.append(f"C06 score: column {j}: score {s} is not the weighted average {float(avg)}")
        # --- signs
        if ymin_ok and consistent:
            if m < -1e-12 * (1 + scale):
                bad.append(f"C06 sign: column {j}: miscalibration {m} < 0")
            if dsc_ < -1e-12 * (1 + scale):
                bad.append(f"C06 sign: column {j}: discrimination {dsc_} < 0")
            if len(set(cols[j])) == 1 and abs(dsc_) > 1e-12 * (1 + scale):
                bad.append(f"C06 zero: column {j}: constant forecast but discrimination {dsc_}")
    # --- uncertainty: same for all columns, independent of the forecasts, score of the best constant
    u0 = rows[0][2]
    if any(r[2] != u0 for r in rows):
        bad.append("C06 uncertainty differs between columns")
    rng = random.Random(seed * 7919 + n)
    dom = CONFIGS[d["config"]][2]
    other = [gen_z(rng, n, dom, y, "random")]
    o2 = call(d, cols=other, two_d=False, names=None)
    if o2[0] == "rows" and o2[1][0][2] != u0:
        bad.append(f"C06 uncertainty depends on the forecasts: {u0} vs {o2[1][0][2]}")
    if consistent and not const_bad:
        mexact = exact_marginal(functional, level, y, w)
        mfl = float(mexact)
        try:
            sm = float(sf(np.asarray(y, dtype=float), np.full(n, mfl), None if w is None else np.asarray(w, dtype=float)))
            if math.isfinite(sm) and not relclose(sm, u0, 1e-10):
                bad.append(f"C06 uncertainty {u0} is not the score {sm} of the constant forecast {mfl} (exact functional)")
            for c in sorted(set(y)) + [mfl + 0.125, mfl - 0.125, mfl * 1.0625]:
                if (dom == "unit" and not 0 <= c <= 1) or (dom in ("count", "pos") and c <= 0):
                    continue              # LogLoss has no domain check; outside [0,1] it is not a score
                try:
                    sc = float(sf(np.asarray(y, dtype=float), np.full(n, float(c)),
                                  None if w is None else np.asarray(w, dtype=float)))
                except ValueError:
                    continue
                if math.isfinite(sc) and sc < u0 - 1e-12 * (1 + abs(u0)):
                    bad.append(f"C06 uncertainty {u0} is not minimal: constant {c} scores {sc}")
                    break
        except ValueError:
            pass
    # --- miscalibration 0 for already recalibrated forecasts
    if ymin_ok and consistent and base["recals"] and len(base["recals"][0]) == n:
        rc = [float(v) for v in base["recals"][0]]
        o4 = call(d, cols=[rc], two_d=False, names=None)
        if o4[0] == "rows":
            m4, s4 = o4[1][0][0], o4[1][0][3]
            if abs(m4) > 1e-12 * (1 + abs(s4) + abs(u0)):
                bad.append(f"C06 zero: recalibrated forecast {rc} has miscalibration {m4}")
        elif o4[0] != "nonfinite":
            bad.append(f"C06 zero: decompose raised {o4[0]} on the recalibrated forecast")
    # Ill-conditioned repair (DESIGN.md 5.4): when min(y) is not admissible the code merges "the two lowest blocks"
    # of the isotonic fit.  If the fit has blocks whose values are equal in exact arithmetic but differ in the
    # last bits (scipy's expectile root finder), which blocks are "the two lowest" is decided at rounding level
    # and the result jumps; the row-order / replication relations are not judged on such inputs.
    def fit_near_tied():
        if ymin_ok or functional not in ("mean", "expectile", "quantile"):
            return False
        try:
            from model_diagnostics._utils.isotonic import IsotonicRegression as _IR
            for c in cols:
                fv = _IR(functional=functional, level=level if functional != "mean" else 0.5).fit(
                    np.asarray(c, dtype=float), np.asarray(y, dtype=float), sample_weight=None if w is None else np.asarray(w, dtype=float)).predict(np.asarray(c, dtype=float))
                sv = sorted(set(float(v) for v in np.asarray(fv).reshape(-1)))
                if any(0 < b - a <= 1e-9 * max(1.0, abs(a), abs(b)) for a, b in zip(sv, sv[1:])):
                    return True
        except Exception:  # noqa: BLE001
            return False
        return False
    ill = fit_near_tied()
    # --- C07 permutation
    perm = list(range(n))
    rng.shuffle(perm)
    o5 = call(permuted(d, perm)) if not ill else ("nonfinite", "skipped: numerically tied blocks on the repair path")
    if o5[0] != "rows":
        if o5[0] != "nonfinite":
            bad.append(f"C07 permutation {perm}: decompose raised {o5[0]} ({o5[1]})")
    else:
        for ra, rb in zip(rows, o5[1]):
            if any(not relclose(a, b, 1e-10) for a, b in zip(ra, rb)):
                bad.append(f"C07 permutation {perm}: {ra} became {rb}")
                break
    # --- C07 replication (mean and expectile scores)
    if not ill and functional in ("mean", "expectile") and w is not None and all(float(v).is_integer() and 1 <= v <= 6 for v in w):
        reps = [int(v) for v in w]
        yr = [v for v, k in zip(y, reps) for _ in range(k)]
        cr = [[v for v, k in zip(c, reps) for _ in range(k)] for c in cols]
        o6 = call(d, y=yr, cols=cr, w=None)
        if o6[0] != "rows":
            if o6[0] != "nonfinite":
                bad.append(f"C07 replication: repeated rows raise {o6[0]} ({o6[1]})")
        else:
            for ra, rb in zip(rows, o6[1]):
                if any(not relclose(a, b, 1e-10) for a, b in zip(ra, rb)):
                    bad.append(f"C07 replication: weights {reps}: {ra}; repeated rows: {rb}")
                    break
    # --- C07 strictly increasing relabelling: discrimination and uncertainty
    # Forecasts that differ by less than 1e-9 relative are "numerically tied": whether an isotonic regression
    # treats them as a tie is decided at rounding level (scikit-learn pools X values closer than 1e-15), and the
    # decomposition is discontinuous at ties, so the relabelling relation is not judged there (DESIGN.md 5.4).
    def near_tied(c):
        s_ = sorted(set(c))
        return any(b - a <= 1e-9 * max(1.0, abs(a), abs(b)) for a, b in zip(s_, s_[1:]))
    for nm, fn in (("2x+1", lambda v: 2 * v + 1), ("x^3", lambda v: v ** 3), ("exp", math.exp), ("spread to [0.25, 0.75]", None)):
        if any(near_tied(c) for c in cols):
            break
        if fn is None:
            # strictly increasing per column: the smallest forecast goes to 0.25, the largest to 0.75 (inside the domain of
            # every score); forecasts that agree to many digits are pulled apart
            if any(max(c) == min(c) for c in cols):
                continue
            tc = [[0.25 + 0.5 * (v - min(c)) / (max(c) - min(c)) for v in c] for c in cols]
        else:
            tc = [[fn(v) for v in c] for c in cols]
        if any(near_tied(c) for c in tc):
            continue
        keep = all(all((a < b) == (fa < fb) and (a == b) == (fa == fb) for a, fa in zip(c, t) for b, fb in zip(c, t))
                   for c, t in zip(cols, tc))
        if not keep:
            continue
        o7 = call(d, cols=tc)
        if o7[0] in ("rows", "nonfinite"):
            for ra, rb in zip(rows, o7[1]):
                if not (relclose(ra[1], rb[1], 1e-10, abs(ra[2])) and ra[2] == rb[2]) and all(map(math.isfinite, rb[1:3])):
                    bad.append(f"C07 relabel {nm}: discrimination/uncertainty {ra[1:3]} became {rb[1:3]}")
                    break
        elif o7[0] == "ValueError" and dom != "real":
            continue                      # relabelled forecast left the domain of the score
        else:
            bad.append(f"C07 relabel {nm}: decompose raised {o7[0]} ({o7[1]})")
    # --- C07 column independence, BY NAME: the row labelled `name` in the `model` column must be the
    #     decomposition of that column alone; rows in the order of the columns, labelled with their names
    if len(cols) > 1:
        names, labels = base["names"], base["labels"]
        if labels != names:
            bad.append(f"C07 column labels: `model` column is {labels}, the forecast columns are {names}")
        for j, c in enumerate(cols):
            o8 = call(d, cols=[c], two_d=False, names=None)
            mine = [r for lab, r in zip(labels or [], rows) if lab == names[j]]
            if o8[0] != "rows" or len(mine) != 1 or o8[1][0] != mine[0]:
                bad.append(f"C07 column '{names[j]}' (index {j}): alone {o8[1] if o8[0] == 'rows' else o8}, "
                           f"row(s) labelled '{names[j]}' in the matrix result: {mine}")
    elif base["labels"] is not None:
        bad.append(f"C07 column labels: single forecast but a `model` column {base['labels']}")
    # --- C07 aliases
    if d.get("functional") is None and d.get("level") is None:
        o9 = call(d, functional=sf.functional, level=getattr(sf, "level", None))
        if o9[0] != "rows" or o9[1] != rows:
            bad.append(f"C07 alias explicit functional/level: {o9[:2]} vs inferred {rows}")
        if sf.functional == "quantile" and sf.level == 0.5:
            o10 = call(d, functional="median")
            if o10[0] != "rows" or any(not relclose(a, b, 1e-12) for ra, rb in zip(o10[1], rows) for a, b in zip(ra, rb)):
                bad.append(f"C07 alias: functional='median' gives {o10[:2]}, quantile at 0.5 gives rows")
            # the level is documented as neglected for the median
            o11 = call(d, functional="median", level=0.2)
            if o11[0] != "rows" or any(not relclose(a, b, 1e-12) for ra, rb in zip(o11[1], rows) for a, b in zip(ra, rb)):
                bad.append(f"C07 alias: functional='median', level=0.2 gives {o11[:2]}, quantile at 0.5 gives rows (level must be neglected for the median)")
    if d["config"] == "Elem(1,median)" and d.get("functional") is None:
        o12 = call(d, config="Elem(1,quantile,0.5)")
        if o12[0] != o[0] or (o[0] == "rows" and any(not relclose(a, b, 1e-12) for ra, rb in zip(o12[1], o[1]) for a, b in zip(ra, rb))):
            bad.append(f"C07 alias: ElementaryScore(1, 'median') gives {o[:2]}, ElementaryScore(1, 'quantile', 0.5) gives {o12[:2]}")
    return bad, o


def strip(d):
    return {k: v for k, v in d.items() if k not in ("styles",)}


def minimise(d, fails):
    cur = dict(d)
    changed = True
    while changed:
        changed = False
        n = len(cur["y"])
        if len(cur["cols"]) > 1:
            for j in range(len(cur["cols"])):
                c = dict(cur, cols=[cur["cols"][j]], two_d=False, names=None)
                if fails(c):
                    cur, changed = c, True
                    break
            if changed:
                continue
            if len(cur["cols"]) > 2:
                for j in range(len(cur["cols"])):
                    c = dict(cur, cols=cur["cols"][:j] + cur["cols"][j + 1:],
                             names=None if not cur.get("names") else cur["names"][:j] + cur["names"][j + 1:])
                    if fails(c):
                        cur, changed = c, True
                        break
                if changed:
                    continue
        for i in range(n):
            if n <= 2:
                break
            c = dict(cur, y=cur["y"][:i] + cur["y"][i + 1:], cols=[x[:i] + x[i + 1:] for x in cur["cols"]],
                     w=None if cur["w"] is None else cur["w"][:i] + cur["w"][i + 1:])
            if fails(c):
                cur, changed = c, True
                break
    if cur["w"] is not None:
        c = dict(cur, w=None)
        if fails(c):
            cur = c
    return cur


def main():
    mode = sys.argv[1]
    if mode == "corr":
        outdir, prefix, seed, ncases, nmax = sys.argv[2], sys.argv[3], int(sys.argv[4]), int(sys.argv[5]), int(sys.argv[6])
        rng = random.Random(seed)
        os.makedirs(outdir, exist_ok=True)
        cases, dicts, samples, pf = [], [], [], []
        stats = dict(variant=probe_variant(), cases=0, by_config={}, weighted=0, cols3=0, ties=0, constant=0, recal=0, outcomes={},
                     malformed={}, skipped_nonfinite=0, n_hist={}, judged=0)
        nmal = max(ncases // 8, 16)
        stream = [("ok", None)] * ncases + [("mal", None)] * nmal
        for tag, _ in stream:
            d = gen_case(rng, nmax) if tag == "ok" else gen_malformed(rng, nmax)
            r = run_impl(d)
            bad, _o = judge_case(d, seed)
            stats["judged"] += 1
            if bad and len(pf) < 40:
                pf.append(dict(case=strip(d), clauses=bad[:4], observed=list(r["obs"])[:2]))
            if not encodable(d, r):
                stats["skipped_nonfinite"] += 1
                continue
            cases.append(coq_case(d, r))
            dicts.append(strip(d))
            stats["cases"] += 1
            stats["by_config"][d["config"]] = stats["by_config"].get(d["config"], 0) + 1
            stats["outcomes"][r["obs"][0]] = stats["outcomes"].get(r["obs"][0], 0) + 1
            if d.get("kind"):
                key = d["kind"] + ":" + r["obs"][0]
                stats["malformed"][key] = stats["malformed"].get(key, 0) + 1
            if d["w"] is not None:
                stats["weighted"] += 1
            if len(d["cols"]) >= 2:
                stats["cols3"] += 1
            if d.get("names"):
                stats["polars_named"] = stats.get("polars_named", 0) + 1
            if len(d["cols"]) >= 11:
                stats["wide_ndarray"] = stats.get("wide_ndarray", 0) + 1
            for c, st in zip(d["cols"], d.get("styles", [])):
                if st == "recal":
                    stats["recal"] += 1
                if len(set(c)) == 1:
                    stats["constant"] += 1
                elif len(set(c)) < len(c):
                    stats["ties"] += 1
            b = str(min(len(d["y"]) // 10 * 10, 100))
            stats["n_hist"][b] = stats["n_hist"].get(b, 0) + 1
            if len(samples) < 3 and tag == "ok":
                samples.append(dict(case=strip(d), impl=list(r["obs"]), marginal=r["marg"], recalibrated=r["recals"][:1]))
        for d in ELEM_PROBES:
            d = json.loads(json.dumps(d))
            bad, o_ = judge_case(d, seed)
            stats["judged"] += 1
            if bad:
                pf.append(dict(case=strip(d), clauses=bad[:4], observed=list(o_)[:2]))
        paths = []
        for k, sh in enumerate(shard(cases, SHARD)):
            p = os.path.join(outdir, f"{prefix}_{k}.v")
            body = "Definition cases : list dcase := [\n  " + ";\n  ".join(sh) + "\n]."
            write_case_file(p, CASE_IMPORTS, body, "summary cases")
            paths.append(p)
        json.dump(dicts, open(os.path.join(outdir, prefix + "_cases.json"), "w"))
        print(json.dumps(dict(paths=paths, shard_size=SHARD, stats=stats, samples=samples, property_failures=pf)))
    elif mode == "judge":
        ds = json.load(open(sys.argv[2]))
        out = []
        for d in ds:
            bad, obs = judge_case(d)
            if bad:
                key = bad[0].split(":")[0]
                m = d if d.get("kind") else minimise(d, lambda c: any(b.split(":")[0] == key for b in judge_case(c)[0]))
                mb, mo = judge_case(m)
                out.append(dict(case=strip(m), clauses=mb[:6], observed=list(mo)[:2]))
        print(json.dumps(dict(failures=out)))
    elif mode == "search":
        seed, budget = int(sys.argv[2]), int(sys.argv[3])
        found, tried, seen = [], 0, set()

        def note(d, bad, obs):
            key = (d["config"], bad[0].split(":")[0], d.get("kind"))
            if key in seen:
                return
            seen.add(key)
            ck = bad[0].split(":")[0]
            m = d if d.get("kind") else minimise(d, lambda c: any(b.split(":")[0] == ck for b in judge_case(c)[0]))
            mb, mo = judge_case(m)
            found.append(dict(case=strip(m), clauses=mb[:6], observed=list(mo)[:2]))

        # 1. small exhaustive space: observations over {0,1,2}, forecasts a permutation-ish pattern
        zsets = {"real": [0.5, 1.0, 1.5, 2.5], "count": [0.5, 1.0, 1.5, 2.5], "pos": [0.5, 1.0, 1.5, 2.5]}
        for n in (1, 2, 3, 4):
            for name in ("SquaredError", "PoissonDeviance", "PinballLoss(0.5)", "HES(2,0.2)", "HES(1,0.25)"):
                dom = CONFIGS[name][2]
                for ys in itertools.product([0.0, 1.0, 2.0], repeat=n):
                    for zs in itertools.product(zsets[dom][:3], repeat=n):
                        if tried >= budget // 2:
                            break
                        tried += 1
                        d = dict(config=name, y=list(ys), cols=[list(zs)], w=None, two_d=False)
                        bad, obs = judge_case(d, seed)
                        if bad:
                            note(d, bad, obs)
        # 2. the explicit aliases
        for name in ("PinballLoss(0.5)",):
            d = dict(config=name, y=[0.0, 1.0, 2.0, 1.0], cols=[[0.5, 1.0, 2.5, 1.5]], w=None, two_d=False,
                     functional="median", kind="median")
            tried += 1
            bad, obs = judge_case(d, seed)
            if bad:
                note(d, bad, obs)
        for d in ELEM_PROBES:
            d = json.loads(json.dumps(d))
            tried += 1
            bad, obs = judge_case(d, seed)
            if bad:
                note(d, bad, obs)
        # 2b. column labels: names not in ascending order (polars frame; ndarray with 11 columns)
        yy = [0.0, 1.0, 2.0, 1.0]
        for d in (dict(config="SquaredError", y=yy, cols=[[0.5, 1.0, 2.5, 1.5], [1.0, 1.0, 1.0, 1.0], [3.0, 2.0, 1.0, 0.0]],
                       w=None, two_d=True, names=["zeta", "alpha", "mu"]),
                  dict(config="PinballLoss(0.25)", y=yy, cols=[[0.5 + 0.25 * k * i for i in range(4)] for k in range(11)],
                       w=None, two_d=True)):
            tried += 1
            bad, obs = judge_case(d, seed)
            if bad:
                note(d, bad, obs)
        # 2c. forecasts one ulp apart (scikit-learn pools X values closer than 1e-15)
        for name in ("SquaredError", "GammaDeviance", "PinballLoss(0.5)"):
            d = dict(config=name, y=[1.0, 2.0, 3.0], cols=[[1.0, 5.0, 5.000000000000001]], w=None, two_d=False)
            tried += 1
            bad, obs = judge_case(d, seed)
            if bad:
                note(d, bad, obs)
        # 3. seeded random
        rng = random.Random(seed)
        while tried < budget:
            d = gen_case(rng, 12) if rng.random() < 0.9 else gen_malformed(rng, 12)
            tried += 1
            bad, obs = judge_case(d, seed)
            if bad:
                note(d, bad, obs)
        print(json.dumps(dict(tried=tried, failures=found[:12])))
    else:
        raise SystemExit("mode?")


if __name__ == "__main__":
    main()
