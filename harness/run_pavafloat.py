"""BIT-EXACT correspondence run of the mean path of `isotonic_regression` against the
binary64 twin coq/model/PavaFloat.v (comparator coq/corr/CmpPavaFloat.v).

  run_pavafloat.py corr   <outdir> <prefix> <seed> <ncases> <nmax>
      generates ARBITRARY finite doubles (random bit patterns, near ties, exact ties, constant
      runs, huge / tiny / subnormal magnitudes, signed zeros, random walks, overflow provokers;
      weights None or arbitrary positive doubles; both directions; 1 <= n <= nmax; plus a small
      malformed stream), calls the PUBLIC isotonic_regression(y, weights, increasing=...,
      functional="mean"), writes shards <outdir>/<prefix>_<k>.v (<= 400 cases each) whose last
      command prints  (disagreeing indices, #cases, #error cases, total blocks,
      #cases with inf/NaN in the twin's x, #encoding mismatches),  writes
      <outdir>/<prefix>_cases.json and prints one JSON object as last line
      {paths, shard_size, stats, samples, property_failures, observations}.
  run_pavafloat.py judge  <cases.json>
      re-runs the listed case dicts on the implementation and evaluates the structural contract
      and the monotonicity of the returned x with IEEE comparisons; {"failures": [...], ...}
  run_pavafloat.py search <seed> <budget>
      directed search (small exhaustive space of special doubles first, then seeded random);
      {"tried": n, "failures": [...], ...}
  run_pavafloat.py selfcheck <outdir> <prefix> <seed> <ncases> <nmax>
      corr + compiles every shard with coqc and reports the parsed summaries and the time per shard.

Doubles travel as C99 hexadecimal strings (float.hex) everywhere: exact, -0.0 distinct from 0.0.
"""
import itertools
import json
import math
import os
import random
import struct
import sys
import time
import warnings
from fractions import Fraction

import numpy as np

import common

warnings.simplefilter("ignore")

SHARD = 400
MASK63 = (1 << 63) - 1
DBL_MAX = sys.float_info.max


# ------------------------------------------------------------------ bit level helpers
def f2b(v):
    return struct.unpack("<Q", struct.pack("<d", v))[0]


def b2f(b):
    return struct.unpack("<d", struct.pack("<Q", b))[0]


def finite(v):
    return v == v and abs(v) != math.inf


def ulp_step(v, k):
    """the double k units in the last place away from v (clamped to the finite range)"""
    b = f2b(v)
    o = -(b & MASK63) if b >> 63 else b
    o += k
    top = f2b(DBL_MAX)
    o = max(-top, min(top, o))
    return b2f((1 << 63) | (-o)) if o < 0 else b2f(o)


def rand_bits(rng):
    while True:
        v = b2f(rng.getrandbits(64))
        if finite(v):
            return v


def rand_scaled(rng, elo, ehi):
    """random 53-bit significand, random sign, binary exponent in [elo, ehi]"""
    m = (1 << 52) | rng.getrandbits(52)
    v = math.ldexp(m, rng.randint(elo, ehi) - 52)
    return -v if rng.random() < 0.5 else v


def rand_subnormal(rng):
    k = rng.choice([1, 2, 3, rng.getrandbits(8) + 1, rng.getrandbits(30) + 1, rng.getrandbits(52) or 1])
    v = b2f(k)
    return -v if rng.random() < 0.5 else v


# ------------------------------------------------------------------ generators
Y_STYLES = ["bits", "bits", "scaled", "scaled", "nearties", "nearties", "nearties", "ties", "ties", "const",
            "constpert", "huge", "hugemix", "tiny", "subnormal", "zeros", "walk", "walk", "decimal", "smallint",
            "mixed", "mixed", "overflow", "sorted_ulps", "stair_drop", "stair_drop", "zigzag"]


def one_value(rng, style):
    if style == "bits":
        return rand_bits(rng)
    if style == "scaled":
        return rand_scaled(rng, -3, 3)
    if style == "huge":
        return rand_scaled(rng, 990, 1000)
    if style == "tiny":
        return rand_scaled(rng, -1000, -990)
    if style == "subnormal":
        return rand_subnormal(rng)
    if style == "zeros":
        return rng.choice([0.0, -0.0, 0.0, -0.0, 5e-324, -5e-324, 1.0, -1.0, 2.2250738585072014e-308])
    if style == "decimal":
        return rng.randrange(-30, 31) / 10.0
    if style == "smallint":
        return float(rng.randrange(-3, 4))
    raise ValueError(style)


def gen_y(rng, n, style):
    if style in ("bits", "scaled", "huge", "tiny", "subnormal", "zeros", "decimal", "smallint"):
        if style == "scaled":
            e = rng.randint(-1000, 1000)
            return [math.ldexp(rand_scaled(rng, -2, 2), e) for _ in range(n)]
        return [one_value(rng, style) for _ in range(n)]
    if style == "nearties":
        base = rng.choice([rand_bits(rng), rand_scaled(rng, -3, 3), 0.1, 1.0, 1 / 3, 1e300, 1e-300, 3e-308, 0.0])
        return [ulp_step(base, rng.randint(-3, 3)) for _ in range(n)]
    if style == "sorted_ulps":
        base = rng.choice([rand_scaled(rng, -3, 3), 0.1, 1.0, -0.7])
        ks = [rng.randint(-6, 6) for _ in range(n)]
        ks.sort(reverse=rng.random() < 0.5)
        return [ulp_step(base, k) for k in ks]
    if style == "ties":
        pool = [one_value(rng, rng.choice(["bits", "scaled", "decimal", "zeros"])) for _ in range(rng.randint(1, 3))]
        return [rng.choice(pool) for _ in range(n)]
    if style == "const":
        v = rng.choice([0.1, 0.3, 1 / 3, 0.7, rand_bits(rng), rand_scaled(rng, -3, 3), 1e300, 5e-324, -0.0, 0.0,
                        1.7e308, DBL_MAX])
        return [v] * n
    if style == "constpert":
        v = rng.choice([0.1, 0.3, 1 / 3, rand_scaled(rng, -3, 3)])
        out = [v] * n
        out[rng.randrange(n)] = ulp_step(v, rng.choice([-2, -1, 1, 2]))
        return out
    if style == "hugemix":
        return [rng.choice([1e300, -1e300, 1e308, -1e308, 1.7e308, -1.7e308, DBL_MAX, -DBL_MAX, 1.0, 0.0,
                            rand_scaled(rng, 1015, 1023)]) for _ in range(n)]
    if style == "overflow":
        return [rng.choice([1e200, -1e200, 1e308, -1e308, 1.5e308, -1.5e308, 1e160, -1e160, 1.0, 2.0, -2.0])
                for _ in range(n)]
    if style == "walk":
        scale = rng.choice([1.0, 0.1, 1e-3, 1e150, 1e-150, 1e-310])
        v, out = rng.uniform(-1, 1) * scale, []
        for _ in range(n):
            v += rng.choice([rng.gauss(0, 1), rng.uniform(-1, 1), -0.1, 0.1, 0.0]) * scale
            if not finite(v):
                v = 0.0
            out.append(v)
        return out
    if style == "mixed":
        return [one_value(rng, rng.choice(["bits", "scaled", "huge", "tiny", "subnormal", "zeros", "decimal"]))
                for _ in range(n)]
    if style == "stair_drop":
        # ascending stairs (many blocks on the stack) followed by low values: long runs of the down loop 117-121
        e = rng.choice([0, 0, 0, 900, -900, -1070])
        k = rng.randint(1, n)
        up = sorted(math.ldexp(rng.choice([rng.uniform(0.5, 4.0), rng.randrange(5, 40) / 10.0]), e) for _ in range(k))
        lo = [math.ldexp(rng.choice([rng.uniform(0.0, 3.0), rng.randrange(0, 30) / 10.0]), e) for _ in range(n - k)]
        return up + lo
    if style == "zigzag":
        base, e = rng.uniform(0.5, 2.0), rng.choice([0, 0, 500, -500])
        return [math.ldexp(base + (i // 2) * rng.choice([0.1, 0.01, 1e-15]) - (i % 2) * rng.choice([0.3, 0.03, 2e-15]), e)
                for i in range(n)]
    raise ValueError(style)


W_STYLES = ["none", "none", "none", "ones", "smallint", "uniform", "uniform", "bits", "bits", "nearone", "huge",
            "tiny", "subnormal", "mixed", "decimal"]


def pos_bits(rng):
    while True:
        v = abs(rand_bits(rng))
        if v > 0:
            return v


def gen_w(rng, n, style):
    if style == "none":
        return None
    if style == "ones":
        return [1.0] * n
    if style == "smallint":
        return [float(rng.randrange(1, 5)) for _ in range(n)]
    if style == "uniform":
        return [rng.uniform(0.05, 5.0) for _ in range(n)]
    if style == "decimal":
        return [rng.randrange(1, 30) / 10.0 for _ in range(n)]
    if style == "bits":
        return [pos_bits(rng) for _ in range(n)]
    if style == "nearone":
        return [ulp_step(1.0, rng.randint(-3, 3)) for _ in range(n)]
    if style == "huge":
        return [abs(rng.choice([rand_scaled(rng, 990, 1000), 1e200, 1e308, 1.5e308, 1e160])) for _ in range(n)]
    if style == "tiny":
        return [abs(rand_scaled(rng, -1000, -990)) for _ in range(n)]
    if style == "subnormal":
        return [abs(rand_subnormal(rng)) for _ in range(n)]
    if style == "mixed":
        return [rng.choice([pos_bits(rng), 1.0, rng.uniform(0.05, 5.0), abs(rand_subnormal(rng)), 1e300, 1e-300, 0.1])
                for _ in range(n)]
    raise ValueError(style)


def hx(vs):
    return None if vs is None else [float(v).hex() for v in vs]


def unhx(hs):
    return None if hs is None else [float.fromhex(h) for h in hs]


def gen_case(rng, nmax):
    u = rng.random()
    if u < 0.15:
        n = rng.randint(1, min(3, nmax))
    elif u < 0.85:
        n = rng.randint(1, max(1, min(12, nmax)))
    elif u < 0.97:
        n = rng.randint(1, nmax)
    else:
        n = nmax
    ys, ws = rng.choice(Y_STYLES), rng.choice(W_STYLES)
    if ys == "overflow" and rng.random() < 0.7:
        ws = "huge"
    return dict(y=hx(gen_y(rng, n, ys)), w=hx(gen_w(rng, n, ws)), inc=rng.random() < 0.5, ystyle=ys, wstyle=ws, kind=None)


# hand-made provokers of inf / NaN in the middle of the loop and of other float effects
FIXED = [
    ([1e308, 1e308, -1e308, 5.0], None, True),                 # sum overflows to inf, swallows the rest
    ([-1e308, -1e308, 1e308, 1e308], None, True),              # -inf block then +inf block
    ([1e308, 1e308, -1e308, 5.0], None, False),
    ([1e200, -1e200, 3.0], [1e200, 1e200, 1.0], True),          # inf + -inf = NaN
    ([2.0, 1.0, 0.5, 7.0], [1e308, 1e308, 1.0, 1.0], True),     # wb = inf, sb = inf: NaN
    ([2.0, 1.0, 3.0], [1e308, 1e308, 1.0], False),
    ([3.0, 1e200, -1e200, 0.0, 4.0], [1.0, 1e200, 1e200, 2.0, 1.0], True),
    ([1e-300, 1e-300], [1e-300, 1e-300], True),                 # products underflow to 0: block value 0
    ([3e-300, 1e-300, 2e-300], [1e-20, 1e-30, 1e-25], True),
    ([0.1, 0.1, 0.1], None, True),                              # constant input, output 1 ulp above
    ([0.0, -0.0], None, True), ([-0.0, 0.0], None, True), ([-0.0, -0.0], None, True), ([-0.0], None, False),
    ([0.0, -0.0, 0.0, -0.0], [0.5, 0.25, 3.0, 1.0], False),
    ([5e-324, 0.0, 5e-324], None, True), ([5e-324, 5e-324, 5e-324], None, True), ([1e-323, 5e-324], [3.0, 1.0], True),
    ([DBL_MAX, DBL_MAX], None, True), ([DBL_MAX, DBL_MAX], [0.25, 0.25], True), ([DBL_MAX, -DBL_MAX], None, True),
]

MALFORMED = [
    ("wlen", [1.0, 2.0, 3.0], [1.0, 1.0]), ("wlen", [1.0], [1.0, 1.0]), ("wlen", [1.0, 2.0], [1.0]),
    ("wzero", [1.0, 2.0], [1.0, 0.0]), ("wzero", [1.0, 2.0], [-0.0, 1.0]), ("wneg", [3.0, 2.0, 1.0], [1.0, -5e-324, 1.0]),
    ("wneg", [1.0], [-1.0]), ("empty", [], None), ("empty", [], []),
]
EXPECTED_ERR = {"wlen": "ValueError", "wzero": "ValueError", "wneg": "ValueError", "empty": "IndexError"}


# ------------------------------------------------------------------ implementation
def run_impl(y, w, inc):
    from model_diagnostics._utils.isotonic import isotonic_regression
    ya = np.array(y, dtype=np.float64)
    wa = None if w is None else np.array(w, dtype=np.float64)
    try:
        with np.errstate(all="ignore"):
            x, r = isotonic_regression(ya, wa, increasing=inc, functional="mean")
    except ValueError:
        return ("ValueError",)
    except IndexError:
        return ("IndexError",)
    except Exception as e:  # noqa: BLE001
        return ("Other", type(e).__name__)
    if x.dtype != np.float64:
        return ("Other", "dtype " + str(x.dtype))
    return ("ok", [float(v) for v in x], [int(k) for k in r])


def obs_json(obs):
    if obs[0] == "ok":
        return ["ok", [v.hex() if finite(v) else repr(v) for v in obs[1]], obs[2]]
    return list(obs)


# ------------------------------------------------------------------ judge (property statement on the output)
def same_bits(a, b):
    return (a != a and b != b) or f2b(a) == f2b(b)


def judge_case(d):
    """-> (clauses violated, info, obs).  Structural contract of (x, r) and monotonicity of x with IEEE
    comparisons, evaluated on what the implementation returned."""
    y, w, inc = unhx(d["y"]), unhx(d["w"]), d["inc"]
    obs = run_impl(y, w, inc)
    info = {}
    if d.get("kind"):
        want = EXPECTED_ERR[d["kind"]]
        return ([] if obs[0] == want else [f"expected {want}, observed {obs[0]}"]), info, obs
    if obs[0] != "ok":
        return [f"raised {obs[0]}"], info, obs
    x, r = obs[1], obs[2]
    n = len(y)
    bad = []
    if len(x) != n:
        bad.append("len(x) != len(y)")
    if len(r) < 2 or r[0] != 0 or r[-1] != n:
        bad.append("r does not start at 0 and end at n")
    if any(not (r[j] < r[j + 1]) for j in range(len(r) - 1)):
        bad.append("r not strictly increasing")
    if not bad:
        for j in range(len(r) - 1):
            if any(not same_bits(x[i], x[r[j]]) for i in range(r[j], r[j + 1])):
                bad.append("x not constant (bitwise) inside a block")
                break
    has_nan = any(v != v for v in x)
    info["nan"] = has_nan
    info["nonfinite"] = any(not finite(v) for v in x)
    mono = all((x[i] <= x[i + 1]) if inc else (x[i] >= x[i + 1]) for i in range(len(x) - 1))
    if not mono:
        bad.append("x not monotone (IEEE comparison)")
    if not bad or bad == ["x not monotone (IEEE comparison)"]:
        strict = all((x[r[j] - 1] < x[r[j]]) if inc else (x[r[j] - 1] > x[r[j]]) for j in range(1, len(r) - 1))
        if not strict:
            bad.append("adjacent blocks do not differ strictly")
    if n:
        lo, hi = min(y), max(y)
        info["out_of_range"] = any((v < lo or v > hi) for v in x)
    return bad, info, obs


def exact_r(y, w, inc):
    """block vector of the exact (rational arithmetic) PAVA, for the statistics only"""
    ys = [Fraction(v) for v in (y if inc else y[::-1])]
    ws = [Fraction(1)] * len(ys) if w is None else [Fraction(v) for v in (w if inc else w[::-1])]
    stk = []
    for a, b in zip(ys, ws):
        s, t, c = a * b, b, 1
        while stk and stk[-1][0] * t >= s * stk[-1][1]:
            s0, t0, c0 = stk.pop()
            s, t, c = s + s0, t + t0, c + c0
        stk.append((s, t, c))
    r = [0]
    for _, _, c in stk:
        r.append(r[-1] + c)
    return r if inc else [r[-1] - k for k in r[::-1]]


# ------------------------------------------------------------------ Coq output
def flit(v):
    if v != v:
        return "PrimFloat.nan"
    if v == math.inf:
        return "PrimFloat.infinity"
    if v == -math.inf:
        return "PrimFloat.neg_infinity"
    h = float(v).hex()
    return f"({h})" if h[0] == "-" else h


def flist(vs):
    return "[" + "; ".join(flit(v) for v in vs) + "]"


def enc_triple(v):
    p, q = abs(v).as_integer_ratio()
    e = -(q.bit_length() - 1)
    while p and p % 2 == 0:
        p //= 2
        e += 1
    s = "true" if math.copysign(1.0, v) < 0 else "false"
    return f"({flit(v)}, ({s}, {p}%uint63, ({e})%Z))"


def case_term(d, obs):
    y, w = unhx(d["y"]), unhx(d["w"])
    wt = "None" if w is None else f"(Some {flist(w)})"
    if obs[0] == "ok" and all(0 <= k <= 10 ** 6 for k in obs[2]):
        ot = f"(FORes {flist(obs[1])} {common.natlist(obs[2])})"
    elif obs[0] == "ok":
        ot = "FOOther"          # a negative / absurd block index cannot be written as a nat: counts as disagreement
    else:
        ot = {"ValueError": "FOValueError", "IndexError": "FOIndexError"}.get(obs[0], "FOOther")
    return f"mkfcase {flist(y)} {wt} {'true' if d['inc'] else 'false'} {ot}"


def write_shard(path, items):
    encs, seen = [], set()
    for d, obs in items:
        vals = unhx(d["y"]) + (unhx(d["w"]) or []) + (obs[1] if obs[0] == "ok" else [])
        for v in vals:
            if finite(v) and f2b(v) not in seen and len(encs) < 4000:
                seen.add(f2b(v))
                encs.append(enc_triple(v))
    with open(path, "w") as f:
        f.write("From Coq Require Import PrimFloat Uint63 ZArith List Bool.\nImport ListNotations.\n")
        f.write("From MD Require Import model.PavaFloat corr.CmpPavaFloat.\nOpen Scope float_scope.\n")
        f.write("Definition cases : list fcase := [\n " + ";\n ".join(case_term(d, o) for d, o in items) + "].\n")
        f.write("Definition enc : list (float * (bool * int * Z)) := [\n " + ";\n ".join(encs) + "].\n")
        f.write("Eval vm_compute in (fsummary cases enc).\n")


def build(seed, ncases, nmax):
    rng = random.Random(seed)
    dicts = []
    for y, w, inc in FIXED:
        dicts.append(dict(y=hx(y), w=hx(w), inc=inc, ystyle="fixed", wstyle="fixed", kind=None))
    for kind, y, w in MALFORMED:
        dicts.append(dict(y=hx(y), w=hx(w), inc=rng.random() < 0.5, ystyle="malformed", wstyle="malformed", kind=kind))
    while len(dicts) < ncases:
        dicts.append(gen_case(rng, nmax))
    dicts = dicts[:max(ncases, 1)]
    stats = dict(cases=len(dicts), ystyle={}, wstyle={}, increasing=0, decreasing=0, n_hist={}, blocks=0,
                 nonfinite_outputs=0, nan_outputs=0, out_of_range_outputs=0, r_differs_from_exact_arithmetic=0,
                 errors=0, distinct_doubles=0)
    items, fails, observations = [], [], dict(nan=[], out_of_range=[], nonmonotone_with_nan=[])
    alld = set()
    for d in dicts:
        bad, info, obs = judge_case(d)
        items.append((d, obs))
        stats["ystyle"][d["ystyle"]] = stats["ystyle"].get(d["ystyle"], 0) + 1
        stats["wstyle"][d["wstyle"]] = stats["wstyle"].get(d["wstyle"], 0) + 1
        stats["increasing" if d["inc"] else "decreasing"] += 1
        n = len(d["y"])
        key = "1" if n == 1 else "2-3" if n <= 3 else "4-12" if n <= 12 else "13-40" if n <= 40 else ">40"
        stats["n_hist"][key] = stats["n_hist"].get(key, 0) + 1
        for h in d["y"] + (d["w"] or []):
            alld.add(h)
        if obs[0] != "ok":
            stats["errors"] += 1
        else:
            stats["blocks"] += len(obs[2]) - 1
            stats["nonfinite_outputs"] += bool(info.get("nonfinite"))
            stats["nan_outputs"] += bool(info.get("nan"))
            stats["out_of_range_outputs"] += bool(info.get("out_of_range"))
            if info.get("out_of_range") and not info.get("nonfinite") and len(observations["out_of_range"]) < 2:
                observations["out_of_range"].append(dict(case=d, observed=obs_json(obs)))
            if info.get("nan") and len(observations["nan"]) < 2:
                observations["nan"].append(dict(case=d, observed=obs_json(obs), clauses=bad))
            if not d.get("kind") and obs[2] != exact_r(unhx(d["y"]), unhx(d["w"]), d["inc"]):
                stats["r_differs_from_exact_arithmetic"] += 1
        if bad:
            if info.get("nan"):
                if len(observations["nonmonotone_with_nan"]) < 2:
                    observations["nonmonotone_with_nan"].append(dict(case=d, clauses=bad, observed=obs_json(obs)))
            else:
                fails.append(dict(case=d, clauses=bad, observed=obs_json(obs)))
    stats["distinct_doubles"] = len(alld)
    return dicts, items, stats, fails, observations


def corr(outdir, prefix, seed, ncases, nmax):
    os.makedirs(outdir, exist_ok=True)
    dicts, items, stats, fails, observations = build(seed, ncases, nmax)
    paths = []
    for k, sh in enumerate(common.shard(items, SHARD)):
        p = os.path.join(os.path.abspath(outdir), f"{prefix}_{k}.v")
        write_shard(p, sh)
        paths.append(p)
    json.dump(dicts, open(os.path.join(outdir, prefix + "_cases.json"), "w"))
    samples = [dict(case=d, observed=obs_json(o)) for d, o in (items[3], items[len(FIXED) + len(MALFORMED)], items[-1])] \
        if len(items) > len(FIXED) + len(MALFORMED) else [dict(case=items[0][0], observed=obs_json(items[0][1]))]
    return dict(paths=paths, shard_size=SHARD, stats=stats, samples=samples, property_failures=fails[:5],
                observations=observations)


def minimise(d):
    cur = dict(d)
    changed = True
    while changed and len(cur["y"]) > 1:
        changed = False
        for i in range(len(cur["y"])):
            c = dict(cur)
            c["y"] = cur["y"][:i] + cur["y"][i + 1:]
            c["w"] = None if cur["w"] is None else cur["w"][:i] + cur["w"][i + 1:]
            bad, info, _ = judge_case(c)
            if bad and not info.get("nan"):
                cur, changed = c, True
                break
    return cur


def main():
    mode = sys.argv[1]
    if mode == "corr":
        outdir, prefix, seed, ncases, nmax = sys.argv[2:7]
        print(json.dumps(corr(outdir, prefix, int(seed), int(ncases), int(nmax))))
    elif mode == "judge":
        ds = json.load(open(sys.argv[2]))
        out, nan_obs, nnan = [], [], 0
        for d in ds:
            bad, info, obs = judge_case(d)
            if info.get("nan"):
                nnan += 1
                if bad and len(nan_obs) < 3:
                    nan_obs.append(dict(case=d, clauses=bad, observed=obs_json(obs)))
            elif bad:
                m = minimise(d) if not d.get("kind") else d
                mb, _, mo = judge_case(m)
                out.append(dict(case=m, clauses=mb, observed=obs_json(mo)))
        print(json.dumps(dict(failures=out, judged=len(ds), nan_outputs=nnan, nan_observations=nan_obs)))
    elif mode == "search":
        seed, budget = int(sys.argv[2]), int(sys.argv[3])
        found, tried, nnan, oor = [], 0, 0, 0
        specials = [0.0, -0.0, 0.1, ulp_step(0.1, 1), 1.0, -1.0, 5e-324, 1e308]
        wpats = [None, [0.1, 3.0, 0.7, 1e-3], [1.0, ulp_step(1.0, 1), ulp_step(1.0, -1), 1.0]]
        for n in range(1, 5):
            for ys in itertools.product(specials, repeat=n):
                for wp in wpats:
                    for inc in (True, False):
                        if tried >= budget or found:
                            break
                        d = dict(y=hx(ys), w=None if wp is None else hx(wp[:n]), inc=inc, kind=None)
                        tried += 1
                        bad, info, obs = judge_case(d)
                        nnan += bool(info.get("nan"))
                        oor += bool(info.get("out_of_range"))
                        if bad and not info.get("nan"):
                            found.append(dict(case=d, clauses=bad, observed=obs_json(obs)))
        rng = random.Random(seed)
        while not found and tried < budget:
            d = gen_case(rng, 16)
            tried += 1
            bad, info, obs = judge_case(d)
            nnan += bool(info.get("nan"))
            oor += bool(info.get("out_of_range"))
            if bad and not info.get("nan"):
                m = minimise(d)
                mb, _, mo = judge_case(m)
                found.append(dict(case=m, clauses=mb, observed=obs_json(mo)))
        print(json.dumps(dict(tried=tried, failures=found[:3], nan_outputs=nnan, out_of_range_outputs=oor)))
    elif mode == "selfcheck":
        outdir, prefix, seed, ncases, nmax = sys.argv[2:7]
        res = corr(outdir, prefix, int(seed), int(ncases), int(nmax))
        times, summ = {}, {}
        t0 = time.time()
        for p in res["paths"]:
            t = time.time()
            out = common.run_coqc_parallel([p], jobs=1)[p]
            times[os.path.basename(p)] = round(time.time() - t, 2)
            ps = common.parse_summary(out[1])
            summ[os.path.basename(p)] = dict(rc=out[0], bad=None if ps is None else ps[0],
                                             counters=None if ps is None else ps[1], raw=None if ps else out[1][-400:])
        res["coqc_seconds_per_shard"] = times
        res["coqc_total_seconds"] = round(time.time() - t0, 2)
        res["summaries"] = summ
        res["all_empty"] = all(v["rc"] == 0 and v["bad"] == [] and v["counters"] and v["counters"][-1] == 0 for v in summ.values())
        print(json.dumps(res))
    else:
        raise SystemExit(__doc__)


if __name__ == "__main__":
    main()
