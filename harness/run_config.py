"""Correspondence run for _config.py (C18): tree-shaped programs executed with
real `with config_context(...)` blocks, flattened to the model's flat history.

  run_config.py corr <outdir> <prefix> <seed> <nhist> <maxlen> <exhaustive_len>
"""
import itertools
import json
import os
import random
import sys

import model_diagnostics
from model_diagnostics import config_context, get_config, set_config
import model_diagnostics._config as cfgmod

from common import write_case_file, shard

class _Bare:
    def __repr__(self):
        return "<argument not passed>"


BARE = _Bare()      # the argument is not passed at all: set_config() / config_context()


def kw(v):
    return {} if v is BARE else {"plot_backend": v}


VALS = {"none": None, "bare": BARE, "mpl": "matplotlib", "plotly": "plotly", "inv1": "XXX", "inv2": "Matplotlib", "inv3": 1,
        "inv4": "", "inv5": 0, "inv6": False, "inv7": "plot", "inv8": "lib", "inv9": "matplotlibplotly",
        # invalid values that are containers (a tuple breaks %-formatting of an error message, a list is unhashable)
        "inv10": ("matplotlib", "plotly"), "inv11": (), "inv12": ["matplotlib"], "inv13": (None, None)}
COQ_ARG = {"none": "ANone", "bare": "ANone", "mpl": "(AVal Matplotlib)", "plotly": "(AVal Plotly)", "inv1": "AInvalid",
           "inv2": "AInvalid", "inv3": "AInvalid", "inv4": "AInvalid", "inv5": "AInvalid", "inv6": "AInvalid", "inv7": "AInvalid", "inv8": "AInvalid", "inv9": "AInvalid",
           "inv10": "AInvalid", "inv11": "AInvalid", "inv12": "AInvalid", "inv13": "AInvalid"}
COQ_B = {"matplotlib": "Matplotlib", "plotly": "Plotly"}


class Boom(Exception):
    pass


class BoomBase(BaseException):
    """a block can also be left by an exception that is not an Exception (KeyboardInterrupt, SystemExit, GeneratorExit)"""


SNAPSHOTS = []          # snapshots taken earlier by "read" and kept alive: mutated again later (aliasing with saved state)
COUNTER = [0]


def observe(out, trace):
    b = get_config()["plot_backend"]
    trace.append((b, out))


PROPERTY_FAILS = []


def exec_prog(prog, trace, flat, av):
    for node in prog:
        k = node[0]
        before = get_config()
        if k == "set":
            flat.append(f"SetC {COQ_ARG[node[1]]}")
            try:
                set_config(**kw(VALS[node[1]]))
                out = "Done"
            except ValueError:
                out = "ValueError"
            except ModuleNotFoundError:
                out = "ModuleNotFound"
            except Exception as e:  # noqa: BLE001 - any other class is itself a finding for an invalid name
                out = "Other:" + type(e).__name__
            observe(out if not out.startswith("Other:") else "ValueError", trace)
            if node[1].startswith("inv") and (out != "ValueError" or get_config() != before):
                PROPERTY_FAILS.append(f"invalid backend {VALS[node[1]]!r}: outcome {out}, config {before} -> {get_config()}")
            if out != "Done" and get_config() != before:
                PROPERTY_FAILS.append(f"failed set_config changed the configuration {before} -> {get_config()}")
        elif k == "read":
            flat.append(f"ReadMutate {COQ_B[node[1]]}")
            # mutate every snapshot taken so far (they must all be independent copies), then take a new one,
            # keep it alive un-mutated half of the time (it is mutated by a later read, possibly inside a block)
            for old_snap in SNAPSHOTS:
                old_snap["plot_backend"] = node[1]
                old_snap["other"] = 3
            d = get_config()
            COUNTER[0] += 1
            if COUNTER[0] % 2:
                d["plot_backend"] = node[1]
                d["other"] = 3
            SNAPSHOTS.append(d)
            observe("Done", trace)
            if get_config() != before:
                PROPERTY_FAILS.append(f"mutating the dict returned by get_config changed the configuration to {get_config()}")
        elif k == "block":
            flat.append(f"Enter {COQ_ARG[node[1]]}")
            entered = False
            try:
                with config_context(**kw(VALS[node[1]])):
                    entered = True
                    if node[1].startswith("inv"):
                        PROPERTY_FAILS.append(f"invalid backend {VALS[node[1]]!r} accepted by config_context (no ValueError); configuration inside the block {get_config()}")
                    observe("Done", trace)
                    exec_prog(node[2], trace, flat, av)
                    flat.append(f"Leave {'true' if node[3] else 'false'}")
                    if node[3]:
                        COUNTER[0] += 1
                        raise (Boom() if COUNTER[0] % 3 else BoomBase())
            except (Boom, BoomBase):
                pass
            except ValueError:
                if entered:
                    raise
                observe("ValueError", trace)
                if get_config() != before:
                    PROPERTY_FAILS.append(f"failed context entry changed the configuration {before} -> {get_config()}")
                continue
            except ModuleNotFoundError:
                if entered:
                    raise
                observe("ModuleNotFound", trace)
                continue
            except Exception as e:  # noqa: BLE001 - anything else escaping from the context manager itself
                PROPERTY_FAILS.append(f"entering / leaving the block raised {type(e).__name__}: {str(e)[:120]} "
                                      f"(configuration at entry {before}, now {get_config()})")
            observe("Done", trace)
            if get_config() != before:
                PROPERTY_FAILS.append(f"configuration after leaving the block {get_config()} differs from the one at entry {before} "
                                      f"(backend={VALS[node[1]]!r}, left by {'exception' if node[3] else 'normal exit'})")


def gen_prog(rng, budget, depth):
    prog = []
    while budget[0] > 0 and rng.random() < 0.85:
        budget[0] -= 1
        r = rng.random()
        if r < 0.35:
            prog.append(("set", rng.choice(list(VALS))))
        elif r < 0.5:
            prog.append(("read", rng.choice(["matplotlib", "plotly"])))
        elif depth < 6:
            body = gen_prog(rng, budget, depth + 1)
            prog.append(("block", rng.choice(list(VALS)), body, rng.random() < 0.4))
            budget[0] -= 1
    return prog


def all_progs(n):
    """all programs with exactly n operations over a reduced alphabet (exhaustive tier)"""
    vals = ["none", "bare", "mpl", "plotly", "inv1", "inv4", "inv7"]
    if n == 0:
        yield []
        return
    for v in vals:
        for rest in all_progs(n - 1):
            yield [("set", v)] + rest
    for rest in all_progs(n - 1):
        yield [("read", "plotly")] + rest
    # a block costs 2 operations (enter + leave)
    if n >= 2:
        for v in vals:
            for k in range(0, n - 1):
                for body in all_progs(k):
                    for rest in all_progs(n - 2 - k):
                        for exc in (False, True):
                            yield [("block", v, body, exc)] + rest


def run_one(prog, av):
    cfgmod._global_config.clear()
    cfgmod._global_config["plot_backend"] = "matplotlib"
    cfgmod.find_spec = (lambda name: object()) if av else (lambda name: None)
    trace, flat = [], []
    del PROPERTY_FAILS[:]
    del SNAPSHOTS[:]
    exec_prog(prog, trace, flat, av)
    keys = sorted(cfgmod._global_config)
    return trace, flat, keys, list(PROPERTY_FAILS)


def directed_probes():
    """histories the op alphabet cannot express: a context manager object created before the configuration changes and
    entered afterwards, the object bound by `as` mutated inside the block, the decorator form called repeatedly.
    (plotly simulated as installed, so that two valid backends exist.)  -> list of property failures"""
    fails = []

    def reset(b):
        cfgmod._global_config.clear()
        cfgmod._global_config["plot_backend"] = b
        cfgmod.find_spec = lambda name: object()

    for first, later, arg in (("matplotlib", "plotly", None), ("plotly", "matplotlib", None), ("matplotlib", "plotly", "matplotlib"), ("plotly", "matplotlib", "plotly")):
        for boom in (False, True):
            reset(first)
            cm = config_context(plot_backend=arg)
            set_config(plot_backend=later)
            at_entry = get_config()
            inside = None
            try:
                with cm:
                    inside = get_config()
                    if boom:
                        raise Boom()
            except Boom:
                pass
            want_inside = dict(plot_backend=arg if arg is not None else later)
            if inside != want_inside or get_config() != at_entry:
                fails.append(dict(case=dict(program=f"directed: cm = config_context(plot_backend={arg!r}) created under {first!r}, set_config({later!r}), with cm: ... "
                                                    f"({'exception' if boom else 'normal'} exit)", plotly_available=True),
                                  clauses=[f"inside the block {inside} (expected {want_inside}); after the block {get_config()} differs from the configuration at entry {at_entry}"]))
    for first, other in (("matplotlib", "plotly"), ("plotly", "matplotlib")):
        reset(first)
        try:
            with config_context(plot_backend=other) as handed:
                if isinstance(handed, dict):
                    handed["plot_backend"] = other
                    handed["extra"] = 1
        except Exception as e:  # noqa: BLE001
            fails.append(dict(case=dict(program=f"directed: with config_context({other!r}) as c: mutate c", plotly_available=True),
                              clauses=[f"leaving the block raised {type(e).__name__}"]))
        if get_config() != dict(plot_backend=first):
            fails.append(dict(case=dict(program=f"directed: with config_context({other!r}) as c: mutate c (configuration at entry {first!r})", plotly_available=True),
                              clauses=[f"after the block the configuration is {get_config()}, at entry it was {first!r}"]))
    reset("matplotlib")

    @config_context(plot_backend="plotly")
    def inner():
        return get_config()["plot_backend"]
    for cur in ("matplotlib", "plotly", "matplotlib"):
        set_config(plot_backend=cur)
        got = inner()
        if got != "plotly" or get_config() != dict(plot_backend=cur):
            fails.append(dict(case=dict(program=f"directed: decorated function called with the configuration {cur!r}", plotly_available=True),
                              clauses=[f"inside {got!r} (expected 'plotly'); afterwards {get_config()} (expected {cur!r})"]))
    # the decorator on a recursive function: the same context-manager object is entered again while it is active
    reset("matplotlib")

    @config_context(plot_backend="plotly")
    def rec(n):
        inside = [get_config()["plot_backend"]]
        if n > 0:
            inside += rec(n - 1)
            inside.append(get_config()["plot_backend"])
        return inside
    for depth in (1, 2):
        set_config(plot_backend="matplotlib")
        seen = rec(depth)
        if set(seen) != {"plotly"} or get_config() != dict(plot_backend="matplotlib"):
            fails.append(dict(case=dict(program=f"directed: decorated recursive function, depth {depth}, configuration 'matplotlib' outside", plotly_available=True),
                              clauses=[f"inside {seen} (expected 'plotly' throughout); afterwards {get_config()} (expected 'matplotlib')"]))
    return fails


def coq_case(av, flat, trace):
    obs = "; ".join(f"({COQ_B[b] if isinstance(b, str) and b in COQ_B else 'BADVALUE'}, {o})" for b, o in trace)
    return f"mkccase {'true' if av else 'false'} [{'; '.join(flat)}] [{obs}]"


def main():
    _, mode, outdir, prefix, seed, nhist, maxlen, exlen = sys.argv
    rng = random.Random(int(seed))
    cases, samples, lens = [], [], {}
    nbad_keys, pfails = [], []
    progs = []
    for n in range(0, int(exlen) + 1):
        for p in all_progs(n):
            progs.append((p, True))
            progs.append((p, False))
    nex = len(progs)
    for _ in range(int(nhist)):
        progs.append((gen_prog(rng, [rng.randrange(1, int(maxlen) + 1)], 0), rng.random() < 0.5))
    for prog, av in progs:
        trace, flat, keys, pf = run_one(prog, av)
        if pf and (not pfails or len(flat) < len(pfails[0]["history"])):
            pfails.insert(0, dict(case=dict(program=prog, plotly_available=av), history=flat, clauses=pf, observed=trace))
        if keys != ["plot_backend"]:
            nbad_keys.append(dict(prog=prog, keys=keys))
        cases.append(coq_case(av, flat, trace))
        lens[len(flat)] = lens.get(len(flat), 0) + 1
        if len(samples) < 3 and len(flat) >= 6:
            samples.append(dict(plotly_available=av, history=flat, observed=trace))
    for f in directed_probes():
        pfails.insert(0, dict(case=f["case"], history=[], clauses=f["clauses"], observed=None))
    # restore the real find_spec and default
    from importlib.util import find_spec
    cfgmod.find_spec = find_spec
    cfgmod._global_config["plot_backend"] = "matplotlib"
    os.makedirs(outdir, exist_ok=True)
    paths = []
    for k, sh in enumerate(shard(cases, 2000)):
        p = os.path.join(outdir, f"{prefix}_{k}.v")
        body = "Definition cases : list ccase := [\n  " + ";\n  ".join(sh) + "\n]."
        write_case_file(p, "From MD Require Import model.Config corr.Decode corr.CmpConfig.", body, "summary cases")
        paths.append(p)
    json.dump([dict(prog=p, av=a) for p, a in progs], open(os.path.join(outdir, prefix + "_cases.json"), "w"))
    print(json.dumps(dict(paths=paths, stats=dict(histories=len(cases), exhaustive_histories=nex,
                                                  exhaustive_up_to_len=int(exlen), length_hist=lens,
                                                  extra_keys_leaked=len(nbad_keys)),
                          samples=samples, key_leaks=nbad_keys[:3], property_failures=pfails[:3])))


if __name__ == "__main__":
    main()
