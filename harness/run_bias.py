"""Correspondence / judge / search harness for `compute_bias` (C09).

  run_bias.py corr   <outdir> <prefix> <seed> <ncases> <nmax>
  run_bias.py judge  <cases.json>
  run_bias.py search <seed> <budget>

A case is a JSON-able dict
  {"y": [...], "models": [[...], ...], "two_d": bool, "names": None | [column names of a pl.DataFrame y_pred],
   "w": None | [...], "functional": str, "level": float,
   "feat": None | <run_binning case dict (ftype, values, n_bins, method, ...)>}
Rows of the result are matched BY the label in the `model` column: block j handed to the comparator /
judge = the rows labelled with the name of input column j.
"""
import itertools
import json
import math
import os
import random
import sys
import warnings
from fractions import Fraction

warnings.filterwarnings("ignore")

import numpy as np
import polars as pl
from scipy import special

from model_diagnostics.calibration import compute_bias
from model_diagnostics._utils.binning import bin_feature

import run_binning as rb
from common import qlit, qlist, write_case_file, shard

FUN_COQ = {"mean": "FMean", "median": "FMedian", "expectile": "FExpectile", "quantile": "FQuantile"}
TOL = 1e-9


# ------------------------------------------------------------------ running
def call_impl(d, perm=None):
    """runs compute_bias; perm = row permutation applied to every per-row input"""
    n = len(d["y"])
    idx = list(range(n)) if perm is None else perm
    y = np.array([d["y"][i] for i in idx], dtype=float)
    cols = [[m[i] for i in idx] for m in d["models"]]
    if d.get("names"):
        z = pl.DataFrame({nm: pl.Series(c, dtype=pl.Float64) for nm, c in zip(d["names"], cols)})
    elif len(cols) == 1 and not d.get("two_d"):
        z = np.array(cols[0], dtype=float)
    else:
        z = np.array(cols, dtype=float).T
    w = None if d["w"] is None else np.array([d["w"][i] for i in idx], dtype=float)
    kw = dict(functional=d["functional"], level=d["level"])
    if d["feat"] is None:
        feature = None
    else:
        fd = dict(d["feat"])
        fd["values"] = [fd["values"][i] for i in idx]
        feature = rb.build_feature(fd)
        kw.update(n_bins=fd["n_bins"], bin_method=fd["method"])
    return compute_bias(y_obs=y, y_pred=z, feature=feature, weights=w, **kw)


def expected_labels(d):
    """the documented `model` labels, in input column order; None when there is no model column"""
    if d.get("names"):
        return list(d["names"])
    if len(d["models"]) == 1 and not d.get("two_d"):
        return None
    return [str(j) for j in range(len(d["models"]))]


def df_tables(d, df):
    """-> (per input column j: the rows LABELLED with column j's name, as
           (label, mean, count, weights, stderr, p); labels in the order the blocks appear)
       or (None, labels) when the labels are not a permutation of the column names"""
    fcol = None
    for c in df.columns:
        if c not in ("model", "model_", "bias_mean", "bias_count", "bias_weights", "bias_stderr", "p_value"):
            fcol = c
    rows = df.to_dicts()
    exp = expected_labels(d)
    mcol = "model" if "model" in df.columns and (fcol != "model") else ("model_" if "model_" in df.columns else None)

    def conv(tab):
        return [(None if fcol is None else r[fcol], float(r["bias_mean"]), int(r["bias_count"]),
                 float(r["bias_weights"]), float(r["bias_stderr"]), float(r["p_value"])) for r in tab]
    if exp is None:
        if mcol is not None:
            return None, ["<unexpected model column>"]
        return [conv(rows)], None
    if mcol is None:
        return None, ["<no model column>"]
    order = []
    for r in rows:
        if r[mcol] not in order:
            order.append(r[mcol])
    if sorted(order) != sorted(exp) or len(set(exp)) != len(exp):
        return None, order
    # blocks must be contiguous
    seen_done, cur = set(), None
    for r in rows:
        if r[mcol] != cur:
            if r[mcol] in seen_done:
                return None, order + ["<interleaved>"]
            if cur is not None:
                seen_done.add(cur)
            cur = r[mcol]
    return [conv([r for r in rows if r[mcol] == name]) for name in exp], order


def run_impl(d):
    try:
        df = call_impl(d)
    except Exception as e:  # noqa: BLE001
        return ("err", type(e).__name__, str(e)[:160])
    tabs, order = df_tables(d, df)
    if tabs is None:
        return ("badlabels", order)
    return ("ok", tabs, order)


# ------------------------------------------------------------------ exact recomputation
def exact_V(functional, level, y, z):
    y, z, a = Fraction(y), Fraction(z), Fraction(level)
    ind = Fraction(1 if z >= y else 0)
    if functional == "mean":
        return z - y
    if functional == "median":
        return ind - Fraction(1, 2)
    if functional == "expectile":
        return 2 * abs(ind - a) * (z - y)
    return ind - a


def exact_stat(vs, ws):
    n = len(vs)
    tw = sum(ws)
    if tw == 0:
        return dict(defined=False, count=n, weights=tw)
    mean = sum(w * v for v, w in zip(vs, ws)) / tw
    var = sum(w * (v - mean) ** 2 for v, w in zip(vs, ws)) / tw
    se2 = var / (n - 1) if n > 1 else var
    if se2 == 0:
        p = ("zero",) if n > 1 else ("nan",)
    elif se2 > 0:
        p = ("student", mean * mean / se2, n - 1)
    else:
        p = ("nan",)
    return dict(defined=True, mean=mean, count=n, weights=tw, se2=se2, p=p)


def expected_p(p):
    if p[0] == "nan":
        return math.nan
    if p[0] == "zero":
        return 0.0
    return float(2 * special.stdtr(p[2], -math.sqrt(float(p[1]))))


def group_rows(d):
    """groups of row indices as the binning helper defines them, in the order of the output frame:
    null first, then ascending label.  -> list of (label, [indices]) | ("err", ...) | ("nan",)"""
    n = len(d["y"])
    if d["feat"] is None:
        return [(None, list(range(n)))]
    fd = d["feat"]
    feat = rb.build_feature(fd)
    with pl.StringCache():
        f, nb, fb = bin_feature(feat, None, n, fd["n_bins"], fd["method"])
        bins = fb.get_column("bin")
        if rb.is_string_type(fd["ftype"]):
            labels = [None if b is None else str(b) for b in bins.cast(pl.String).to_list()]
            if fd["ftype"] == "enum":
                pos = {s: i for i, s in enumerate(fd["enum_cats"])}
                keyf = lambda s: (pos.get(s, len(pos)),)  # noqa: E731
            else:
                keyf = lambda s: (s.encode("utf-8"),)  # noqa: E731
        else:
            edges = fb.get_column("bin_edges").to_list()
            if any(e is not None and (math.isnan(e[0]) or math.isnan(e[1])) for e in edges):
                return ("nan",)
            labels = [None if b is None else int(b) for b in bins.to_list()]
            keyf = lambda s: (s,)  # noqa: E731
    groups = {}
    for i, lab in enumerate(labels):
        groups.setdefault(lab, []).append(i)
    keys = sorted(groups, key=lambda s: (0,) if s is None else (1,) + keyf(s))
    return [(k, groups[k]) for k in keys]


def exact_tables(d, groups):
    ws = [Fraction(1)] * len(d["y"]) if d["w"] is None else [Fraction(w) for w in d["w"]]
    out = []
    for zs in d["models"]:
        vs = [exact_V(d["functional"], d["level"], y, z) for y, z in zip(d["y"], zs)]
        out.append([(lab, exact_stat([vs[i] for i in idx], [ws[i] for i in idx])) for lab, idx in groups])
    return out


def close(a, b, tol=TOL):
    if math.isnan(a) or math.isnan(b):
        return math.isnan(a) and math.isnan(b)
    return abs(a - b) <= tol * (1 + abs(a))


# ------------------------------------------------------------------ Coq encoding
def coq_feat(fd):
    if fd is None:
        return "FNone"
    if rb.is_string_type(fd["ftype"]):
        names = rb.natural_names(fd)
        code = {s: i for i, s in enumerate(names)}
        kind = {"str": "SString", "strnull": "SString", "cat": "SCategorical", "catnull": "SCategorical", "enum": "SEnum"}[fd["ftype"]]
        feat = "[" + "; ".join("None" if v is None else f"Some {code[v]}%nat" for v in fd["values"]) + "]"
        return f"(FStr {kind} [{'; '.join(rb.slit(s) for s in names)}] {feat})"
    kind = "KBool" if fd["ftype"] in ("bool", "boolnp") else "KNum"
    cells = rb.numeric_cells(fd)
    feat = "[" + "; ".join("None" if c is None else f"Some {rb.xlit(c)}" for c in cells) + "]"
    m = rb.METHOD_COQ.get(fd["method"], "NumpyRule")
    return f"(FNum {kind} {feat} {m} {qlist(rb.interior_edges(fd))})"


def coq_pclass(p):
    if p[0] == "nan":
        return "PNaN"
    if p[0] == "zero":
        return "PZero"
    return f"(PStudent {qlit(p[1])} {p[2]}%nat)"


def optq(v):
    return "None" if math.isnan(v) or math.isinf(v) else f"(Some {qlit(v)})"


def coq_case(d, obs, exact):
    """exact: per model list of (label, stat) from the harness' own recomputation, or None"""
    if obs[0] == "badlabels":
        o = "OBOther"          # the `model` labels are not the column names: never agrees
    elif obs[0] == "err":
        o = rb.ERR_COQ.get(obs[1], "OBOther").replace("OErr", "OBErr")
    elif exact == "nan":
        o = "OBNanEdges"
    else:
        per_model = []
        for tab, ex in zip(obs[1], exact if exact else [[]] * len(obs[1])):
            rows = []
            for k, r in enumerate(tab):
                _, mean, cnt, wts, se, p = r
                st = ex[k][1] if k < len(ex) else None
                if st is not None and st["defined"]:
                    pc = coq_pclass(st["p"])
                    p_ok = close(expected_p(st["p"]), p) or (st["p"][0] == "zero" and abs(p) < 1e-9)
                else:
                    pc, p_ok = "PNaN", math.isnan(p)
                rows.append(f"mko {optq(mean)} {cnt}%nat {qlit(wts)} {optq(se)} {pc} {'true' if p_ok else 'false'}")
            per_model.append("[" + "; ".join(rows) + "]")
        o = "(OBRows [" + "; ".join(per_model) + "])"
    w = "None" if d["w"] is None else f"(Some {qlist(d['w'])})"
    nb = d["feat"]["n_bins"] if d["feat"] is not None else 10
    models = "[" + "; ".join(qlist(m) for m in d["models"]) + "]"
    return (f"mkb {FUN_COQ[d['functional']]} {qlit(d['level'])} {qlist(d['y'])} {models} {coq_feat(d['feat'])} "
            f"{nb}%nat {w} {o}")


# ------------------------------------------------------------------ the property statement
def judge_case(d, obs=None, deep=True):
    """evaluates the text of C09 on the implementation; -> list of violated clauses"""
    bad = _judge_case(d, obs, deep)
    if bad and rb.inf_only(d["feat"]):
        # regression marker of /repo commit b2b5cba: only for the clauses that repair was about
        bad = ["inf_only: " + b if ("not accepted" in b or "NaN edges" in b) else b for b in bad]
    return bad


def _judge_case(d, obs=None, deep=True):
    if obs is None:
        obs = run_impl(d)
    level_bad = d["functional"] in ("expectile", "quantile") and not (0 < d["level"] < 1)
    args_bad = level_bad or (d["feat"] is not None and d["feat"]["n_bins"] < 2)
    if obs[0] == "err":
        if args_bad and obs[1] == "ValueError":
            return []
        # any other exception comes out of the binning helper, which runs before the level check
        if rb.is_bool(d["feat"]):
            return []          # Boolean columns are not a documented feature type
        ft = "none" if d["feat"] is None else d["feat"]["ftype"]
        return [f"feature not accepted: {ft} column raised {obs[1]}: {obs[2]}"]
    if args_bad:
        return ["invalid arguments accepted"]
    if obs[0] == "badlabels":
        return [f"model labels {obs[1]} are not the column names {expected_labels(d)}"]
    bad = []
    if obs[2] is not None and obs[2] != expected_labels(d):
        bad.append(f"model blocks in order {obs[2]}, documented order is the input column order {expected_labels(d)}")
    try:
        groups = group_rows(d)
    except Exception as e:  # noqa: BLE001
        return [f"binning helper raised {type(e).__name__} but compute_bias returned"]
    if groups == ("nan",):
        return ["bins with NaN edges"]
    exact = exact_tables(d, groups)
    n = len(d["y"])
    ws = [Fraction(1)] * n if d["w"] is None else [Fraction(w) for w in d["w"]]
    tw = sum(ws)
    if len(obs[1]) != len(d["models"]):
        return bad + [f"{len(obs[1])} model blocks for {len(d['models'])} models"]
    for mi, (tab, ex) in enumerate(zip(obs[1], exact)):
        if len(tab) != len(ex):
            bad.append(f"{len(tab)} output rows for {len(ex)} groups")
            continue
        mlab = "" if expected_labels(d) is None else f" [rows labelled model={expected_labels(d)[mi]!r}]"
        for r, (lab, st) in zip(tab, ex):
            label, mean, cnt, wts, se, p = r
            gl = f"{lab!r}{mlab}"
            if d["feat"] is not None and (lab is None) != (label is None):
                bad.append("null group misplaced")
            if d["feat"] is not None and rb.is_string_type(d["feat"]["ftype"]) and lab is not None and str(label) != lab:
                bad.append(f"row label {label!r} where group {lab!r} is expected (order)")
            if cnt != st["count"]:
                bad.append(f"bias_count {cnt} != {st['count']} rows of group {gl}")
            if not close(float(st["weights"]), wts):
                bad.append(f"bias_weights {wts} != {float(st['weights'])} of group {gl}")
            if not st["defined"]:
                continue
            if not close(float(st["mean"]), mean):
                bad.append(f"bias_mean {mean} != definition {float(st['mean'])} on group {gl}")
            if math.isnan(se) or not close(float(st["se2"]), se * se):
                bad.append(f"bias_stderr^2 {se * se} != definition {float(st['se2'])} on group {gl}")
            ep = expected_p(st["p"])
            if not (close(ep, p) or (st["p"][0] == "zero" and abs(p) < 1e-9)):
                bad.append(f"p_value {p} != 2*stdtr(count-1, -|t|) = {ep} on group {gl}")
            elif st["p"][0] not in ("nan", "zero") and 1e-300 < ep < 1e-9 and not (p > 0 and abs(p / ep - 1) < 1e-3):
                # highly significant groups: the p-value is a tail probability, accurate RELATIVELY (lower tail of the t distribution)
                bad.append(f"p_value {p} != 2*stdtr(count-1, -|t|) = {ep} on group {gl} (relative)")
        # conservation
        if sum(r[2] for r in tab) != n:
            bad.append(f"counts sum to {sum(r[2] for r in tab)} != {n} rows")
        if not close(float(tw), sum(r[3] for r in tab)):
            bad.append("weights do not sum to the total weight")
        vs = [exact_V(d["functional"], d["level"], y, z) for y, z in zip(d["y"], d["models"][mi])]
        if tw != 0 and all(not math.isnan(r[1]) for r in tab):
            overall = sum(w * v for v, w in zip(vs, ws)) / tw
            avg = sum(r[3] * r[1] for r in tab) / float(tw)
            if not close(float(overall), avg, 1e-8):
                bad.append(f"weight-averaged group biases {avg} != overall bias {float(overall)}")
        # null group
        if d["feat"] is not None:
            nnull = sum(1 for c in _null_mask(d["feat"]) if c)
            null_rows = [r for r in tab if r[0] is None]
            if nnull and (len(null_rows) != 1 or null_rows[0][2] != nnull):
                bad.append("null feature values do not keep their own group")
            if not nnull and null_rows:
                bad.append("null group without null feature values")
    if deep and not bad:
        # identical on repeated calls
        again = run_impl(d)
        if not _same(obs, again, exact_eq=True):
            bad.append("repeated call differs")
        # independent of row order
        rng = random.Random(len(d["y"]) * 7919 + 13)
        for _ in range(2):
            perm = list(range(n))
            rng.shuffle(perm)
            try:
                tabs, _ = df_tables(d, call_impl(d, perm))
                if tabs is None or not _same(obs, ("ok", tabs), exact_eq=False):
                    bad.append(f"result depends on row order (permutation {perm})")
                    break
            except Exception as e:  # noqa: BLE001
                bad.append(f"permuted rows raise {type(e).__name__}")
                break
    return sorted(set(bad))


def _null_mask(fd):
    if rb.is_string_type(fd["ftype"]):
        return [v is None for v in fd["values"]]
    return [c is None for c in rb.numeric_cells(fd)]


def _same(a, b, exact_eq):
    if a[0] != b[0]:
        return False
    if a[0] == "err":
        return a[1] == b[1]
    if len(a[1]) != len(b[1]):
        return False
    for ta, tb in zip(a[1], b[1]):
        if len(ta) != len(tb):
            return False
        for ra, rb_ in zip(ta, tb):
            la, lb = ra[0], rb_[0]
            if isinstance(la, float) and isinstance(lb, float):
                if not (close(la, lb) or la == lb):
                    return False
            elif la != lb:
                return False
            for x, y in zip(ra[1:], rb_[1:]):
                if exact_eq:
                    if not (x == y or (isinstance(x, float) and math.isnan(x) and math.isnan(y))):
                        return False
                elif not (close(float(x), float(y), 1e-7) or (abs(float(x)) < 1e-7 and abs(float(y)) < 1e-7)):
                    # p-values near a vanishing stderr are ill-conditioned; 1e-7 absolute
                    return False
    return True


# ------------------------------------------------------------------ generators
DYADIC_LEVELS = [0.125, 0.25, 0.5, 0.75, 0.875]
DECIMAL_LEVELS = [0.1, 0.3, 0.7, 0.9]


MODEL_NAMES = ["zeta", "alpha", "mid", "Beta", "m10", "m2", "model_b", "model", "x"]


def gen_case(rng, nmax, malformed=False):
    r = rng.random()
    if r < 0.12:
        fd = None
        n = rng.randrange(1, nmax + 1)
    else:
        fd = rb.gen_numeric(rng, nmax) if rng.random() < 0.6 else rb.gen_string(rng, nmax)
        n = len(fd["values"])
    style = rng.choice(["smallint", "smallint", "dyadic", "int", "binary"])

    def vals():
        if style == "smallint":
            return [float(rng.randrange(0, 4)) for _ in range(n)]
        if style == "dyadic":
            return [rng.randrange(-64, 65) / 8.0 for _ in range(n)]
        if style == "int":
            return [float(rng.randrange(-10, 11)) for _ in range(n)]
        return [float(rng.randrange(0, 2)) for _ in range(n)]
    y = vals()
    nm = rng.choice([1, 1, 1, 2, 3])
    if n <= 6 and rng.random() < 0.06:
        nm = rng.choice([11, 12])          # unnamed columns "10", "11" sort before "2"
    models = []
    for _ in range(nm):
        if rng.random() < 0.15:
            models.append(list(y))                       # perfect model: zero variance groups
        elif rng.random() < 0.15:
            c = float(rng.randrange(-2, 3))
            models.append([v + c for v in y])            # constant bias: stderr 0, p = 0
        else:
            models.append(vals())
    ws = rng.choice(["none", "none", "smallint", "dyadic"])
    w = None if ws == "none" else ([float(rng.randrange(1, 5)) for _ in range(n)] if ws == "smallint"
                                   else [rng.randrange(1, 33) / 8.0 for _ in range(n)])
    functional = rng.choice(["mean", "mean", "median", "expectile", "quantile"])
    level = rng.choice(DYADIC_LEVELS * 2 + DECIMAL_LEVELS)
    names = None
    if 2 <= nm <= 3 and rng.random() < 0.45:
        # y_pred as a polars DataFrame whose column names are NOT in ascending order
        names = rng.sample(MODEL_NAMES, nm)
        if names == sorted(names):
            names.reverse()
    d = dict(y=y, models=models, two_d=(nm > 1 or rng.random() < 0.2), names=names, w=w, functional=functional,
             level=level, feat=fd)
    if malformed:
        if rng.random() < 0.6 or fd is None:
            d["functional"] = rng.choice(["expectile", "quantile"])
            d["level"] = rng.choice([0.0, 1.0, -0.5, 1.5])
        else:
            fd["n_bins"] = rng.choice([0, 1])
    return d


FIXED = [
    dict(y=[0.0, 0.0, 1.0, 1.0], models=[[-1.0, 1.0, 1.0, 2.0]], two_d=False, w=None, functional="mean", level=0.5, feat=None),
    dict(y=[0.0, 0.0, 1.0, 1.0], models=[[-1.0, 1.0, 1.0, 2.0]], two_d=False, w=None, functional="mean", level=0.5,
         feat=dict(ftype="str", values=["a", "a", "b", "b"], n_bins=10, method="sturges")),
    dict(y=[0.0, 1.0, 2.0, 3.0, 4.0], models=[[1.0, 1.0, 1.0, 4.0, 4.0]], two_d=False, w=None, functional="mean", level=0.5,
         feat=dict(ftype="str", values=["a", "a", "other 3", "b", "c"], n_bins=2, method="quantile")),
    dict(y=[0.0, 1.0], models=[[1.0, 1.0]], two_d=False, w=None, functional="mean", level=0.5,
         feat=dict(ftype="float", values=["nan", None], n_bins=3, method="uniform")),
    dict(y=[0.0, 1.0, 2.0, 3.0], models=[[1.0, 1.0, 1.0, 4.0]], two_d=False, w=None, functional="median", level=0.5,
         feat=dict(ftype="enum", values=["a", "a", "b", "c"], enum_cats=["c", "b", "a"], n_bins=2, method="quantile")),
    dict(y=[0.0, 1.0, 2.0], models=[[1.0, 1.0, 1.0]], two_d=False, w=None, functional="mean", level=0.5,
         feat=dict(ftype="bool", values=[True, False, True], n_bins=10, method="sturges")),
]


FIXED += [
    dict(y=[0.0, 1.0, 2.0, 3.0], models=[[1.0, 1.0, 1.0, 1.0], [0.0, 1.0, 2.0, 3.0], [3.0, 3.0, 0.0, 0.0]], two_d=True,
         names=["zeta", "alpha", "mid"], w=None, functional="mean", level=0.5, feat=None),
    dict(y=[0.0, 1.0, 2.0, 3.0], models=[[1.0, 1.0, 1.0, 1.0], [0.0, 1.0, 2.0, 3.0], [3.0, 3.0, 0.0, 0.0]], two_d=True,
         names=["zeta", "alpha", "mid"], w=[1.0, 2.0, 1.0, 2.0], functional="median", level=0.5,
         feat=dict(ftype="str", values=["a", "b", "a", "b"], n_bins=3, method="quantile")),
    dict(y=[0.0, 1.0, 2.0], models=[[float(j), 1.0, float(12 - j)] for j in range(12)], two_d=True, names=None, w=None,
         functional="mean", level=0.5, feat=None),
]


def clause_class(cl):
    if cl.startswith("inf_only: "):
        return "inf_only: " + clause_class(cl[len("inf_only: "):])
    for key in ("model labels", "model blocks", "not accepted", "bias_count", "bias_weights", "bias_mean", "bias_stderr", "p_value", "counts sum",
                "weights do not", "weight-averaged", "null", "repeated", "row order", "NaN edges", "output rows", "label"):
        if key in cl:
            return key + (": " + cl.split(" raised ")[1].split(":")[0] + "/" + cl.split(" column")[0].split(": ")[1]
                          if key == "not accepted" else "")
    return cl


def minimise(d, fails):
    cur = d
    changed = True
    while changed and len(cur["y"]) > 1:
        changed = False
        for i in range(len(cur["y"])):
            c = json.loads(json.dumps(cur))
            c["y"] = cur["y"][:i] + cur["y"][i + 1:]
            c["models"] = [m[:i] + m[i + 1:] for m in cur["models"]]
            if cur["w"] is not None:
                c["w"] = cur["w"][:i] + cur["w"][i + 1:]
            if cur["feat"] is not None:
                c["feat"]["values"] = cur["feat"]["values"][:i] + cur["feat"]["values"][i + 1:]
            try:
                if fails(c):
                    cur, changed = c, True
                    break
            except Exception:  # noqa: BLE001
                pass
    if len(cur["models"]) > 1:
        for k in range(len(cur["models"])):
            c = json.loads(json.dumps(cur))
            c["models"] = [cur["models"][k]]
            if cur.get("names"):
                c["names"] = [cur["names"][k]]
            try:
                if fails(c):
                    cur = c
                    break
            except Exception:  # noqa: BLE001
                pass
    return cur


def tag(d, bad=()):
    if rb.inf_only(d["feat"]) and any(b.startswith("inf_only: ") for b in bad):
        d = json.loads(json.dumps(d))
        d["inf_only"] = True
        d["feat"]["inf_only"] = True
    return d


def report(found, d, bad, obs):
    d = tag(d, bad) if bad else d
    for cl in bad:
        k = clause_class(cl)
        if k not in found or len(d["y"]) < len(found[k]["case"]["y"]):
            found[k] = dict(case=d, clauses=bad, observed=obs if obs[0] != "ok" else ["ok", [t[:6] for t in obs[1]]])


def finalise(found):
    out, seen = [], set()
    for k, f in found.items():
        base = {x: v for x, v in f["case"].items() if x != "inf_only"}
        if base.get("feat"):
            base["feat"] = {x: v for x, v in base["feat"].items() if x != "inf_only"}
        m = minimise(base, lambda c: k in {clause_class(x) for x in judge_case(c, deep=True)})
        key = json.dumps(m, sort_keys=True)
        if key in seen:
            continue
        seen.add(key)
        o = run_impl(m)
        cl = judge_case(m, o)
        out.append(dict(case=tag(m, cl), clauses=cl, observed=o if o[0] != "ok" else ["ok", [t[:6] for t in o[1]]]))
    return out


def main():
    mode = sys.argv[1]
    if mode == "corr":
        outdir, prefix, seed, ncases, nmax = sys.argv[2], sys.argv[3], int(sys.argv[4]), int(sys.argv[5]), int(sys.argv[6])
        rng = random.Random(seed)
        dicts = [json.loads(json.dumps(x)) for x in FIXED]
        for _ in range(ncases):
            dicts.append(gen_case(rng, nmax, malformed=rng.random() < 0.03))
        cases, stats, samples, found = [], {}, [], {}
        for d in dicts:
            obs = run_impl(d)
            exact = None
            if obs[0] == "ok":
                try:
                    g = group_rows(d)
                    exact = "nan" if g == ("nan",) else exact_tables(d, g)
                except Exception:  # noqa: BLE001
                    exact = None
            cases.append(coq_case(d, obs, exact))
            key = "none" if d["feat"] is None else d["feat"]["ftype"]
            stats[key] = stats.get(key, 0) + 1
            stats["fn_" + d["functional"]] = stats.get("fn_" + d["functional"], 0) + 1
            stats["models_%d" % len(d["models"])] = stats.get("models_%d" % len(d["models"]), 0) + 1
            stats["weighted"] = stats.get("weighted", 0) + (d["w"] is not None)
            stats["named_models"] = stats.get("named_models", 0) + bool(d.get("names"))
            stats["errors"] = stats.get("errors", 0) + (obs[0] == "err")
            bad = judge_case(d, obs, deep=(len(cases) % 5 == 0))
            report(found, d, bad, obs)
            if len(samples) < 3 and len(d["y"]) >= 5 and obs[0] == "ok" and d["feat"] is not None:
                samples.append(dict(case=d, observed=[t[:4] for t in obs[1]]))
        os.makedirs(outdir, exist_ok=True)
        paths = []
        for k, sh in enumerate(shard(cases, 400)):
            p = os.path.join(outdir, f"{prefix}_{k}.v")
            body = "Definition cases : list bias_case := [\n  " + ";\n  ".join(sh) + "\n]."
            write_case_file(p, "From Coq Require Import String.\nFrom MD Require Import model.Binning model.Bias corr.Decode corr.CmpBias.",
                            body, "summary cases")
            paths.append(p)
        json.dump(dicts, open(os.path.join(outdir, prefix + "_cases.json"), "w"))
        stats["cases"] = len(cases)
        print(json.dumps(dict(paths=paths, shard_size=400, stats=stats, samples=samples,
                              property_failures=list(found.values()))))
    elif mode == "judge":
        ds = json.load(open(sys.argv[2]))
        found = {}
        for d in ds:
            obs = run_impl(d)
            bad = judge_case(d, obs)
            report(found, d, bad, obs)
        print(json.dumps(dict(failures=finalise(found))))
    elif mode == "search":
        seed, budget = int(sys.argv[2]), int(sys.argv[3])
        found, tried = {}, 0

        def consider(d):
            nonlocal tried
            tried += 1
            obs = run_impl(d)
            report(found, d, judge_case(d, obs), obs)

        # small exhaustive spaces: 3 rows, y/z in {0,1}, features over a small alphabet
        for vals in itertools.product([0.0, 1.0, "nan", "inf"], repeat=3):
            for z in itertools.product([0.0, 1.0], repeat=3):
                for m in ("quantile", "uniform", "sturges"):
                    for fn in ("mean", "median"):
                        if tried < budget // 3:
                            consider(dict(y=[0.0, 1.0, 1.0], models=[list(z)], two_d=False, w=None, functional=fn, level=0.5,
                                          feat=dict(ftype="float", values=list(vals), n_bins=2, method=m)))
        for vals in itertools.product(["a", "b", "other 2", None], repeat=4):
            for ft in ("str", "cat"):
                if tried < (2 * budget) // 3:
                    consider(dict(y=[0.0, 1.0, 1.0, 2.0], models=[[1.0, 1.0, 0.0, 0.0]], two_d=False, w=[1.0, 2.0, 1.0, 2.0],
                                  functional="mean", level=0.5, feat=dict(ftype=ft, values=list(vals), n_bins=2, method="quantile")))
        for names in itertools.permutations(["zeta", "alpha", "mid"]):
            for ft in (None, dict(ftype="str", values=["a", "b", "a"], n_bins=3, method="quantile")):
                consider(dict(y=[0.0, 1.0, 2.0], models=[[1.0, 1.0, 1.0], [0.0, 1.0, 2.0], [3.0, 0.0, 0.0]], two_d=True,
                              names=list(names), w=None, functional="mean", level=0.5, feat=ft))
        consider(dict(y=[0.0, 1.0], models=[[float(j), 1.0] for j in range(11)], two_d=True, names=None, w=None,
                      functional="mean", level=0.5, feat=None))
        # identification values with a large common offset and a small spread (dyadic, group sizes 4 / 8: every exact quantity
        # is a float), and highly significant groups (tiny p-values)
        big = 2.0 ** 28
        for ft in (None, dict(ftype="str", values=["a", "a", "a", "a", "b", "b", "b", "b"], n_bins=3, method="quantile")):
            consider(dict(y=[0.25, 0.75, 0.5, 1.0, 0.0, 0.25, 1.25, 0.5], models=[[big + v for v in (1.0, 0.25, 0.75, 0.5, 1.5, 0.25, 0.0, 1.25)]], two_d=False, w=None,
                          functional="mean", level=0.5, feat=ft))
            consider(dict(y=[0.0] * 8, models=[[10.0 + v for v in (0.25, -0.25, 0.5, -0.5, 0.125, -0.125, 0.0, 0.0)]], two_d=False, w=None,
                          functional="mean", level=0.5, feat=ft))
            consider(dict(y=[0.0] * 8, models=[[1000.0 + v for v in (0.25, -0.25, 0.5, -0.5, 0.125, -0.125, 0.0, 0.0)]], two_d=False, w=[1.0, 2.0, 1.0, 2.0, 1.0, 2.0, 1.0, 2.0],
                          functional="expectile", level=0.25, feat=ft))
        rng = random.Random(seed)
        while tried < budget:
            consider(gen_case(rng, 12))
        print(json.dumps(dict(tried=tried, failures=finalise(found))))
    else:
        raise SystemExit("mode?")


if __name__ == "__main__":
    main()
