"""Round trip of the world-R translation (tie (a) of DESIGN.md 2.2): the Python
closures printed from the translator's IR (build/gen_py/gen_closures.py, the same
IR that is printed as coq/gen/Gen_scoring.v and Gen_ident.v) against the real
score_per_obs / identification_function / __init__ / functional / __call__ on a
structured grid.  Also evaluates the statements of C04 / C08 / C14 / C15
directly on the implementation (judge), used when an obligation is broken.

  run_scores.py roundtrip <seed> <tier>
  run_scores.py judge <pid> <seed> <tier>
prints one JSON object on the last line."""
import itertools
import json
import math
import random
import sys
import warnings

import numpy as np

import gen_closures as G
import numpy_sem as S
from model_diagnostics.calibration import identification_function
from model_diagnostics.scoring import (ElementaryScore, GammaDeviance, HomogeneousExpectileScore,
                                       HomogeneousQuantileScore, LogLoss, PinballLoss, PoissonDeviance, SquaredError)

warnings.simplefilter("ignore")
np.seterr(all="ignore")

FN = {"mean": "Fmean", "median": "Fmedian", "expectile": "Fexpectile", "quantile": "Fquantile"}
TOL = 1e-10


def fname(s):
    return FN.get(s, "Fother")


def real(f):
    """('val', x) | ('V',) ValueError | ('N',) nan/inf | ('E', name) other exception"""
    try:
        v = f()
    except ValueError:
        return ("V",)
    except Exception as e:  # noqa: BLE001
        return ("E", type(e).__name__)
    v = float(np.asarray(v, dtype=float).reshape(-1)[0])
    if math.isnan(v) or math.isinf(v):
        return ("N",)
    return ("val", v)


def model(f):
    try:
        v = f()
    except S.ValueErr:
        return ("V",)
    except S.NotOk:
        return ("N",)
    except (OverflowError, ZeroDivisionError):
        return ("N",)
    if isinstance(v, str):
        return ("str", v)
    v = float(v)
    if math.isnan(v) or math.isinf(v):
        return ("N",)
    return ("val", v)


def same(a, b):
    if a[0] != b[0]:
        return False
    if a[0] == "val":
        return abs(a[1] - b[1]) <= TOL * (1 + abs(a[1]))
    return a == b


def grid(tier, rng):
    pts = [-3.0, -2.0, -1.0, -0.5, 0.0, 0.25, 0.5, 1.0, 1.5, 2.0, 3.0, 7.5]
    if tier == "thorough":
        # incl. tiny magnitudes and near-ties (absolute tolerances in the code would show up here)
        pts += [round(rng.uniform(-5, 5), 3) for _ in range(10)] + [1e-3, 1e3, 1e-13, 2e-13, 3.5e-13]
    else:
        pts += [round(rng.uniform(-5, 5), 3) for _ in range(3)]
    return pts


DEGREES = [-2.0, -1.0, -0.5, -0.3, 0.0, 0.25, 0.5, 1.0, 1.5, 2.0, 2.5, 3.0, 4.0, 5.0]
LEVELS = [0.1, 0.5, 0.8]
BADLEVELS = [-1.0, 0.0, 1.0, 1.1]


def roundtrip(seed, tier):
    rng = random.Random(seed)
    pts = grid(tier, rng)
    degs = DEGREES + ([round(rng.uniform(-3, 6), 2) for _ in range(6)] if tier == "thorough" else [round(rng.uniform(-3, 6), 2)])
    levels = LEVELS + [round(rng.uniform(0.01, 0.99), 3)]
    bad, n, dist = [], 0, {}

    def cmp(kind, args, r, m):
        nonlocal n
        n += 1
        key = f"{kind}:{r[0]}"
        dist[key] = dist.get(key, 0) + 1
        if not same(r, m):
            if len(bad) < 30:
                bad.append(dict(kind=kind, args=args, impl=r, model=m))

    pairs = list(itertools.product(pts, pts))
    for h in degs:
        for a in levels:
            sf = HomogeneousExpectileScore(degree=h, level=a)
            sq = HomogeneousQuantileScore(degree=h, level=a)
            for y, z in pairs:
                cmp("hes", [h, a, y, z], real(lambda: sf.score_per_obs([y], [z])), model(lambda: G.gen_hes_spo(h, a, y, z)))
                cmp("hqs", [h, a, y, z], real(lambda: sq.score_per_obs([y], [z])), model(lambda: G.gen_hqs_spo(h, a, y, z)))
            cmp("hes_functional", [h, a], ("str", fname(sf.functional)), model(lambda: G.gen_hes_functional(h, a)))
            cmp("hqs_functional", [h, a], ("str", fname(sq.functional)), model(lambda: G.gen_hqs_functional(h, a)))
    # constructors
    for a in levels + BADLEVELS:
        cmp("hes_init", [2.0, a], real(lambda: (HomogeneousExpectileScore(degree=2.0, level=a), 0.0)[1]), model(lambda: G.gen_hes_init(2.0, a)))
        cmp("hqs_init", [2.0, a], real(lambda: (HomogeneousQuantileScore(degree=2.0, level=a), 0.0)[1]), model(lambda: G.gen_hqs_init(2.0, a)))
        cmp("elem_init", [0.0, a], real(lambda: (ElementaryScore(eta=0.0, functional="quantile", level=a), 0.0)[1]),
            model(lambda: G.gen_elem_init(0.0, "Fquantile", a)))
        cmp("pinball_init", [a], real(lambda: (PinballLoss(level=a), 0.0)[1]), model(lambda: G.gen_hqs_init(1.0, a)))
    # named classes
    for y, z in pairs:
        cmp("SquaredError", [y, z], real(lambda: SquaredError().score_per_obs([y], [z])), model(lambda: G.gen_SquaredError_spo(y, z)))
        cmp("PoissonDeviance", [y, z], real(lambda: PoissonDeviance().score_per_obs([y], [z])), model(lambda: G.gen_PoissonDeviance_spo(y, z)))
        cmp("GammaDeviance", [y, z], real(lambda: GammaDeviance().score_per_obs([y], [z])), model(lambda: G.gen_GammaDeviance_spo(y, z)))
        for a in levels:
            cmp("PinballLoss", [a, y, z], real(lambda: PinballLoss(level=a).score_per_obs([y], [z])), model(lambda: G.gen_PinballLoss_spo(a, y, z)))
    # log loss: single observations (the np.any flag is then the observation's own flag) and
    # pairs of observations (the flag of the sample is the disjunction)
    ys = [0.0, 0.25, 0.5, 1.0, 0.75]
    zs = [0.1, 0.25, 0.5, 0.9, 0.999]
    for y, z in itertools.product(ys, zs):
        cmp("logloss", [y, z], real(lambda: LogLoss().score_per_obs([y], [z])), model(lambda: G.gen_logloss_spo(y, z, G.gen_logloss_spo_any1(y, z))))
        for y2, z2 in itertools.product(ys[:3], zs[:2]):
            flag = G.gen_logloss_spo_any1(y, z) or G.gen_logloss_spo_any1(y2, z2)
            cmp("logloss2", [y, z, y2, z2], real(lambda: LogLoss().score_per_obs([y, y2], [z, z2])[0]), model(lambda: G.gen_logloss_spo(y, z, flag)))
    # identification function and elementary score
    fns = ["mean", "median", "expectile", "quantile", "XXX", "Mean"]
    for f in fns:
        for a in levels + BADLEVELS:
            for y, z in pairs:
                cmp("V", [f, a, y, z], real(lambda: identification_function([y], [z], functional=f, level=a)), model(lambda: G.gen_V(fname(f), a, y, z)))
    etas = [-1.0, 0.0, 0.5, 1.0, 2.0]
    for f in fns[:5]:
        for a in levels:
            for eta in etas:
                try:
                    es = ElementaryScore(eta=eta, functional=f, level=a)
                except Exception:  # noqa: BLE001
                    continue
                for y, z in pairs:
                    cmp("elem", [eta, f, a, y, z], real(lambda: es.score_per_obs([y], [z])), model(lambda: G.gen_elem_spo(eta, fname(f), a, y, z)))
    # __call__ is the weighted average of score_per_obs
    call_bad = []
    for _ in range(60 if tier == "quick" else 400):
        k = rng.randint(1, 6)
        y = [rng.choice([0.5, 1.0, 2.0, 3.0]) for _ in range(k)]
        z = [rng.choice([0.5, 1.0, 2.0, 4.0]) for _ in range(k)]
        w = [rng.choice([0.5, 1.0, 2.0, 3.0]) for _ in range(k)]
        sf = rng.choice([SquaredError(), PoissonDeviance(), GammaDeviance(), PinballLoss(level=0.3), HomogeneousExpectileScore(1.5, 0.2),
                         HomogeneousQuantileScore(3, 0.7), ElementaryScore(1.0, "mean"), LogLoss()])
        if isinstance(sf, LogLoss):
            y = [min(v / 4, 1.0) for v in y]
            z = [min(v / 5, 0.9) for v in z]
        spo = np.asarray(sf.score_per_obs(y, z), dtype=float)
        for ww in (None, w):
            n += 1
            want = float(np.sum(spo * (np.asarray(ww) if ww else 1.0)) / (np.sum(ww) if ww else k))
            got = float(sf(y, z, weights=ww) if ww else sf(y, z))
            if abs(want - got) > 1e-12 * (1 + abs(want)):
                call_bad.append(dict(kind="call", y=y, z=z, w=ww, impl=got, model=want, cls=type(sf).__name__))
    dist["call"] = dist.get("call", 0) + 1
    return dict(n=n, bad=bad + call_bad[:10], distribution=dist, degrees=degs, levels=levels, points=pts)


# ------------------------------------------------------------------------ judges
def judge(pid, seed, tier):
    """Evaluate the property statement itself on the implementation (exact
    statement, float tolerance 1e-9); returns failing inputs."""
    rng = random.Random(seed)
    pts = grid(tier, rng)
    fails = []
    tried = 0

    def add(call, args, observed, required):
        if len(fails) < 10:
            fails.append(dict(case=dict(call=call, args=args), observed=observed, clauses=[required]))

    def hes_in(h, y, z):
        if h >= 2 or h > 1:
            return True
        if 0 < h <= 1:
            return y >= 0 and z > 0
        return y > 0 and z > 0

    def hqs_in(h, y, z):
        if h == 1 or (h > 1 and h % 2 == 1):
            return True
        return y > 0 and z > 0

    degs = DEGREES + [round(rng.uniform(-3, 6), 2) for _ in range(4)]
    levels = LEVELS + [0.3]
    if pid in ("C04", "C14"):
        for cls, dom, nm in ((HomogeneousExpectileScore, hes_in, "HomogeneousExpectileScore"), (HomogeneousQuantileScore, hqs_in, "HomogeneousQuantileScore")):
            for h in degs:
                for a in levels:
                    sf = cls(degree=h, level=a)
                    for y, z in itertools.product(pts, pts):
                        tried += 1
                        r = real(lambda: sf.score_per_obs([y], [z]))
                        if not dom(h, y, z):
                            if pid == "C04" and r[0] != "V":
                                add(nm + ".score_per_obs", [h, a, y, z], r, "pair outside the documented domain must raise ValueError")
                            continue
                        if r[0] != "val":
                            add(nm + ".score_per_obs", [h, a, y, z], r, "in-domain pair must give a finite number")
                            continue
                        if pid == "C04":
                            # tolerance relative to the natural magnitude max(|y|,|z|)^h of a degree-h homogeneous score
                            mag = max(abs(y), abs(z))
                            scale = min(1.0, mag ** h) if mag > 0 and h > 0 else 1.0
                            if r[1] < -1e-12 * scale:
                                add(nm + ".score_per_obs", [h, a, y, z], r, "score >= 0")
                            if y == z and abs(r[1]) > 1e-12:
                                add(nm + ".score_per_obs", [h, a, y, z], r, "score = 0 at y = z")
                            for z2 in pts:
                                if (y <= z <= z2 or z2 <= z <= y) and dom(h, y, z2):
                                    r2 = real(lambda: sf.score_per_obs([y], [z2]))
                                    if r2[0] == "val" and r2[1] < r[1] - 1e-9 * (1 + abs(r[1])):
                                        add(nm + ".score_per_obs", [h, a, y, z, z2], [r, r2], "order sensitivity: S(y,z) <= S(y,z2)")
                        else:
                            for c in ((0.5, 2.0, 3.0) if tier == "quick" else (0.5, 2.0, 3.0, 1e13, 1e-13)):
                                if not dom(h, c * y, c * z):
                                    continue
                                r2 = real(lambda: sf.score_per_obs([c * y], [c * z]))
                                try:
                                    want = c ** h * r[1]
                                    mag = (c * max(abs(y), abs(z))) ** h if max(abs(y), abs(z)) > 0 else 1.0
                                except OverflowError:
                                    continue
                                if not (abs(want) < 1e280 and mag < 1e280):
                                    continue
                                if r2[0] != "val" or abs(r2[1] - want) > 1e-7 * abs(want) + 1e-9 * min(mag, 1 + abs(want)):
                                    add(nm + ".score_per_obs", [h, a, y, z, c], [r, r2], "S(cy,cz) = c^h S(y,z)")
        if pid in ("C14", "C04"):
            # integer-typed observations with float predictions give the values of the same numbers as floats
            yi = np.array([1, 2, 3, 5, 2], dtype=np.int64)
            zf = np.array([1.5, 2.0, 2.5, 7.25, 0.5])
            for cls, nm in ((HomogeneousExpectileScore, "HomogeneousExpectileScore"), (HomogeneousQuantileScore, "HomogeneousQuantileScore")):
                for h in degs:
                    for a in levels:
                        tried += 1
                        sf = cls(degree=h, level=a)
                        ri = np.asarray(sf.score_per_obs(yi, zf), dtype=float)
                        rf = np.asarray(sf.score_per_obs(yi.astype(float), zf), dtype=float)
                        if not np.allclose(ri, rf, rtol=1e-12, atol=1e-12, equal_nan=True):
                            add(nm + ".score_per_obs", dict(degree=h, level=a, y_int64=yi.tolist(), z=zf.tolist()), [ri.tolist(), rf.tolist()],
                                "integer-typed observations give the same scores as the same numbers as floats")
        if pid == "C14":
            # the closed forms at degrees 0 and 1 are the limits of the general formula
            for y, z in itertools.product([0.5, 1.0, 2.0, 3.5], [0.5, 1.0, 2.0, 3.5]):
                for a in levels:
                    for cls, nm, h0s in ((HomogeneousExpectileScore, "HomogeneousExpectileScore", (0.0, 1.0)), (HomogeneousQuantileScore, "HomogeneousQuantileScore", (0.0,))):
                        for h0 in h0s:
                            tried += 1
                            r0 = real(lambda: cls(degree=h0, level=a).score_per_obs([y], [z]))
                            rp = real(lambda: cls(degree=h0 + 1e-6, level=a).score_per_obs([y], [z]))
                            rm = real(lambda: cls(degree=h0 - 1e-6, level=a).score_per_obs([y], [z]))
                            if r0[0] == "val" and rp[0] == "val" and rm[0] == "val":
                                lim = 0.5 * (rp[1] + rm[1])
                                if abs(lim - r0[1]) > 1e-4 * (1 + abs(r0[1])):
                                    add(nm + ".score_per_obs", [h0, a, y, z], [r0, rm, rp], f"the closed form at degree {h0} is the limit of the general formula")
            for y, z in itertools.product(pts, pts):
                for nmd, sf, ref in (("SquaredError", SquaredError(), HomogeneousExpectileScore(2, 0.5)), ("PoissonDeviance", PoissonDeviance(), HomogeneousExpectileScore(1, 0.5)),
                                     ("GammaDeviance", GammaDeviance(), HomogeneousExpectileScore(0, 0.5)), ("PinballLoss", PinballLoss(0.3), HomogeneousQuantileScore(1, 0.3))):
                    tried += 1
                    r, r2 = real(lambda: sf.score_per_obs([y], [z])), real(lambda: ref.score_per_obs([y], [z]))
                    if not same(r, r2):
                        add(nmd, [y, z], [r, r2], "named class equals the family member")
        if pid == "C04":
            # vectors: the call raises iff SOME observation is outside the domain (lifting theorem C04_array_err)
            for cls, dom, nm in ((HomogeneousExpectileScore, hes_in, "HomogeneousExpectileScore"), (HomogeneousQuantileScore, hqs_in, "HomogeneousQuantileScore")):
                for h in degs:
                    sf = cls(degree=h, level=0.3)
                    good = [(y, z) for y, z in itertools.product(pts, pts) if dom(h, y, z)]
                    badp = [(y, z) for y, z in itertools.product(pts, pts) if not dom(h, y, z)]
                    if not good or not badp:
                        continue
                    for _ in range(6):
                        g1, g2, b = rng.choice(good), rng.choice(good), rng.choice(badp)
                        for arr in ([g1, b], [b, g1], [g1, b, g2], [b, b, g1]):
                            tried += 1
                            r = real(lambda: sf.score_per_obs([p[0] for p in arr], [p[1] for p in arr]))
                            if r[0] != "V":
                                add(nm + ".score_per_obs", dict(degree=h, level=0.3, y=[p[0] for p in arr], z=[p[1] for p in arr]), r,
                                    "a vector containing a pair outside the documented domain must raise ValueError")
            for y, z in itertools.product([0.0, 0.2, 0.5, 1.0], [0.01, 0.2, 0.5, 0.99]):
                tried += 1
                r = real(lambda: LogLoss().score_per_obs([y], [z]))
                if r[0] != "val" or r[1] < -1e-12 or (y == z and abs(r[1]) > 1e-12):
                    add("LogLoss.score_per_obs", [y, z], r, "finite, >= 0, 0 at y = z")
    if pid == "C05":
        from fractions import Fraction as Fr

        def expectile(ys, ws, a):
            a = Fr(a)
            cands = sorted(set(ys))
            for t0 in cands:
                up = [(y, w) for y, w in zip(ys, ws) if y > t0]
                lo = [(y, w) for y, w in zip(ys, ws) if y <= t0]
                num = a * sum(Fr(w) * Fr(y) for y, w in up) + (1 - a) * sum(Fr(w) * Fr(y) for y, w in lo)
                den = a * sum(Fr(w) for y, w in up) + (1 - a) * sum(Fr(w) for y, w in lo)
                t = num / den
                nxt = min([c for c in cands if c > t0], default=None)
                if t >= t0 and (nxt is None or t <= nxt):
                    return t
            raise AssertionError("no expectile")

        def tot(sf, y, c, w):
            return real(lambda: sf(y, np.full(len(y), c, dtype=type(c) if isinstance(c, int) else float), weights=w))

        ncase = 150 if tier == "quick" else 1500
        for _ in range(ncase):
            k = rng.randint(1, 7)
            intdata = rng.random() < 0.4
            pos = rng.random() < 0.6
            ys = [rng.randint(1 if pos else -4, 6) if intdata else rng.choice([0.5, 1.0, 1.5, 2.0, 3.25, -1.0 if not pos else 4.0, -2.5 if not pos else 0.25]) for _ in range(k)]
            ws = [rng.choice([0.25, 0.5, 1.0, 1.25, 2.0, 2.75, 3.0]) for _ in range(k)]
            cs = [-3, -1, 0, 1, 2, 3, 4, 5, -2.5, -0.5, 0.5, 1.5, 2.5, 3.5, 7.0]
            if rng.random() < 0.25:
                # large common offset, small spread
                ys = [v + 1e6 for v in ys]
                cs = [c + 1e6 for c in cs]
                pos = True
            zi = False
            if not (ys and ys[0] > 1e5) and rng.random() < 0.3:
                # zero-inflated non-negative sample (counts): the edge y = 0 of the domain of the degrees in [1, 2)
                ys = [type(v)(0) if rng.random() < 0.5 else abs(v) for v in ys]
                zi = True
            yarr = np.asarray(ys, dtype=np.int64 if intdata else float)
            kind = rng.choice(["mean", "expectile", "quantile"])
            if zi and kind == "quantile":
                kind = "mean"
            if kind == "mean":
                h = rng.choice([2.0, 2.0, 1.0, 0.0, 1.5, 3.0, -1.0, 4.0, 2.5])
                if zi:
                    h = rng.choice([1.0, 1.0, 1.5])
                sf, a = HomogeneousExpectileScore(degree=h, level=0.5), 0.5
                if h == 2.0 and rng.random() < 0.5:
                    sf = SquaredError()
                t = [float(sum(Fr(w) * Fr(y) for y, w in zip(ys, ws)) / sum(Fr(w) for w in ws))]
                dom = (lambda c: hes_in(h, 1.0, c))
            elif kind == "expectile":
                h = rng.choice([2.0, 1.0, 0.0, 1.5, 3.0, 2.5])
                if zi:
                    h = rng.choice([1.0, 1.0, 1.5])
                a = rng.choice([0.1, 0.3, 0.8])
                sf = HomogeneousExpectileScore(degree=h, level=a)
                t = [float(expectile(ys, ws, a))]
                dom = (lambda c: hes_in(h, 1.0, c))
            else:
                h = rng.choice([1.0, 1.0, 3.0, 0.0, 2.0, -1.0, 5.0])
                a = rng.choice([0.1, 0.25, 0.5, 0.75])
                sf = HomogeneousQuantileScore(degree=h, level=a) if rng.random() < 0.7 or h != 1.0 else PinballLoss(level=a)
                # every t with  sum w 1{y<t} <= a W <= sum w 1{y<=t}
                W = sum(Fr(w) for w in ws)
                srt = sorted(set(ys))
                t = [float(v) for v in srt if sum(Fr(w) for y, w in zip(ys, ws) if y < v) <= Fr(a) * W <= sum(Fr(w) for y, w in zip(ys, ws) if y <= v)]
                if len(t) == 2:
                    t.append((t[0] + t[1]) / 2)
                dom = (lambda c: hqs_in(h, 1.0, c))
            if not all((hes_in if kind != "quantile" else hqs_in)(h, float(y), 1.0) for y in ys):
                continue
            for tt in t:
                if not dom(tt):
                    continue
                rt = tot(sf, yarr, tt, ws)
                if rt[0] != "val":
                    continue
                for c in cs:
                    if not dom(float(c)):
                        continue
                    tried += 1
                    rc = tot(sf, yarr, c, ws)
                    # cancellation noise of a Bregman-type score evaluated on large numbers: ~ eps * max|.|^max(h,1)
                    noise = 64 * 2.3e-16 * max(1.0, max(abs(v) for v in ys), abs(float(c))) ** max(float(h), 1.0)
                    if rc[0] == "val" and rc[1] < rt[1] - 1e-9 * (1 + abs(rt[1])) - noise:
                        add(type(sf).__name__ + ".__call__", dict(degree=h, level=a, y=ys, w=ws, functional_value=tt, other_constant=c, int_dtype=intdata),
                            [rt, rc], "average score at the sample's own functional <= average score at any other admissible constant")
    if pid == "C08":
        for f in ("mean", "median", "expectile", "quantile"):
            for a in levels + [0.5 + 2.0 ** -18, 0.5 - 1e-7, 0.5 + 1e-9]:
                for y in pts:
                    prev = None
                    for z in sorted(pts):
                        tried += 1
                        r = real(lambda: identification_function([y], [z], functional=f, level=a))
                        if r[0] != "val":
                            add("identification_function", [f, a, y, z], r, "defined for every pair")
                            continue
                        if prev is not None and r[1] < prev - 1e-12:
                            add("identification_function", [f, a, y, z], [prev, r], "non-decreasing in the prediction")
                        prev = r[1]
                        want = {"mean": z - y, "median": (1.0 if z >= y else 0.0) - 0.5, "quantile": (1.0 if z >= y else 0.0) - a,
                                "expectile": 2 * abs((1.0 if z >= y else 0.0) - a) * (z - y)}[f]
                        if abs(r[1] - want) > 1e-12 * (1 + abs(want)):
                            add("identification_function", [f, a, y, z], r, f"closed form {want}")
    if pid == "C08":
        # long vectors (lengths around powers of two, where chunked / blocked evaluation would split): element-wise closed form
        # and the sample average  share of observations <= prediction  -  level
        for n in (2 ** 15 + 1, 2 ** 16 + 1, 2 ** 15, 100003):
            yl = (np.arange(n) * 7919 % 1009).astype(float) / 8.0
            zl = np.full(n, 60.0)
            zl[-1], zl[0], zl[n // 2] = 200.0, -1.0, yl[n // 2]
            for f, a in (("mean", 0.5), ("median", 0.5), ("quantile", 0.3), ("expectile", 0.8)):
                tried += 1
                r = real(lambda: np.asarray(identification_function(yl, zl, functional=f, level=a), dtype=float))
                ind = (zl >= yl).astype(float)
                want = {"mean": zl - yl, "median": ind - 0.5, "quantile": ind - a, "expectile": 2 * np.abs(ind - a) * (zl - yl)}[f]
                if r[0] != "val":
                    add("identification_function", dict(functional=f, level=a, n=n), r[:2], "defined for every pair (long vector)")
                    continue
                got = np.asarray(identification_function(yl, zl, functional=f, level=a), dtype=float)
                if got.shape != want.shape or not np.allclose(got, want, rtol=1e-12, atol=0):
                    k = int(np.argmax(~np.isclose(got, want, rtol=1e-12, atol=0))) if got.shape == want.shape else None
                    add("identification_function", dict(functional=f, level=a, n=n, y="(arange(n) * 7919 % 1009) / 8", z="60 everywhere, z[0] = -1, z[n//2] = y[n//2], z[-1] = 200",
                                                        first_bad_index=k), [None if k is None else float(got[k]), None if k is None else float(want[k])],
                        "closed form element by element on a long vector (the sample average is share(y <= z) - level)")
    if pid == "C15":
        for f in ("mean", "median", "expectile", "quantile"):
            for a in levels:
                for eta in pts:
                    es = ElementaryScore(eta=eta, functional=f, level=a)
                    for y, z in itertools.product(pts, pts):
                        tried += 1
                        r = real(lambda: es.score_per_obs([y], [z]))
                        if r[0] != "val" or r[1] < -1e-12:
                            add("ElementaryScore.score_per_obs", [eta, f, a, y, z], r, "elementary score >= 0")
                        if y == z and r[0] == "val" and abs(r[1]) > 1e-12:
                            add("ElementaryScore.score_per_obs", [eta, f, a, y, z], r, "elementary score = 0 at y = z")
        # integral over eta: the integrand is linear in eta strictly between y and z and 0 outside,
        # so (value at the midpoint) * |z - y| is the exact integral
        for f in ("mean", "median", "expectile", "quantile"):
            for a in levels:
                for y, z in itertools.product(pts, pts):
                    if y == z:
                        continue
                    tried += 1
                    mid = (y + z) / 2
                    r = real(lambda: ElementaryScore(eta=mid, functional=f, level=a).score_per_obs([y], [z]))
                    want = {"mean": 0.5 * (y - z) ** 2, "median": 0.5 * abs(z - y), "quantile": ((1.0 if z >= y else 0.0) - a) * (z - y),
                            "expectile": abs((1.0 if z >= y else 0.0) - a) * (y - z) ** 2}[f]
                    if r[0] != "val" or abs(r[1] * abs(z - y) - want) > 1e-9 * (1 + abs(want)):
                        add("ElementaryScore.score_per_obs", [mid, f, a, y, z], r, f"integral over eta equals {want}")
        # consistency, with eta on data values
        from fractions import Fraction as Fr
        for _ in range(120 if tier == "quick" else 1200):
            k = rng.randint(1, 6)
            ys = [float(rng.randint(0, 4)) for _ in range(k)]
            ws = [rng.choice([0.5, 1.0, 2.0, 3.0]) for _ in range(k)]
            f = rng.choice(["mean", "quantile", "median", "expectile"])
            a = 0.5 if f == "median" else rng.choice([0.25, 0.5, 0.75, 0.3])
            W = sum(Fr(w) for w in ws)
            if f == "mean":
                ts = [float(sum(Fr(w) * Fr(y) for y, w in zip(ys, ws)) / W)]
            elif f == "expectile":
                A = Fr(a)
                ts = []
                for t0 in sorted(set(ys)):
                    up = [(y, w) for y, w in zip(ys, ws) if y > t0]
                    lo = [(y, w) for y, w in zip(ys, ws) if y <= t0]
                    t = (A * sum(Fr(w) * Fr(y) for y, w in up) + (1 - A) * sum(Fr(w) * Fr(y) for y, w in lo)) / (A * sum(Fr(w) for _, w in up) + (1 - A) * sum(Fr(w) for _, w in lo))
                    nxt = min([c for c in set(ys) if c > t0], default=None)
                    if t >= t0 and (nxt is None or t <= nxt):
                        ts = [float(t)]
                        break
            else:
                ts = [float(v) for v in sorted(set(ys)) if sum(Fr(w) for y, w in zip(ys, ws) if y < v) <= Fr(a) * W <= sum(Fr(w) for y, w in zip(ys, ws) if y <= v)]
            for eta in sorted(set(ys)) + [0.5, 2.5]:
                es = ElementaryScore(eta=eta, functional=f, level=a)
                for t in ts:
                    rt = real(lambda: es(ys, [t] * k, weights=ws))
                    for c in [0.0, 1.0, 2.0, 3.0, 4.0, 0.5, 1.5, 2.5, 3.5, -1.0, 5.0]:
                        tried += 1
                        rc = real(lambda: es(ys, [c] * k, weights=ws))
                        if rt[0] == "val" and rc[0] == "val" and rc[1] < rt[1] - 1e-9:
                            add("ElementaryScore.__call__", dict(eta=eta, functional=f, level=a, y=ys, w=ws, functional_value=t, other_constant=c), [rt, rc],
                                "average elementary score is minimised by the sample's functional (also when eta is an observation)")
    # ---- glue: arrays of different length must be rejected, also when one of them has length 1 (no broadcasting)
    if pid in ("C04", "C05", "C08", "C14", "C15"):
        for ya, za in (([1.0], [1.0, 2.0, 3.0]), ([1.0, 2.0, 3.0], [2.0]), ([1.0, 2.0], [1.0, 2.0, 3.0])):
            tried += 1
            if pid == "C08":
                r = real(lambda: identification_function(ya, za, functional="mean"))
                nm = "identification_function"
            elif pid == "C15":
                r = real(lambda: ElementaryScore(1.5, "mean").score_per_obs(ya, za))
                nm = "ElementaryScore.score_per_obs"
            else:
                r = real(lambda: SquaredError().score_per_obs(ya, za))
                nm = "SquaredError.score_per_obs"
            if r[0] != "V":
                add(nm, dict(y=ya, z=za), r, "observation and prediction vectors of different length must raise ValueError")
    # ---- glue: mixed integer / float dtypes must give the values of the same numbers as float64
    if pid in ("C04", "C05", "C08", "C14", "C15"):
        combos = [(np.array([1.5, 2.25, 0.5, 3.75]), np.array([1, 2, 3, 2], dtype=np.int64)),          # float observations, integer predictions
                  (np.array([1, 2, 2, 6], dtype=np.int64), np.array([2.75, 1.5, 2.5, 3.25], dtype=np.float32)),   # integer observations, float32 predictions
                  (np.array([1, 2, 2, 6], dtype=np.int32), np.array([2.75, 1.5, 2.5, 3.25], dtype=np.float32)),
                  (np.array([2, 2, 1, 3], dtype=np.int64), np.array([2, 1, 3, 3], dtype=np.int64)),           # all integers (ties included)
                  # unsigned integers (count data; polars count columns are UInt32): differences must not wrap around
                  (np.array([3, 1, 2, 6], dtype=np.uint8), np.array([1, 2, 2, 4], dtype=np.uint8)),
                  (np.array([3, 1, 2, 6], dtype=np.uint32), np.array([1.5, 2.0, 2.5, 7.0])),
                  (np.array([3.0, 1.0, 2.5, 6.0]), np.array([1, 2, 2, 4], dtype=np.uint16)),
                  # signed integers narrower than 64 bit with values whose squared differences do not fit
                  (np.array([100000, 5, 70000, 3], dtype=np.int32), np.array([1, 7, 3, 60000], dtype=np.int32)),
                  (np.array([100, 5, 90, 3], dtype=np.int8), np.array([1, 7, 3, 120], dtype=np.int8)),
                  (np.array([30000, 5, 200, 3], dtype=np.int16), np.array([1.5, 7.0, 3.25, 150.0]))]
        if pid == "C08":
            fns = [(f"identification_function[{f}]", (lambda y, z, f=f: identification_function(y, z, functional=f, level=0.3))) for f in ("mean", "median", "expectile", "quantile")]
        elif pid == "C15":
            fns = [(f"ElementaryScore[{f}]", (lambda y, z, f=f: ElementaryScore(2, f, 0.3).score_per_obs(y, z))) for f in ("mean", "median", "quantile", "expectile")]
        else:
            fns = [("SquaredError", lambda y, z: SquaredError().score_per_obs(y, z)), ("PinballLoss(0.3)", lambda y, z: PinballLoss(0.3).score_per_obs(y, z)),
                   ("PoissonDeviance", lambda y, z: PoissonDeviance().score_per_obs(y, z)), ("HES(2,0.2)", lambda y, z: HomogeneousExpectileScore(2, 0.2).score_per_obs(y, z))]
        for nm, fn in fns:
            for ya, za in combos:
                tried += 1
                want = np.asarray(fn(ya.astype(np.float64), za.astype(np.float64)), dtype=float)
                got = real(lambda: 0.0)
                try:
                    gotv = np.asarray(fn(ya, za), dtype=float)
                except Exception as e:  # noqa: BLE001
                    add(nm, dict(y=ya.tolist(), y_dtype=str(ya.dtype), z=za.tolist(), z_dtype=str(za.dtype)), type(e).__name__, "mixed integer / float input is accepted like float64 input")
                    continue
                if not np.allclose(gotv, want, rtol=1e-6, atol=1e-9):
                    add(nm, dict(y=ya.tolist(), y_dtype=str(ya.dtype), z=za.tolist(), z_dtype=str(za.dtype)), [gotv.tolist(), want.tolist()],
                        "mixed integer / float dtypes give the values of the same numbers as float64")
    # ---- glue: a scorer object reused after its input array was modified in place must not remember old values
    if pid == "C15":
        for f in ("mean", "quantile", "expectile"):
            tried += 1
            sfr = ElementaryScore(1.0, f, 0.3)
            yb = np.array([0.0, 2.0, 1.0, 3.0])
            zb = np.array([1.5, 0.5, 2.5, 0.0])
            sfr.score_per_obs(yb, zb)
            yb[:] = [3.0, 0.5, 2.0, 0.0]
            r_reuse = np.asarray(sfr.score_per_obs(yb, zb), dtype=float)
            r_fresh = np.asarray(ElementaryScore(1.0, f, 0.3).score_per_obs(yb.copy(), zb.copy()), dtype=float)
            sfr.eta = 2.0
            r_eta = np.asarray(sfr.score_per_obs(yb, zb), dtype=float)
            r_eta_fresh = np.asarray(ElementaryScore(2.0, f, 0.3).score_per_obs(yb.copy(), zb.copy()), dtype=float)
            if not np.array_equal(r_reuse, r_fresh) or not np.array_equal(r_eta, r_eta_fresh):
                add(f"ElementaryScore[{f}]", dict(y=yb.tolist(), z=zb.tolist()), [r_reuse.tolist(), r_fresh.tolist(), r_eta.tolist(), r_eta_fresh.tolist()],
                    "a reused scorer gives the same values as a fresh one (after y_obs was modified in place / eta was reassigned)")
    if pid in ("C05", "C15"):
        # an ElementaryScore reads functional / level at call time: a scorer built at level 1/2 (where "quantile" coincides with
        # "median" and "expectile" with "mean") and re-parameterised afterwards scores like a fresh one
        yb = np.array([0.0, 2.0, 1.0, 3.0, 1.0])
        zb = np.array([1.5, 0.5, 2.5, 0.0, 1.0])
        for f in ("quantile", "expectile", "median", "mean"):
            for eta in (1.0, 0.75):
                tried += 1
                sfr = ElementaryScore(eta, f, 0.5)
                sfr.score_per_obs(yb, zb)
                sfr.level = 0.9
                got = real(lambda: np.asarray(sfr.score_per_obs(yb, zb), dtype=float).tolist())
                fresh = real(lambda: np.asarray(ElementaryScore(eta, f, 0.9).score_per_obs(yb, zb), dtype=float).tolist())
                if got != fresh:
                    add(f"ElementaryScore[{f}]", dict(eta=eta, built_with_level=0.5, level_reassigned=0.9, y=yb.tolist(), z=zb.tolist()), [got, fresh],
                        "a scorer whose public attribute level was reassigned scores like a fresh scorer with that level (built at level 1/2)")
    # ---- glue around the translated core (np.asarray / validate_2_arrays): mixed float precision and purity
    if pid in ("C04", "C05", "C08", "C14", "C15"):
        y32 = np.array([1.0000001, 2.5, -0.75, 3.0000002], dtype=np.float32)
        zs = [np.array([float(v) - 1e-9 for v in y32]), np.array([float(v) + 1e-9 for v in y32]), np.array([float(v) for v in y32])]
        calls = []
        if pid == "C08":
            for f in ("mean", "median", "expectile", "quantile"):
                calls.append((f"identification_function[{f}]", lambda y, z, f=f: identification_function(y, z, functional=f, level=0.3)))
        elif pid == "C15":
            for f in ("mean", "quantile", "expectile"):
                calls.append((f"ElementaryScore[{f}]", lambda y, z, f=f: ElementaryScore(2.5, f, 0.3).score_per_obs(y, z)))
        else:
            calls.append(("SquaredError", lambda y, z: SquaredError().score_per_obs(y, z)))
            calls.append(("PinballLoss(0.3)", lambda y, z: PinballLoss(0.3).score_per_obs(y, z)))
            calls.append(("HES(3,0.2)", lambda y, z: HomogeneousExpectileScore(3, 0.2).score_per_obs(y, z)))
            calls.append(("HQS(3,0.7)", lambda y, z: HomogeneousQuantileScore(3, 0.7).score_per_obs(y, z)))
        for nm, fn in calls:
            for z in zs:
                tried += 1
                exact = np.asarray(fn(y32.astype(np.float64), z.copy()), dtype=float)      # the same real numbers, all float64
                y0, z0 = y32.copy(), z.copy()
                got = np.asarray(fn(y32, z), dtype=float)
                # power-type scores of float32 input are computed in float32 by numpy: only rounding-free formulas are compared
                if not nm.startswith(("HES", "HQS")) and not np.allclose(got, exact, rtol=1e-6, atol=1e-12):
                    add(nm, dict(y_float32=[float(v) for v in y32], z_float64=z0.tolist()), [got.tolist(), exact.tolist()],
                        "float32 observations with float64 predictions give the values of the same real numbers")
                if y32.tobytes() != y0.tobytes() or z.tobytes() != z0.tobytes():
                    add(nm, dict(y=y0.tolist(), z=z0.tolist()), [y32.tolist(), z.tolist()], "the caller's arrays are not modified")
                    y32, z = y0, z0
                again = np.asarray(fn(y32, z), dtype=float)
                if not np.array_equal(again, got):
                    add(nm, dict(y=y0.tolist(), z=z0.tolist()), [got.tolist(), again.tolist()], "a second call with the same arrays gives the same values")
    # ---- directed probes (each one is the failing input class of a seeded change that was first detected without an input)
    if pid in ("C04", "C14"):
        # predictions a hair below / above the observation: the sign of every factor of a quantile score is exact
        for cls, nm in ((HomogeneousQuantileScore, "HomogeneousQuantileScore"),):
            for h in (1.0, 3.0, 0.5, 2.0):
                for a in (0.2, 0.8):
                    for y in (1.0, 2.5, 1e-3, 40.0):
                        for d in (1e-10, 1e-11, -1e-10):
                            tried += 1
                            z = y * (1 - d)
                            r = real(lambda: cls(degree=h, level=a).score_per_obs([y], [z]))
                            if r[0] != "val" or r[1] < -1e-14 * y ** h:
                                add(nm + ".score_per_obs", [h, a, y, z], r, "score >= 0 (prediction within 1e-10 relative of the observation)")
        # degrees next to the special cases 0 and 1 belong to the neighbouring general branch (domain and closed form)
        for cls, nm, dom in ((HomogeneousExpectileScore, "HomogeneousExpectileScore", hes_in), (HomogeneousQuantileScore, "HomogeneousQuantileScore", hqs_in)):
            for h in (1 + 1e-9, 1e-9, 1 - 4e-6, 1 + 4e-6):
                for y, z in ((-1.5, -2.5), (0.0, 1.0), (2.0, 3.0), (-1.0, 1.0), (1.0, 0.5)):
                    tried += 1
                    r = real(lambda: cls(degree=h, level=0.3).score_per_obs([y], [z]))
                    if dom(h, y, z) and r[0] != "val":
                        add(nm + ".score_per_obs", [h, 0.3, y, z], r, "in-domain pair must give a finite number (degree next to a special case)")
                    if not dom(h, y, z) and r[0] != "V":
                        add(nm + ".score_per_obs", [h, 0.3, y, z], r, "pair outside the documented domain must raise ValueError (degree next to a special case)")
        for h in (1 - 4e-6, 1 + 4e-6):
            # homogeneity with a large factor separates degree h from degree 1:  c^h / c = 2^(+-80e-6)
            for y, z in ((1.0, 2.0), (3.0, 1.5)):
                tried += 1
                c = 2.0 ** 20
                sf = HomogeneousQuantileScore(degree=h, level=0.3)
                r1, r2 = real(lambda: sf.score_per_obs([y], [z])), real(lambda: sf.score_per_obs([c * y], [c * z]))
                if r1[0] == "val" and r2[0] == "val" and abs(r2[1] - c ** h * r1[1]) > 1e-7 * abs(c ** h * r1[1]):
                    add("HomogeneousQuantileScore.score_per_obs", [h, 0.3, y, z, c], [r1, r2], "S(cy,cz) = c^h S(y,z)")
        # odd degrees with observation and prediction of opposite sign: the definition (z^h - y^h)/h
        for h in (3.0, 5.0):
            for a in (0.2, 0.5, 0.7):
                for y, z in ((-2.0, 0.5), (2.0, -0.5), (-1.0, 0.0), (1.5, -1.5), (0.0, -2.0)):
                    tried += 1
                    want = ((1.0 if z >= y else 0.0) - a) * (z ** h - y ** h) / h
                    r = real(lambda: HomogeneousQuantileScore(degree=h, level=a).score_per_obs([y], [z]))
                    if r[0] != "val" or abs(r[1] - want) > 1e-12 * (1 + abs(want)):
                        add("HomogeneousQuantileScore.score_per_obs", [h, a, y, z], r, f"definition (1{{z>=y}} - level)(z^h - y^h)/h = {want}")
    if pid in ("C04", "C05", "C14"):
        # scorer objects keep no state between calls and read their public attributes at call time
        yy = np.array([1.0, 2.0, 0.5])
        for mk, nm, zbad in ((lambda: HomogeneousQuantileScore(degree=0, level=0.3), "HomogeneousQuantileScore(0,0.3)", [-1.0, 3.0, 1.0]),
                             (lambda: HomogeneousQuantileScore(degree=2.5, level=0.3), "HomogeneousQuantileScore(2.5,0.3)", [1.0, -3.0, 1.0]),
                             (lambda: HomogeneousExpectileScore(degree=1, level=0.3), "HomogeneousExpectileScore(1,0.3)", [1.0, 0.0, 1.0])):
            tried += 1
            sf = mk()
            r1 = real(lambda: float(np.sum(sf.score_per_obs(yy, [1.5, 1.0, 2.0]))))
            r2 = real(lambda: float(np.sum(sf.score_per_obs(yy, zbad))))
            if r1[0] != "val" or r2[0] != "V":
                add(nm + ".score_per_obs", dict(y=yy.tolist(), first_call_z=[1.5, 1.0, 2.0], second_call_z=zbad), [r1, r2],
                    "a second call on the same scorer with the same y_obs object and a prediction outside the domain must raise ValueError")
        for cls, nm, h in ((HomogeneousQuantileScore, "HomogeneousQuantileScore", 1.0), (HomogeneousQuantileScore, "HomogeneousQuantileScore", 3.0),
                           (HomogeneousExpectileScore, "HomogeneousExpectileScore", 2.0), (HomogeneousExpectileScore, "HomogeneousExpectileScore", 1.5)):
            tried += 1
            sf = cls(degree=h, level=0.2)
            sf.score_per_obs(yy, [1.5, 1.0, 2.0])
            sf.level = 0.9
            got = np.asarray(sf.score_per_obs(yy, [1.5, 1.0, 2.0]), dtype=float)
            fresh = np.asarray(cls(degree=h, level=0.9).score_per_obs(yy, [1.5, 1.0, 2.0]), dtype=float)
            sf2 = cls(degree=h, level=0.2)
            sf2.degree = 0.5 if cls is HomogeneousQuantileScore else 2.5
            got2 = np.asarray(sf2.score_per_obs(yy, [1.5, 1.0, 2.0]), dtype=float)
            fresh2 = np.asarray(cls(degree=sf2.degree, level=0.2).score_per_obs(yy, [1.5, 1.0, 2.0]), dtype=float)
            if not np.allclose(got, fresh, rtol=1e-12, atol=0) or not np.allclose(got2, fresh2, rtol=1e-12, atol=0):
                add(nm + ".score_per_obs", dict(degree=h, level_reassigned=[0.2, 0.9], degree_reassigned=[h, sf2.degree], y=yy.tolist(), z=[1.5, 1.0, 2.0]),
                    [got.tolist(), fresh.tolist(), got2.tolist(), fresh2.tolist()],
                    "a scorer whose public attribute level / degree was reassigned scores like a fresh scorer with those values")
    if pid in ("C04", "C14"):
        # the level enters an expectile score only through the factor 2 |1{z >= y} - level| (every degree, also the ones between
        # the special cases)
        for h in (0.5, 1.5, 2.0, 3.0, 0.0, 1.0, -1.0, 2.5):
            for a in (0.2, 0.8):
                for y, z in ((1.0, 2.0), (2.0, 0.5), (3.5, 3.5), (0.25, 4.0)):
                    tried += 1
                    r = real(lambda: HomogeneousExpectileScore(degree=h, level=a).score_per_obs([y], [z]))
                    r0 = real(lambda: HomogeneousExpectileScore(degree=h, level=0.5).score_per_obs([y], [z]))
                    if r[0] == "val" and r0[0] == "val":
                        want = 2 * abs((1.0 if z >= y else 0.0) - a) * r0[1]
                        if abs(r[1] - want) > 1e-12 * (1 + abs(want)):
                            add("HomogeneousExpectileScore.score_per_obs", [h, a, y, z], [r, r0], f"S_level = 2 |1{{z>=y}} - level| S_(1/2) = {want}")
    if pid == "C05":
        # log loss with soft labels (frequencies in (0, 1), few distinct values): the weighted mean minimises the average score
        for ys_, ws_ in (([0.25, 0.75, 0.75], [1.0, 1.0, 2.0]), ([0.0, 0.5, 0.5, 0.0], [1.0, 1.0, 1.0, 1.0]), ([0.3, 0.3, 0.3], [1.0, 2.0, 1.0]), ([0.0, 1.0, 1.0, 0.25], [2.0, 1.0, 1.0, 1.0])):
            t_ = sum(w * y for y, w in zip(ys_, ws_)) / sum(ws_)
            rt = real(lambda: LogLoss()(np.asarray(ys_), np.full(len(ys_), t_), weights=np.asarray(ws_)))
            for c_ in (0.05, 0.2, 0.35, 0.5, 0.65, 0.8, 0.95):
                tried += 1
                rc = real(lambda: LogLoss()(np.asarray(ys_), np.full(len(ys_), c_), weights=np.asarray(ws_)))
                if rt[0] != "val" or rc[0] != "val" or rc[1] < rt[1] - 1e-12:
                    add("LogLoss.__call__", dict(y=ys_, w=ws_, functional_value=t_, other_constant=c_), [rt, rc],
                        "average log loss at the weighted mean <= average log loss at any other constant (soft labels)")
        # the level is documented as neglected for the median
        for eta in (1.0, 1.5, 2.0):
            tried += 1
            yv, zv = [0.0, 1.0, 2.0, 1.0, 3.0], [0.5, 1.0, 2.5, 1.5, 1.0]
            a_ = np.asarray(ElementaryScore(eta, "median", 0.9).score_per_obs(yv, zv), dtype=float)
            b_ = np.asarray(ElementaryScore(eta, "median").score_per_obs(yv, zv), dtype=float)
            c_ = np.asarray(ElementaryScore(eta, "quantile", 0.5).score_per_obs(yv, zv), dtype=float)
            if not (np.array_equal(a_, b_) and np.array_equal(b_, c_)):
                add("ElementaryScore.score_per_obs", dict(eta=eta, y=yv, z=zv), [a_.tolist(), b_.tolist(), c_.tolist()],
                    "functional='median' (any level) = functional='quantile' at level 0.5")
        # __call__ is the weighted average for tiny weight units and for integer-typed scores with fractional weights
        for sf, nm in ((SquaredError(), "SquaredError"), (PinballLoss(0.3), "PinballLoss(0.3)"), (HomogeneousExpectileScore(2, 0.5), "HES(2,0.5)"), (PoissonDeviance(), "PoissonDeviance")):
            for yv, zv in ((np.array([1, 3, 2, 5], dtype=np.int64), np.array([2, 1, 2, 3], dtype=np.int64)), (np.array([1.0, 3.0, 2.0, 5.0]), np.array([2.0, 1.0, 2.5, 3.0]))):
                for wv in (np.array([0.25, 1.75, 0.5, 2.5]), np.array([1.0, 7.0, 2.0, 9.0]) * 2.0 ** -33, np.array([1.0, 7.0, 2.0, 9.0]) * 1e-12):
                    tried += 1
                    spo = np.asarray(sf.score_per_obs(yv.astype(float), zv.astype(float)), dtype=float)
                    want = float((spo * wv).sum() / wv.sum())
                    r = real(lambda: sf(yv, zv, weights=wv))
                    if r[0] != "val" or abs(r[1] - want) > 1e-9 * (1 + abs(want)):
                        add(nm + ".__call__", dict(y=yv.tolist(), y_dtype=str(yv.dtype), z=zv.tolist(), w=wv.tolist()), [r, want],
                            "the aggregated score is the weighted average of the per-observation scores")
    if pid == "C08":
        # a list that is refilled in place between two calls; levels at the edge of the open unit interval
        buf = [1.0, 2.0, 3.0]
        first = np.asarray(identification_function(buf, [2.0, 2.0, 2.0], functional="mean"), dtype=float)
        buf[:] = [5.0, 0.0, 2.0]
        for f in ("mean", "median", "expectile", "quantile"):
            tried += 1
            got = np.asarray(identification_function(buf, [2.0, 2.0, 2.0], functional=f, level=0.3), dtype=float)
            fresh = np.asarray(identification_function([5.0, 0.0, 2.0], [2.0, 2.0, 2.0], functional=f, level=0.3), dtype=float)
            if not np.array_equal(got, fresh):
                add("identification_function", dict(functional=f, y_first_call=[1.0, 2.0, 3.0], y_second_call=[5.0, 0.0, 2.0], z=[2.0, 2.0, 2.0]), [got.tolist(), fresh.tolist()],
                    "a list refilled in place between two calls is read again")
        for f in ("expectile", "quantile"):
            for a in (1e-17, 5e-324, 2.0 ** -60, 1 - 2.0 ** -53):
                tried += 1
                r = real(lambda: float(identification_function([1.0], [2.0], functional=f, level=a)[0]))
                want = (1.0 - a) if f == "quantile" else 2 * abs(1.0 - a) * 1.0
                if r[0] != "val" or abs(r[1] - want) > 1e-12:
                    add("identification_function", [f, a, 1.0, 2.0], r, f"a level inside the open unit interval is accepted, closed form {want}")
        # every prediction tied with its observation (single pair, whole arrays, the same object twice)
        for f, want in (("median", 0.5), ("quantile", 0.7), ("mean", 0.0), ("expectile", 0.0)):
            arr = np.array([1.0, 2.5, 2.5])
            for yv, zv in (([2.0], [2.0]), (arr, arr), (arr, arr.copy())):
                tried += 1
                got = np.asarray(identification_function(yv, zv, functional=f, level=0.3), dtype=float)
                if not np.allclose(got, want, rtol=0, atol=1e-15):
                    add("identification_function", dict(functional=f, level=0.3, y=np.asarray(yv).tolist(), z=np.asarray(zv).tolist()), got.tolist(), f"closed form {want} at a tie")
    if pid == "C15":
        # thresholds one ulp next to a data value
        for f in ("mean", "expectile", "quantile", "median"):
            for y, z in ((2.0, 1.0), (1.0, 2.0), (0.3, 0.7)):
                for base in (y, z):
                    for eta in (np.nextafter(base, 10.0), np.nextafter(base, -10.0), base * (1 + 1e-6), base * (1 - 1e-6)):
                        tried += 1
                        eta = float(eta)
                        r = real(lambda: ElementaryScore(eta, f, 0.3).score_per_obs([y], [z]))
                        if f in ("mean", "expectile"):
                            v = (2 * abs((1.0 if eta >= y else 0.0) - (0.5 if f == "mean" else 0.3)) * (eta - y)) if f == "expectile" else (eta - y)
                            want = ((1.0 if eta <= z else 0.0) - (1.0 if eta <= y else 0.0)) * v
                        else:
                            lvl = 0.5 if f == "median" else 0.3
                            want = ((1.0 if eta < z else 0.0) - (1.0 if eta < y else 0.0)) * ((1.0 if eta >= y else 0.0) - lvl)
                        if r[0] != "val" or r[1] < -1e-15 or abs(r[1] - want) > 1e-12 * (1 + abs(want)):
                            add(f"ElementaryScore[{f}]", dict(eta=eta, level=0.3, y=y, z=z), r, f"elementary score {want} >= 0 for a threshold next to a data value")
    # ---- float32 observations / predictions with a threshold eta (Python float AND numpy float64) within float32 rounding of
    # a data value: the same real numbers as float64 arrays must give the same scores; the score is >= 0 (C15)
    if pid == "C15":
        for f in ("mean", "quantile", "median", "expectile"):
            for lvl in (0.2, 0.5, 0.8):
                for eta0 in (0.1, 0.7, 2.3):
                    for eta in (eta0, np.float64(eta0), np.float32(eta0)):
                        for dy in (-1, 0, 1):
                            for zv in (eta0 - 0.05, eta0, eta0 + 0.1):
                                e32 = np.float32(eta0)
                                yv = e32 if dy == 0 else np.nextafter(e32, np.float32(100.0 * dy))
                                y = np.array([yv, np.float32(1.5)], dtype=np.float32)
                                z = np.array([np.float32(zv), yv], dtype=np.float32)
                                tried += 1
                                try:
                                    got = np.asarray(ElementaryScore(eta, f, lvl).score_per_obs(y, z), dtype=float)
                                    exact = np.asarray(ElementaryScore(float(eta), f, lvl).score_per_obs(y.astype(np.float64), z.astype(np.float64)), dtype=float)
                                except Exception as ex:  # noqa: BLE001
                                    add(f"ElementaryScore[{f}]", dict(eta=repr(eta), level=lvl, y_float32=[float(v) for v in y], z_float32=[float(v) for v in z]),
                                        type(ex).__name__, "float32 input is scored")
                                    continue
                                if (got < -1e-6).any() or not np.allclose(got, exact, rtol=1e-5, atol=1e-6):
                                    add(f"ElementaryScore[{f}]", dict(eta=repr(eta), level=lvl, y_float32=[float(v) for v in y], z_float32=[float(v) for v in z]),
                                        [got.tolist(), exact.tolist()],
                                        "float32 arrays give the elementary scores (>= 0) of the same real numbers, also for eta within float32 rounding of an observation")
    return dict(failures=fails, tried=tried)


def main():
    mode = sys.argv[1]
    if mode == "roundtrip":
        print(json.dumps(roundtrip(int(sys.argv[2]), sys.argv[3])))
    elif mode == "judge":
        print(json.dumps(judge(sys.argv[2], int(sys.argv[3]), sys.argv[4])))


if __name__ == "__main__":
    main()
