"""Correspondence run for `isotonic_regression` (C01, C02, C03, C12, C17, C20 share it).

Generates structured cases from one seeded PRNG, runs the implementation, and
writes Coq case files whose comparator (coq/corr/CmpIso.v) evaluates the model
model/Isotonic.v on the exact rational value of every input.
"""
import math
import os
import random
from fractions import Fraction

import numpy as np

from common import qlit, qlist, natlist, frac, sigbits

FUN_COQ = {"mean": "IFmean", "median": "IFmedian", "expectile": "IFexpectile", "quantile": "IFquantile"}
DYADIC_LEVELS = [0.125, 0.25, 0.5, 0.75, 0.875]
DECIMAL_LEVELS = [0.1, 0.2, 0.3, 0.4, 0.6, 0.7, 0.8, 0.9]


# ----------------------------------------------------------------- generators
def gen_values(rng, n, style):
    if style == "smallint":
        k = rng.choice([2, 3, 5])
        return [float(rng.randrange(k)) for _ in range(n)]
    if style == "int":
        return [float(rng.randrange(-20, 21)) for _ in range(n)]
    if style == "dyadic":
        return [rng.randrange(-64, 65) / 8.0 for _ in range(n)]
    if style == "decimal":
        return [rng.randrange(-30, 31) / 10.0 for _ in range(n)]
    if style == "double":
        return [rng.uniform(-10, 10) for _ in range(n)]
    if style == "walk":
        v, out = 0.0, []
        for _ in range(n):
            v += rng.choice([-1.0, -0.5, 0.0, 0.5, 1.0, 1.5])
            out.append(v)
        return out
    if style == "sorted":
        return sorted(gen_values(rng, n, rng.choice(["smallint", "int", "dyadic"])))
    if style == "revsorted":
        return sorted(gen_values(rng, n, rng.choice(["smallint", "int", "dyadic"])), reverse=True)
    if style == "constant":
        return [float(rng.randrange(-3, 4))] * n
    if style == "positive":
        return [rng.randrange(1, 40) / 4.0 for _ in range(n)]
    raise ValueError(style)


VALUE_STYLES = ["smallint", "smallint", "int", "dyadic", "dyadic", "decimal", "double", "walk", "sorted",
                "revsorted", "constant", "positive"]


def gen_weights(rng, n, style):
    if style == "none":
        return None
    if style == "ones":
        return [1.0] * n
    if style == "smallint":
        return [float(rng.randrange(1, 5)) for _ in range(n)]
    if style == "dyadic":
        return [rng.randrange(1, 33) / 8.0 for _ in range(n)]
    if style == "double":
        return [rng.uniform(0.05, 5.0) for _ in range(n)]
    raise ValueError(style)


# ------------------------------------------------- float-exactness shadow (mean)
def shadow_pava_exact(y, w):
    """Follows Busing's loop as written in the pinned isotonic.py in exact
    (Fraction) and float arithmetic side by side.  Returns True iff every
    comparison is decided identically and unambiguously: either both float
    operands equal their exact values, or the exact margin is large (> 1e-9
    relative).  Used only to decide whether the block vector is compared exactly."""
    n = len(y)
    xe = [Fraction(v) for v in y]
    we = [Fraction(v) for v in w]
    xf = [float(v) for v in y]
    wf = [float(v) for v in w]
    ok = [True]

    def ge(ae, af, be, bf):
        if Fraction(af) == ae and Fraction(bf) == be:
            return ae >= be
        if abs(ae - be) <= Fraction(1, 10 ** 9) * (1 + abs(ae)):
            ok[0] = False
        return ae >= be

    b = 0
    xpe, xpf, wpe, wpf = xe[0], xf[0], we[0], wf[0]
    i = 1
    while i < n:
        b += 1
        xbe, xbf, wbe, wbf = xe[i], xf[i], we[i], wf[i]
        if ge(xpe, xpf, xbe, xbf):
            b -= 1
            sbe, sbf = wpe * xpe + wbe * xbe, wpf * xpf + wbf * xbf
            wbe, wbf = wbe + wpe, wbf + wpf
            xbe, xbf = sbe / wbe, sbf / wbf
            while i < n - 1 and ge(xbe, xbf, xe[i + 1], xf[i + 1]):
                i += 1
                sbe, sbf = sbe + we[i] * xe[i], sbf + wf[i] * xf[i]
                wbe, wbf = wbe + we[i], wbf + wf[i]
                xbe, xbf = sbe / wbe, sbf / wbf
            while b >= 1 and ge(xe[b - 1], xf[b - 1], xbe, xbf):
                b -= 1
                sbe, sbf = sbe + we[b] * xe[b], sbf + wf[b] * xf[b]
                wbe, wbf = wbe + we[b], wbf + wf[b]
                xbe, xbf = sbe / wbe, sbf / wbf
        xe[b] = xpe = xbe
        xf[b] = xpf = xbf
        we[b] = wpe = wbe
        wf[b] = wpf = wbf
        i += 1
    return ok[0]


_QSAFE = {}


def quantile_float_safe(level, n):
    """True iff numpy's inverted_cdf quantile at `level` (and the upper variant at
    the decimal 1-level) picks, for every sample size m <= n, the order statistic
    that the exact decimal level defines.  Probed on numpy itself."""
    from decimal import Decimal
    key = (level, n)
    if key in _QSAFE:
        return _QSAFE[key]
    lv = Fraction(str(level))
    up = float(1 - Decimal(str(level)))
    lvu = 1 - lv
    ok = True
    for m in range(1, n + 1):
        a = np.arange(m, dtype=float)
        want = max(math.ceil(lv * m) - 1, 0)
        got = np.quantile(a, level, method="inverted_cdf")
        wantu = max(math.ceil(lvu * m) - 1, 0)
        gotu = np.quantile(a, up, method="inverted_cdf")
        if got != want or gotu != wantu:
            ok = False
            break
    _QSAFE[key] = ok
    return ok


# ------------------------------------------------------------------ one case
def run_impl(y, w, inc, functional, level, container="list"):
    from model_diagnostics._utils.isotonic import isotonic_regression
    yy, ww = wrap(y, container), (None if w is None else wrap(w, container))
    y_before = list(y)
    try:
        x, r = isotonic_regression(yy, ww, increasing=inc, functional=functional, level=level)
    except ValueError:
        return ("ValueError",)
    except NotImplementedError:
        return ("NotImplementedError",)
    except Exception as e:  # noqa: BLE001
        return ("Other", type(e).__name__)
    return ("ok", [float(v) for v in x], [int(k) for k in r])


def wrap(v, container):
    if container == "list":
        return list(v)
    if container == "tuple":
        return tuple(v)
    if container == "ndarray":
        return np.asarray(v, dtype=float)
    if container == "intarray":
        return np.asarray(v, dtype=np.int64)
    if container == "series":
        import polars as pl
        return pl.Series(values=list(v))
    if container == "boolarray":
        return np.asarray([bool(x) for x in v], dtype=bool)
    if container == "uint8array":
        return np.asarray(v, dtype=np.uint8)
    raise ValueError(container)


def run_impl_dtypes(y, w, inc, functional, level, ykind, wkind):
    """like run_impl but with separate containers / dtypes for y and the weights (dtype probes of the search)"""
    from model_diagnostics._utils.isotonic import isotonic_regression
    try:
        x, r = isotonic_regression(wrap(y, ykind), None if w is None else wrap(w, wkind), increasing=inc, functional=functional, level=level)
    except ValueError:
        return ("ValueError",)
    except NotImplementedError:
        return ("NotImplementedError",)
    except Exception as e:  # noqa: BLE001
        return ("Other", type(e).__name__)
    return ("ok", [float(v) for v in x], [int(k) for k in r])


def coq_case(y, w, inc, functional, level_q, exact, obs):
    wtxt = "None" if w is None else f"(Some {qlist(w)})"
    f = FUN_COQ.get(functional, "IFother")
    if obs[0] == "ok":
        o = f"(ORes {qlist(obs[1])} {natlist(obs[2])})"
    elif obs[0] == "ValueError":
        o = "OValueError"
    elif obs[0] == "NotImplementedError":
        o = "ONotImplemented"
    else:
        o = "OOther"
    return (f"mkicase {qlist(y)} {wtxt} {'true' if inc else 'false'} {f} {qlit(level_q)} "
            f"{'true' if exact else 'false'} {o}")


def gen_case(rng, nmax):
    """returns dict describing one valid-input case"""
    r = rng.random()
    if r < 0.25:
        n = rng.randrange(1, 6)
    elif r < 0.85:
        n = rng.randrange(1, max(2, nmax // 2))
    else:
        n = rng.randrange(1, nmax + 1)
    functional = rng.choice(["mean", "mean", "median", "quantile", "quantile", "expectile", "expectile"])
    vstyle = rng.choice(VALUE_STYLES)
    y = gen_values(rng, n, vstyle)
    if functional in ("median", "quantile"):
        wstyle = "none"
    else:
        wstyle = rng.choice(["none", "ones", "smallint", "smallint", "dyadic", "double"])
    w = gen_weights(rng, n, wstyle)
    level = rng.choice(DYADIC_LEVELS + DECIMAL_LEVELS)
    inc = rng.random() < 0.6
    return dict(y=y, w=w, inc=inc, functional=functional, level=level, vstyle=vstyle, wstyle=wstyle)


def gen_malformed(rng):
    n = rng.randrange(1, 7)
    y = gen_values(rng, n, "int")
    kind = rng.choice(["functional", "level0", "level1", "levelneg", "levelbig", "wlen", "wzero", "wneg",
                       "wquantile", "wmedian"])
    d = dict(y=y, w=None, inc=rng.random() < 0.5, functional="mean", level=0.5, kind=kind)
    if kind == "functional":
        d["functional"] = rng.choice(["XXX", "Mean", "", "mode"])
    elif kind.startswith("level"):
        d["functional"] = rng.choice(["quantile", "expectile"])
        d["level"] = {"level0": 0.0, "level1": 1.0, "levelneg": -0.25, "levelbig": 1.5}[kind]
    elif kind == "wlen":
        d["functional"] = rng.choice(["mean", "expectile"])
        d["w"] = [1.0] * (n + rng.choice([1, 2]))
    elif kind == "wzero":
        d["functional"] = rng.choice(["mean", "expectile"])
        d["w"] = [1.0] * n
        d["w"][rng.randrange(n)] = 0.0
    elif kind == "wneg":
        d["functional"] = rng.choice(["mean", "expectile"])
        d["w"] = [2.0] * n
        d["w"][rng.randrange(n)] = -1.0
    elif kind == "wquantile":
        d["functional"] = "quantile"
        d["w"] = [1.0] * n
    elif kind == "wmedian":
        d["functional"] = "median"
        d["w"] = [1.0] * n
    return d


def level_fraction(level):
    return Fraction(str(level))


def build_cases(seed, ncases, nmax, functionals=None, nmal=None):
    """Returns (coq case strings, stats dict, samples, loss_only list)."""
    rng = random.Random(seed)
    cases, samples, dicts = [], [], []
    stats = dict(cases=0, by_functional={}, exact_r=0, loose_r=0, ties=0, errors={}, n_hist={}, weighted=0,
                 decreasing=0, float_unsafe_quantile=0, constant=0)
    loss_only = []
    nmal = ncases // 10 if nmal is None else nmal
    tries = 0
    while len(cases) < ncases and tries < ncases * 5:
        tries += 1
        d = gen_case(rng, nmax)
        if functionals and d["functional"] not in functionals:
            continue
        y, w, inc, fn, level = d["y"], d["w"], d["inc"], d["functional"], d["level"]
        obs = run_impl(y, w, inc, fn, level)
        if fn in ("median", "quantile"):
            lv = 0.5 if fn == "median" else level
            if not quantile_float_safe(lv, len(y)):
                stats["float_unsafe_quantile"] += 1
                loss_only.append((d, obs))
                continue
            exact = True
        elif fn == "mean":
            yy = y if inc else y[::-1]
            ww = [1.0] * len(y) if w is None else (w if inc else w[::-1])
            exact = shadow_pava_exact(yy, ww)
        else:
            exact = False
        cases.append(coq_case(y, w, inc, fn, level_fraction(level), exact, obs))
        dicts.append(dict(y=y, w=w, inc=inc, functional=fn, level=level))
        stats["cases"] += 1
        stats["by_functional"][fn] = stats["by_functional"].get(fn, 0) + 1
        stats["exact_r" if exact else "loose_r"] += 1
        if len(set(y)) < len(y):
            stats["ties"] += 1
        if len(set(y)) == 1:
            stats["constant"] += 1
        if w is not None:
            stats["weighted"] += 1
        if not inc:
            stats["decreasing"] += 1
        b = min(len(y) // 10 * 10, 100)
        stats["n_hist"][str(b)] = stats["n_hist"].get(str(b), 0) + 1
        if len(samples) < 3:
            samples.append(dict(y=y, w=w, increasing=inc, functional=fn, level=level, impl=obs))
    for _ in range(nmal):
        d = gen_malformed(rng)
        if functionals and d["kind"] not in ("functional",) and d["functional"] not in functionals:
            continue
        obs = run_impl(d["y"], d["w"], d["inc"], d["functional"], d["level"])
        cases.append(coq_case(d["y"], d["w"], d["inc"], d["functional"], level_fraction(d["level"]), True, obs))
        dicts.append(dict(y=d["y"], w=d["w"], inc=d["inc"], functional=d["functional"], level=d["level"], kind=d["kind"]))
        stats["errors"][d["kind"] + ":" + obs[0]] = stats["errors"].get(d["kind"] + ":" + obs[0], 0) + 1
        stats["cases"] += 1
    return cases, stats, samples, loss_only, dicts


CASE_IMPORTS = "From MD Require Import lib.QLists model.Isotonic corr.Decode corr.CmpIso."


def write_shards(cases, outdir, prefix, size=300):
    from common import shard, write_case_file
    os.makedirs(outdir, exist_ok=True)
    paths = []
    for k, sh in enumerate(shard(cases, size)):
        p = os.path.join(outdir, f"{prefix}_{k}.v")
        body = "Definition cases : list icase := [\n  " + ";\n  ".join(sh) + "\n]."
        write_case_file(p, CASE_IMPORTS, body, "summary cases")
        paths.append(p)
    return paths
