"""Correspondence / judge / search harness for `bin_feature` (C13).

  run_binning.py corr   <outdir> <prefix> <seed> <ncases> <nmax>
  run_binning.py judge  <cases.json>
  run_binning.py search <seed> <budget>

A case is a JSON-able dict
  {"ftype": float|float32|int|intnp|uint8|bool|boolnp|null|str|cat|enum|strnull|catnull,
   "values": [...], "n_bins": int, "method": str, "enum_cats": [...] (enum only)}
with non-finite floats written as the strings "nan", "inf", "-inf" and nulls as None.
"""
import itertools
import json
import math
import os
import random
import sys
import warnings
from fractions import Fraction

warnings.filterwarnings("ignore")

import numpy as np
import polars as pl

from model_diagnostics._utils.binning import bin_feature, _format_integer

from common import qlit, qlist, write_case_file, shard

NUMPY_RULES = ["auto", "fd", "doane", "scott", "stone", "rice", "sturges", "sqrt"]
METHODS = ["quantile", "uniform"] + NUMPY_RULES
NUM_TYPES = ["float", "float32", "int", "intnp", "uint8", "bool", "boolnp", "null"]
STR_TYPES = ["str", "cat", "enum", "strnull", "catnull"]


# ------------------------------------------------------------------ encoding
def dec(v):
    if v is None:
        return None
    if isinstance(v, str):
        return {"nan": math.nan, "inf": math.inf, "-inf": -math.inf}[v]
    return v


def enc(v):
    if v is None:
        return None
    if isinstance(v, bool):
        return v
    if isinstance(v, float):
        if math.isnan(v):
            return "nan"
        if math.isinf(v):
            return "inf" if v > 0 else "-inf"
    return v


def is_string_type(ft):
    return ft in STR_TYPES


def build_feature(d):
    ft, vals = d["ftype"], d["values"]
    if ft == "float":
        return [dec(v) for v in vals]                       # python list with None / nan / inf
    if ft == "float32":
        return pl.Series([dec(v) for v in vals], dtype=pl.Float32)
    if ft == "int":
        return list(vals)                                   # python ints, possibly None
    if ft == "intnp":
        return np.array(vals, dtype=np.int64)
    if ft == "uint8":
        return pl.Series(vals, dtype=pl.UInt8)
    if ft == "bool":
        return list(vals)
    if ft == "boolnp":
        return np.array(vals, dtype=bool)
    if ft == "null":
        return pl.Series(vals, dtype={"f": pl.Float64, "i": pl.Int64, "n": pl.Null}[d.get("null_dtype", "f")])
    if ft == "str":
        return list(vals)
    if ft == "strnull":
        return pl.Series(vals, dtype=pl.String)
    if ft == "cat":
        return pl.Series(vals, dtype=pl.Categorical)
    if ft == "catnull":
        return pl.Series(vals, dtype=pl.Categorical)
    if ft == "enum":
        return pl.Series(vals, dtype=pl.Enum(d["enum_cats"]))
    raise ValueError(ft)


def numeric_cells(d):
    """the column as the model sees it: None (null/NaN), 'inf', '-inf' or an exact Fraction"""
    out = []
    for v in d["values"]:
        v = dec(v)
        if v is None:
            out.append(None)
        elif isinstance(v, bool):
            out.append(Fraction(int(v)))
        elif isinstance(v, float) and math.isnan(v):
            out.append(None)
        elif isinstance(v, float) and math.isinf(v):
            out.append("inf" if v > 0 else "-inf")
        else:
            out.append(Fraction(v))
    return out


def interior_edges(d):
    """numpy's interior edges for the eight histogram rules, computed on exactly the
    array the code hands to numpy (finite, non-null); [] when numpy is never reached"""
    if d["method"] not in NUMPY_RULES or d["ftype"] in ("bool", "boolnp"):
        return []
    try:
        f = pl.Series(name="feature", values=build_feature(d))
        if f.dtype.is_float():
            f = f.fill_nan(None)
        a = f.filter(f.is_finite() & f.is_not_null())
        return [float(x) for x in np.histogram_bin_edges(a, bins=d["method"])[1:-1]]
    except Exception:
        return []


# ------------------------------------------------------------------ running
def run_impl(d):
    """-> ("num", n_bins_out, [None | (bin:int, lo:float, hi:float)]) | ("str", n_bins_out, [None|str])
          | ("err", class name, message)"""
    feat = build_feature(d)
    n = len(d["values"])
    try:
        with pl.StringCache():
            f, nb, fb = bin_feature(feat, None, n, d["n_bins"], d["method"])
            bins = fb.get_column("bin")
            if is_string_type(d["ftype"]):
                return ("str", int(nb), [None if b is None else str(b) for b in bins.cast(pl.String).to_list()])
            edges = fb.get_column("bin_edges").to_list()
            rows = []
            for b, e in zip(bins.to_list(), edges):
                if b is None:
                    rows.append(None if e is None else ("badnull",))
                else:
                    rows.append((int(b), float(e[0]), float(e[1])))
            return ("num", int(nb), rows)
    except Exception as e:  # noqa: BLE001
        return ("err", type(e).__name__, str(e)[:160])


# ------------------------------------------------------------------ Coq encoding
def xlit(v):
    if v == "inf" or (isinstance(v, float) and math.isinf(v) and v > 0):
        return "PInf"
    if v == "-inf" or (isinstance(v, float) and math.isinf(v) and v < 0):
        return "MInf"
    return f"(Fin {qlit(v)})"


def slit(s):
    return '"' + s.replace('"', '""') + '"%string'


ERR_COQ = {"TypeError": "(OErr ETypeError)", "InvalidOperationError": "(OErr EInvalidOp)", "ValueError": "(OErr EValueError)"}
METHOD_COQ = {"quantile": "Quantile", "uniform": "Uniform"}


def natural_names(d):
    if d["ftype"] == "enum":
        return list(d["enum_cats"])
    return sorted({v for v in d["values"] if v is not None})


def coq_obs(obs):
    if obs[0] == "err":
        return ERR_COQ.get(obs[1], "OOther")
    if obs[0] == "str":
        return f"(OStr {obs[1]}%nat [" + "; ".join("None" if b is None else f"Some {slit(b)}" for b in obs[2]) + "])"
    rows = obs[2]
    if any(r is not None and (len(r) == 1 or math.isnan(r[1]) or math.isnan(r[2])) for r in rows):
        return "ONan"
    return f"(ONum {obs[1]}%nat [" + "; ".join(
        "None" if r is None else f"Some ({r[0]}%nat, ({xlit(r[1])}, {xlit(r[2])}))" for r in rows) + "])"


def coq_case(d, obs):
    if is_string_type(d["ftype"]):
        names = natural_names(d)
        code = {s: i for i, s in enumerate(names)}
        kind = {"str": "SString", "strnull": "SString", "cat": "SCategorical", "catnull": "SCategorical", "enum": "SEnum"}[d["ftype"]]
        feat = "[" + "; ".join("None" if v is None else f"Some {code[v]}%nat" for v in d["values"]) + "]"
        return f"CStr {kind} [{'; '.join(slit(s) for s in names)}] {feat} {d['n_bins']}%nat {coq_obs(obs)}"
    kind = "KBool" if d["ftype"] in ("bool", "boolnp") else "KNum"
    cells = numeric_cells(d)
    feat = "[" + "; ".join("None" if c is None else f"Some {xlit(c)}" for c in cells) + "]"
    m = METHOD_COQ.get(d["method"], "NumpyRule")
    return f"CNum {kind} {feat} {d['n_bins']}%nat {m} {qlist(interior_edges(d))} {coq_obs(obs)}"


# ------------------------------------------------------------------ the property statement
def xval(c):
    return math.inf if c == "inf" else -math.inf if c == "-inf" else c


def inf_only(d):
    """a numeric column whose non-null values are all +inf / -inf.  Repaired in /repo commit b2b5cba
    (one bin [min, max]); an ordinary valid input now.  The tag "inf_only" on a failing case / clause
    is kept only to recognise a regression of that repair."""
    if d is None or is_string_type(d["ftype"]):
        return False
    cells = [c for c in numeric_cells(d) if c is not None]
    return bool(cells) and all(c in ("inf", "-inf") for c in cells)


def is_bool(d):
    """Boolean columns are not a documented feature type: modelled (correspondence), never judged"""
    return d is not None and d["ftype"] in ("bool", "boolnp")


def judge_case(d, obs=None):
    """evaluates the text of C13 on what the implementation returned; -> list of violated clauses"""
    if obs is None:
        obs = run_impl(d)
    bad = _judge_case(d, obs)
    if not bad and obs[0] in ("num", "str"):
        bad = consumers(d, obs)
    if bad and inf_only(d):
        bad = ["inf_only: " + b if ("not accepted" in b or "NaN" in b or "not inside" in b) else b for b in bad]
    return bad


def consumers(d, obs):
    """'every row is assigned to exactly one bin' as seen through the two public consumers of bin_feature: the tables of
    compute_bias and compute_marginal for the same feature have one row per group of bin_feature and their counts add up
    to the number of rows"""
    from model_diagnostics.calibration import compute_bias, compute_marginal
    n = len(d["values"])
    groups = len({None if r is None else (r if isinstance(r, str) else r[0]) for r in obs[2]})
    bad = []
    y = np.arange(n, dtype=float) % 3
    z = np.ones(n)
    for api in ("compute_bias", "compute_marginal"):
        try:
            with pl.StringCache():
                feat = build_feature(d)
                if api == "compute_bias":
                    t = compute_bias(y, z, feature=feat, n_bins=d["n_bins"], bin_method=d["method"])
                    cnt = t.get_column("bias_count")
                else:
                    fs = feat if isinstance(feat, pl.Series) else pl.Series(values=feat)
                    t = compute_marginal(y, z, X=pl.DataFrame({"f": fs}), feature_name="f", n_bins=d["n_bins"], bin_method=d["method"])
                    cnt = t.get_column("count")
        except Exception as e:  # noqa: BLE001
            bad.append(f"{api} raised {type(e).__name__} for a feature bin_feature accepts")
            continue
        if int(cnt.sum()) != n:
            bad.append(f"{api}: counts add up to {int(cnt.sum())} for {n} rows (rows lost or duplicated)")
        if t.height != groups:
            bad.append(f"{api}: {t.height} table rows for {groups} groups of bin_feature")
    return bad


def _judge_case(d, obs=None):
    if obs is None:
        obs = run_impl(d)
    bad = []
    valid_args = d["n_bins"] >= 2 and d["method"] in METHODS
    if obs[0] == "err":
        if not valid_args:
            return [] if obs[1] == "ValueError" else [f"invalid arguments: expected ValueError, got {obs[1]}"]
        if is_bool(d):
            return []          # out of the property's scope
        return [f"feature type not accepted: {d['ftype']} column raised {obs[1]}: {obs[2]}"]
    if not valid_args:
        return ["invalid arguments accepted"]
    n = len(d["values"])
    if is_string_type(d["ftype"]):
        bins = obs[2]
        vals = d["values"]
        if len(bins) != n:
            return ["number of rows changed"]
        names = natural_names(d)
        rank = {s: i for i, s in enumerate(names)}
        for v, b in zip(vals, bins):
            if (v is None) != (b is None):
                bad.append("null rows <-> null bin violated")
                break
        pooled_rows = [(v, b) for v, b in zip(vals, bins) if v is not None and b is not None and b != v]
        groups = {b for b in bins}
        if len(groups) > d["n_bins"]:
            bad.append(f"{len(groups)} groups > n_bins={d['n_bins']}")
        if len(groups) > obs[1]:
            bad.append(f"{len(groups)} groups > returned n_bins={obs[1]}")
        present = {v for v in vals if v is not None}
        cnt = {c: sum(1 for v in vals if v == c) for c in present}
        if pooled_rows:
            labels = {b for _, b in pooled_rows}
            if len(labels) != 1:
                return bad + [f"pooled rows under several names {sorted(labels)}"]
            lab = labels.pop()
            if lab in present:
                bad.append(f"pooled label {lab!r} collides with a real category")
            pooled_cats = {v for v, b in zip(vals, bins) if v is not None and b == lab and v != lab}
            # a real category equal to the label is indistinguishable from the pool: count it as pooled
            if lab in present:
                pooled_cats.add(lab)
            k = len(pooled_cats)
            stripped = lab.lstrip("_")
            if stripped != "other " + _ref_format_integer(k):
                bad.append(f"label {lab!r} but {k} pooled categories")
            if k < 2:
                bad.append(f"pooled k={k} < 2")
            kept = present - pooled_cats
            for c in kept:
                for p in pooled_cats:
                    if cnt[c] < cnt[p]:
                        bad.append(f"kept {c!r} (count {cnt[c]}) less frequent than pooled {p!r} (count {cnt[p]})")
                    elif cnt[c] == cnt[p] and rank[c] > rank[p]:
                        bad.append(f"tie {c!r}/{p!r} not resolved in natural order")
            for v, b in zip(vals, bins):
                if v in kept and b != v:
                    bad.append("kept category renamed")
                    break
        else:
            for v, b in zip(vals, bins):
                if v is not None and b != v:
                    bad.append("unpooled category renamed")
                    break
        return sorted(set(bad))
    # numeric
    rows = obs[2]
    cells = numeric_cells(d)
    if len(rows) != n:
        return ["number of rows changed"]
    assigned = []
    for c, r in zip(cells, rows):
        if c is None:
            if r is not None:
                bad.append("null/NaN row not in the null bin")
            continue
        if r is None or len(r) == 1:
            bad.append("non-null row in the null bin")
            continue
        b, lo, hi = r
        v = xval(c)
        assigned.append((v, b))
        if math.isnan(lo) or math.isnan(hi):
            bad.append("reported edge is NaN")
            continue
        lo_ok = (Fraction(lo) if math.isfinite(lo) else lo) <= v if b == 0 else (Fraction(lo) if math.isfinite(lo) else lo) < v
        hi_ok = v <= (Fraction(hi) if math.isfinite(hi) else hi)
        if not (lo_ok and hi_ok):
            bad.append(f"value {c} not inside reported edges ({lo}, {hi}] of bin {b}")
    for (v1, b1), (v2, b2) in itertools.combinations(assigned, 2):
        if v1 == v2 and b1 != b2:
            bad.append("equal values in different bins")
        if (v1 < v2 and b1 > b2) or (v2 < v1 and b2 > b1):
            bad.append("bin numbers not monotone in the value")
    groups = {None if r is None else r[0] for r in rows}
    if d["method"] in ("quantile", "uniform") and len(groups) > d["n_bins"]:
        bad.append(f"{len(groups)} groups > n_bins={d['n_bins']}")
    if len(groups) > obs[1]:
        bad.append(f"{len(groups)} groups > returned n_bins={obs[1]}")
    return sorted(set(bad))


def _ref_format_integer(k):
    """'other k' of the property text: the count itself below 1000; above, the documented 3-digit rounding"""
    return str(k) if k < 1000 else _format_integer(k)


# ------------------------------------------------------------------ generators
def gen_numeric(rng, nmax):
    n = rng.randrange(1, nmax + 1)
    ft = rng.choice(["float"] * 6 + ["float32", "int", "int", "intnp", "uint8", "bool", "boolnp", "null"])
    style = rng.choice(["smallint", "smallint", "int", "dyadic", "dyadic", "wide", "constant", "sorted", "twovals"])
    if style == "smallint":
        base = [float(rng.randrange(rng.choice([2, 3, 5, 8]))) for _ in range(n)]
    elif style == "int":
        base = [float(rng.randrange(-20, 21)) for _ in range(n)]
    elif style == "dyadic":
        base = [rng.randrange(-256, 257) / 16.0 for _ in range(n)]
    elif style == "wide":
        base = [rng.choice([-1, 1]) * rng.randrange(1, 1024) * 2.0 ** rng.randrange(-8, 9) for _ in range(n)]
    elif style == "constant":
        base = [float(rng.randrange(-3, 4))] * n
    elif style == "sorted":
        base = sorted(float(rng.randrange(0, 12)) for _ in range(n))
    else:
        a, b = rng.sample(range(-5, 6), 2)
        base = [float(rng.choice([a, b])) for _ in range(n)]
    d = dict(ftype=ft, n_bins=rng.choice([2, 2, 3, 3, 4, 5, 6]), method=rng.choice(["quantile"] * 4 + ["uniform"] * 4 + NUMPY_RULES))
    pnull = rng.choice([0, 0, 0.15, 0.4])
    pinf = rng.choice([0, 0, 0, 0.15, 0.5])
    if ft in ("float", "float32"):
        vals = []
        for v in base:
            r = rng.random()
            if r < pnull:
                vals.append(rng.choice([None, math.nan]))
            elif r < pnull + pinf:
                vals.append(rng.choice([math.inf, -math.inf]))
            else:
                vals.append(v)
        if rng.random() < 0.03:
            vals = [rng.choice([None, math.nan]) for _ in range(n)]
        elif rng.random() < 0.03:
            vals = [rng.choice([math.inf, -math.inf, math.inf, None]) for _ in range(n)]
        d["values"] = [enc(v) for v in vals]
    elif ft == "int":
        d["values"] = [None if rng.random() < pnull else int(v) for v in base]
        if all(v is None for v in d["values"]):
            d["ftype"] = "null"
            d["null_dtype"] = "i"
    elif ft == "intnp":
        d["values"] = [int(v) for v in base]
    elif ft == "uint8":
        d["values"] = [None if rng.random() < pnull else int(abs(v)) % 256 for v in base]
        if all(v is None for v in d["values"]):
            d["values"][0] = 1
    elif ft == "bool":
        d["values"] = [None if rng.random() < pnull / 2 else bool(int(v) % 2) for v in base]
        if all(v is None for v in d["values"]):
            d["values"][0] = True
    elif ft == "boolnp":
        d["values"] = [bool(int(v) % 2) for v in base]
    else:
        d["values"] = [None] * n
        d["null_dtype"] = rng.choice(["f", "i", "n"])
    return d


WORDS = ["a", "b", "c", "d", "e", "B", "zz", "other", "other 2", "other 3", "_other 2", "__other 2", "other 4", "x y",
         "é", "10", "9", "A\"q"]


def gen_string(rng, nmax):
    n = rng.randrange(1, nmax + 1)
    ft = rng.choice(["str", "str", "str", "cat", "cat", "cat", "enum", "enum", "strnull", "catnull"])
    ncat = rng.randrange(1, 9)
    if rng.random() < 0.08:
        # many categories: the pooled count k becomes 10, 12, 20, 100, 120, 1000, 1234, ... (label formatting)
        ncat = rng.choice([11, 12, 13, 21, 22, 31, 101, 102, 121])
        pool = [f"c{i:04d}" for i in range(ncat)]
        n = max(n, ncat)
        vals = list(pool) + [pool[0]] * (n - ncat) + [pool[0], pool[1]]
        rng.shuffle(vals)
        ft = rng.choice(["str", "cat"])
        return dict(ftype=ft, n_bins=rng.choice([2, 3]), method="quantile", values=vals)
    pool = rng.sample(WORDS, ncat)
    skew = rng.choice(["uniform", "zipf", "ties", "ties"])
    if skew == "uniform":
        vals = [rng.choice(pool) for _ in range(n)]
    elif skew == "zipf":
        wts = [1.0 / (i + 1) ** 2 for i in range(ncat)]
        vals = rng.choices(pool, weights=wts, k=n)
    else:
        vals = [pool[i % ncat] for i in range(n)]
        rng.shuffle(vals)
    pnull = rng.choice([0, 0, 0.2])
    vals = [None if rng.random() < pnull else v for v in vals]
    d = dict(ftype=ft, n_bins=rng.choice([2, 2, 2, 3, 3, 3, 4, 5, 6]), method=rng.choice(["quantile", "sturges", "uniform"]))
    if ft in ("strnull", "catnull"):
        vals = [None] * n
    if ft == "str" and all(v is None for v in vals):
        ft = d["ftype"] = "strnull"        # a python list of None is a Null-typed (numeric path) column
    if ft == "enum":
        cats = list(pool) + rng.sample([w for w in WORDS if w not in pool], rng.randrange(0, 2))
        rng.shuffle(cats)
        d["enum_cats"] = cats
    d["values"] = vals
    return d


def gen_malformed(rng, nmax):
    d = gen_numeric(rng, nmax) if rng.random() < 0.5 else gen_string(rng, nmax)
    d["n_bins"] = rng.choice([0, 1])
    return d


def gen_case(rng, nmax):
    r = rng.random()
    if r < 0.03:
        return gen_malformed(rng, nmax)
    if r < 0.62:
        return gen_numeric(rng, nmax)
    return gen_string(rng, nmax)


FIXED = [
    dict(ftype="float", values=["nan", None], n_bins=3, method="uniform"),
    dict(ftype="float", values=["inf", "-inf"], n_bins=3, method="uniform"),
    dict(ftype="float", values=["inf", "-inf", "inf"], n_bins=3, method="quantile"),
    dict(ftype="float", values=["inf", "inf"], n_bins=3, method="auto"),
    dict(ftype="float", values=[1.0, "inf", "-inf", 2.0, 3.0], n_bins=3, method="uniform"),
    dict(ftype="float", values=[2.0, 2.0, 2.0], n_bins=3, method="sturges"),
    dict(ftype="str", values=["a", "a", "other 3", "b", "c"], n_bins=2, method="quantile"),
    dict(ftype="str", values=["a", "_other 2", "b", "c", "other 2", "other 2", "_other 2"], n_bins=3, method="quantile"),
    dict(ftype="enum", values=["a", "a", "b", "c"], enum_cats=["c", "b", "a"], n_bins=2, method="quantile"),
    dict(ftype="enum", values=["a", "a", "b", "c"], enum_cats=["c", "b", "a"], n_bins=3, method="quantile"),
    dict(ftype="cat", values=["b", "a", "c", None], n_bins=2, method="quantile"),
    dict(ftype="bool", values=[True, False, True], n_bins=3, method="sturges"),
    dict(ftype="bool", values=[True, False, None], n_bins=3, method="quantile"),
]


def minimise(d, fails):
    cur = dict(d)
    changed = True
    while changed and len(cur["values"]) > 1:
        changed = False
        for i in range(len(cur["values"])):
            c = dict(cur)
            c["values"] = cur["values"][:i] + cur["values"][i + 1:]
            if not c["values"]:
                continue
            try:
                if fails(c):
                    cur, changed = c, True
                    break
            except Exception:  # noqa: BLE001
                pass
    return cur


def clause_class(cl):
    """coarse class of a clause text, so that the minimiser keeps the same kind of failure"""
    if cl.startswith("inf_only: "):
        return "inf_only: " + clause_class(cl[len("inf_only: "):])
    if "not accepted" in cl:
        ft = cl.split("not accepted: ")[1].split(" column")[0]
        ft = {"float32": "float", "boolnp": "bool", "intnp": "int", "catnull": "cat", "strnull": "str"}.get(ft, ft)
        return "not accepted: " + ft + "/" + cl.split(" raised ")[1].split(":")[0]
    for key in ("collides", "NaN", "not inside", "monotone", "groups >", "pooled k", "label", "less frequent", "tie"):
        if key in cl:
            return key
    return cl


def report(found, d, bad, obs):
    for cl in bad:
        k = clause_class(cl)
        if k not in found or len(d["values"]) < len(found[k]["case"]["values"]):
            found[k] = dict(case=dict(d, inf_only=True) if cl.startswith("inf_only: ") else d, clauses=bad,
                            observed=obs if obs[0] == "err" else list(obs[:2]) + [obs[2][:12]])
        found[k]["count"] = found[k].get("count", 0) + 1 if found[k]["case"] is not d else found[k].get("count", 0) + 1


def finalise(found):
    out = []
    for k, f in found.items():
        m = minimise(f["case"], lambda c: k in {clause_class(x) for x in judge_case(c)})
        m = {x: v for x, v in m.items() if x != "inf_only"}
        cl = judge_case(m)
        if any(c.startswith("inf_only: ") for c in cl):
            m = dict(m, inf_only=True)
        out.append(dict(case=m, clauses=cl, observed=run_impl(m), clause_class=k))
    return out


def main():
    mode = sys.argv[1]
    if mode == "corr":
        outdir, prefix, seed, ncases, nmax = sys.argv[2], sys.argv[3], int(sys.argv[4]), int(sys.argv[5]), int(sys.argv[6])
        rng = random.Random(seed)
        dicts = [dict(x) for x in FIXED] + [gen_case(rng, nmax) for _ in range(ncases)]
        cases, stats, samples, pf = [], {}, [], {}
        for d in dicts:
            obs = run_impl(d)
            cases.append(coq_case(d, obs))
            key = f"{d['ftype']}/{'numpy' if d['method'] in NUMPY_RULES else d['method']}" if not is_string_type(d["ftype"]) else d["ftype"]
            stats[key] = stats.get(key, 0) + 1
            stats["errors"] = stats.get("errors", 0) + (obs[0] == "err")
            report(pf, d, judge_case(d, obs), obs)
            if len(samples) < 3 and len(d["values"]) >= 5 and obs[0] != "err":
                samples.append(dict(case=d, observed=[obs[0], obs[1], obs[2][:8]]))
        os.makedirs(outdir, exist_ok=True)
        paths = []
        for k, sh in enumerate(shard(cases, 400)):
            p = os.path.join(outdir, f"{prefix}_{k}.v")
            body = "Definition cases : list bcase := [\n  " + ";\n  ".join(sh) + "\n]."
            write_case_file(p, "From Coq Require Import String.\nFrom MD Require Import model.Binning corr.Decode corr.CmpBinning.", body, "summary cases")
            paths.append(p)
        json.dump(dicts, open(os.path.join(outdir, prefix + "_cases.json"), "w"))
        stats["cases"] = len(cases)
        print(json.dumps(dict(paths=paths, shard_size=400, stats=stats, samples=samples,
                              property_failures=list(pf.values()))))
    elif mode == "judge":
        ds = json.load(open(sys.argv[2]))
        found = {}
        for d in ds:
            obs = run_impl(d)
            report(found, d, judge_case(d, obs), obs)
        print(json.dumps(dict(failures=finalise(found))))
    elif mode == "search":
        seed, budget = int(sys.argv[2]), int(sys.argv[3])
        found, tried = {}, 0

        def consider(d):
            nonlocal tried
            tried += 1
            obs = run_impl(d)
            report(found, d, judge_case(d, obs), obs)

        # exhaustive small spaces
        alpha = [0.0, 1.0, 2.0, "inf", "-inf", "nan"]
        for n in range(1, 4):
            for vals in itertools.product(alpha, repeat=n):
                for m in ("quantile", "uniform", "sturges"):
                    for nb in (2, 3):
                        if tried < budget // 2:
                            consider(dict(ftype="float", values=list(vals), n_bins=nb, method=m))
        salpha = ["a", "b", "c", "other 2", "other 3", None]
        for n in range(1, 6):
            for vals in itertools.product(salpha, repeat=n):
                if tried >= (3 * budget) // 4:
                    break
                for ft in ("str", "cat"):
                    consider(dict(ftype=ft, values=list(vals), n_bins=2 + (n % 2), method="quantile"))
                if all(v in ("a", "b", "c", None) for v in vals):
                    consider(dict(ftype="enum", enum_cats=["c", "a", "b"], values=list(vals), n_bins=2, method="quantile"))
        for vals in itertools.product([True, False, None], repeat=3):
            for m in ("quantile", "uniform", "sturges"):
                consider(dict(ftype="bool", values=list(vals), n_bins=3, method=m))
        rng = random.Random(seed)
        while tried < budget:
            consider(gen_case(rng, 12))
        print(json.dumps(dict(tried=tried, failures=finalise(found))))
    else:
        raise SystemExit("mode?")


if __name__ == "__main__":
    main()
