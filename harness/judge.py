"""Exact (fractions.Fraction) evaluation of the properties' own statements on an
implementation output.  Used only after an obligation broke, to look for a
concrete input on which the *property* (not the model) fails."""
from fractions import Fraction
import math


def F(v):
    return v if isinstance(v, Fraction) else Fraction(v)


def close(a, b, tol=1e-9):
    return abs(float(a) - float(b)) <= tol * (1 + abs(float(a)))


# ------------------------------------------------------------ exact functionals
def wmean(ys, ws):
    return sum(w * y for y, w in zip(ys, ws)) / sum(ws)


def qlow(ys, a):
    n = len(ys)
    for t in sorted(ys):
        if sum(1 for y in ys if y <= t) >= a * n:
            return t


def qupp(ys, a):
    return -qlow([-y for y in ys], 1 - a)


def expectile(ys, ws, a):
    for c in sorted(set(ys)):
        num = sum(w * ((1 - a) if y <= c else a) * y for y, w in zip(ys, ws))
        den = sum(w * ((1 - a) if y <= c else a) for y, w in zip(ys, ws))
        t = num / den
        if all((y <= c) == (y <= t) for y in ys):
            return t
    raise AssertionError("no expectile")


# -------------------------------------------- exact isotonic fit by max-min
def maxmin_fit(ys, ws, fun):
    """x_i = max_{a<=i} min_{b>=i} fun(y[a..b], w[a..b]) -- the textbook formula."""
    n = len(ys)
    T = [[None] * n for _ in range(n)]
    for a in range(n):
        for b in range(a, n):
            T[a][b] = fun(ys[a:b + 1], ws[a:b + 1])
    return [max(min(T[a][b] for b in range(i, n)) for a in range(i + 1)) for i in range(n)]


def pinball(ys, xs, a):
    return sum(((1 if x >= y else 0) - a) * (x - y) for y, x in zip(ys, xs))


def pinball_optimum(ys, a):
    """minimum total pinball loss over non-decreasing sequences (DP over data values)"""
    vals = sorted(set(ys))
    best = [Fraction(0)] * len(vals)
    for y in ys:
        cost = [((1 if v >= y else 0) - a) * (v - y) for v in vals]
        new, m = [], None
        for k in range(len(vals)):
            m = best[k] if m is None else min(m, best[k])
            new.append(m + cost[k])
        best = new
    return min(best)


def blocks_of(xs):
    r = [0]
    for i in range(1, len(xs)):
        if xs[i] != xs[i - 1]:
            r.append(i)
    r.append(len(xs))
    return r


def judge_iso(y, w, inc, functional, level, obs):
    """Returns the list of property clauses (C01/C02/C03/C12) violated by the
    implementation output `obs` = ('ok', x, r) on exact inputs; [] if none."""
    bad = []
    if obs[0] != "ok":
        return [f"raised {obs[0]} on valid input"]
    x, r = obs[1], obs[2]
    n = len(y)
    ys = [F(v) for v in y]
    ws = [F(1)] * n if w is None else [F(v) for v in w]
    if not inc:
        ys, ws, x = ys[::-1], ws[::-1], x[::-1]
        r = [r[-1] - k for k in r[::-1]]
    if len(x) != n:
        return ["length"]
    if any(x[i] > x[i + 1] + 1e-12 * (1 + abs(x[i])) for i in range(n - 1)):
        bad.append("not monotone")
    lo, hi = float(min(ys)), float(max(ys))
    if any(v < lo - 1e-9 * (1 + abs(lo)) or v > hi + 1e-9 * (1 + abs(hi)) for v in x):
        bad.append("outside [min,max]")
    if r[0] != 0 or r[-1] != n or any(r[i] >= r[i + 1] for i in range(len(r) - 1)):
        bad.append("block vector not 0..n strictly increasing")
    else:
        for j in range(len(r) - 1):
            if any(x[i] != x[r[j]] for i in range(r[j], r[j + 1])):
                bad.append("values not constant inside a block")
                break
        # the implementation merges blocks whenever the float values compare equal, so
        # adjacent blocks of its own output must differ as floats
        if any(x[r[j]] == x[r[j + 1]] for j in range(len(r) - 2)):
            bad.append("adjacent blocks carry equal values")
    if functional == "median":
        functional, level = "quantile", 0.5
    a = Fraction(str(level))
    if functional == "mean":
        ref = maxmin_fit(ys, ws, wmean)
    elif functional == "expectile":
        ref = maxmin_fit(ys, ws, lambda yy, ww: expectile(yy, ww, a))
    else:
        ref = None
    if ref is not None:
        if any(not close(p, q) for p, q in zip(ref, x)):
            bad.append("differs from the max-min / unique optimal fit")
        rr = blocks_of(ref)
        # adjacent blocks must differ: r must be exactly the blocks of the exact fit,
        # unless neighbouring exact values are within rounding distance
        if r != rr and "block vector not 0..n strictly increasing" not in bad:
            amb = all((k in r and k in rr) or (0 < k < n and close(ref[k - 1], ref[k], 1e-7)) for k in set(r) | set(rr))
            if not amb:
                bad.append("block vector is not the set of maximal constant runs")
    else:
        xs = [F(v) for v in x]
        opt = pinball_optimum(ys, a)
        got = pinball(ys, xs, a)
        if float(got - opt) > 1e-9 * (1 + abs(float(opt))):
            bad.append("pinball loss above the optimum")
        lower = maxmin_fit(ys, ws, lambda yy, ww: qlow(yy, a))
        upper = maxmin_fit(ys, ws, lambda yy, ww: qupp(yy, a))
        if any(float(xv) < float(l) - 1e-9 * (1 + abs(float(l))) or float(xv) > float(u) + 1e-9 * (1 + abs(float(u)))
               for xv, l, u in zip(xs, lower, upper)):
            bad.append("outside [smallest, largest optimal solution]")
        rr = blocks_of(x)
        if r != rr and "block vector not 0..n strictly increasing" not in bad:
            bad.append("adjacent blocks do not differ")
    return bad
