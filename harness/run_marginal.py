"""Correspondence / judge / search harness for `compute_marginal` (C10).

  run_marginal.py corr   <outdir> <prefix> <seed> <ncases> <nmax>
  run_marginal.py judge  <cases.json>
  run_marginal.py search <seed> <budget>

A case is a JSON-able dict
  {"y": [...], "models": [[...], ...], "two_d": bool, "w": None | [...],
   "feat": None | <run_binning case dict (ftype, values, n_bins, method, enum_cats)>,      # the feature COLUMN of X
   "X": None | {"container": "f64"|"i64"|"list"|"polars", "others": [[...] per row], "j": int, "by": "index"|"name"},
   "pd": None | {"pred": <run_pd predictor dict>, "n_max": int (optional), "seed": int (optional)}}
The feature is column j of X (the other columns are `others`), extracted by compute_marginal itself through
feature_name (an int index or a column name).  The predictor is data (the family of run_pd.py):
    f(row) = c0 + sum_k cs[k]*row[k] + d*row[a]*row[b] + (h if row[s] <= t else 0)
evaluated EXACTLY (Fractions) on the ENCODED rows of whatever container the real function hands over: a
category is its rank in the natural order (the table `codes(fd)`), null / NaN is NULLQ, a label that is not a
category of the feature (the pooled "other n") is OTHER.  A recorder stores every row (raw and encoded).

The Coq comparison uses the rule of the code as it is (since /repo fix 7801489: the pooled row is the row whose
value the feature never takes).  Environment: MARG_RULE=ByLastLabel compares against the OLD rule instead ("last row
iff its label contains 'other '"), which shows the former findings D4 / D5 / null-label TypeError as
correspondence failures.  The tags "pooled_shown", "real_other_lost_pd", "null_label_typeerror" in a failing case
only recognise a regression to those repaired defects; such inputs are ordinary valid inputs of the judge."""
import copy
import itertools
import json
import math
import os
import random
import re
import sys
import warnings
from fractions import Fraction

warnings.filterwarnings("ignore")

import numpy as np
import polars as pl

from model_diagnostics.calibration import compute_bias, compute_marginal

import run_bias as rbias
import run_binning as rb
import run_pd as rp
from common import natlist, qlit, qlist, shard, write_case_file

np.seterr(all="ignore")

NULLQ = -7.5
OTHER = -9.25
TOL = 1e-9
F = Fraction
STAT_COLS = ("model", "y_obs_mean", "y_pred_mean", "y_obs_stderr", "y_pred_stderr", "count", "weights",
             "bin_edges", "partial_dependence")
RULE = os.environ.get("MARG_RULE", "ByBin")


# ------------------------------------------------------------------ containers
def is_str(fd):
    return fd is not None and rb.is_string_type(fd["ftype"])


def codes(fd):
    return {s: i for i, s in enumerate(rb.natural_names(fd))}


def feature_cells(fd):
    """the column as python values for the list / ndarray containers"""
    if is_str(fd):
        return list(fd["values"])
    out = []
    for v in fd["values"]:
        v = rb.dec(v)
        if fd["ftype"] == "float":
            out.append(math.nan if v is None else float(v))
        else:
            out.append(v)
    return out


def polars_feature(fd):
    if is_str(fd):
        return rb.build_feature(fd)
    ft, vals = fd["ftype"], [rb.dec(v) for v in fd["values"]]
    if ft == "float":
        return pl.Series(vals, dtype=pl.Float64, strict=False)
    if ft in ("int", "intnp"):
        return pl.Series(vals, dtype=pl.Int64)
    return rb.build_feature(fd)


def build_X(d):
    fd, xd = d["feat"], d["X"]
    if xd is None:
        return None
    c, j, others = xd["container"], xd["j"], xd["others"]
    n = len(d["y"])
    p = len(others[0]) + 1 if others else 1
    if fd is None:
        col = [0.0] * n
    elif c == "polars":
        col = None
    else:
        col = feature_cells(fd)

    def rows():
        return [list(others[i][:j]) + [col[i]] + list(others[i][j:]) for i in range(n)]
    if c == "f64":
        return np.array(rows(), dtype=np.float64).reshape(n, p)
    if c == "i64":
        return np.array(rows(), dtype=np.int64).reshape(n, p)
    if c == "list":
        return rows()
    if c == "polars":
        cols = {}
        k = 0
        for pos in range(p):
            if pos == j:
                cols[f"x{pos}"] = polars_feature(fd) if fd is not None else pl.Series([0.0] * n)
            else:
                cols[f"x{pos}"] = pl.Series([float(others[i][k]) for i in range(n)], dtype=pl.Float64)
                k += 1
        return pl.DataFrame(cols)
    raise ValueError(c)


def feature_name_arg(d):
    if d["feat"] is None:
        return None
    xd = d["X"]
    if xd["by"] == "index":
        return xd["j"]
    return f"x{xd['j']}" if xd["container"] == "polars" else str(xd["j"])


def enc_cell(v, code):
    if v is None:
        return F(NULLQ)
    if isinstance(v, str):
        return F(code[v]) if v in code else F(OTHER)
    if isinstance(v, float) and math.isnan(v):
        return F(NULLQ)
    return F(v)


def encoded_X(d):
    """the matrix of the Coq case: rows of exact numbers"""
    fd, xd = d["feat"], d["X"]
    n = len(d["y"])
    j = xd["j"]
    if fd is None:
        col = [F(0)] * n
    elif is_str(fd):
        code = codes(fd)
        col = [F(NULLQ) if v is None else F(code[v]) for v in fd["values"]]
    else:
        col = [F(NULLQ) if c is None else F(c) for c in rb.numeric_cells(fd)]
    return [[F(v) for v in xd["others"][i][:j]] + [col[i]] + [F(v) for v in xd["others"][i][j:]] for i in range(n)]


class Recorder:
    def __init__(self, ps, code, j):
        self.ps, self.code, self.j = ps, code, j
        self.calls, self.raw = [], []

    def __call__(self, Z):
        rows = rp.to_rows(Z)
        enc = [[enc_cell(v, self.code) for v in r] for r in rows]
        self.calls.append(enc)
        self.raw.append([r[self.j] for r in rows])
        return np.array([float(rp.pred_exact(self.ps, r)) for r in enc], dtype=np.float64)


def draw_indices(d):
    pdd = d["pd"]
    n = len(d["y"])
    n_max = pdd.get("n_max", 1000) if pdd else 1000
    if n_max is not None and n > n_max:
        return [int(i) for i in np.random.default_rng(pdd.get("seed")).choice(n, size=n_max, replace=False)]
    return None


# ------------------------------------------------------------------ running
def call_impl(d):
    n = len(d["y"])
    y = np.array(d["y"], dtype=float)
    cols = d["models"]
    z = np.array(cols[0], dtype=float) if len(cols) == 1 and not d.get("two_d") else np.array(cols, dtype=float).T
    w = None if d["w"] is None else np.array(d["w"], dtype=float)
    fd = d["feat"]
    kw = {}
    if fd is not None:
        kw.update(n_bins=fd["n_bins"], bin_method=fd["method"])
    rec = None
    if d["pd"] is not None:
        rec = Recorder(d["pd"]["pred"], codes(fd) if is_str(fd) else {}, d["X"]["j"] if d["X"] else 0)
        if "n_max" in d["pd"]:
            kw["n_max"] = d["pd"]["n_max"]
        if d["pd"].get("seed") is not None:
            kw["rng"] = d["pd"]["seed"]
    X, fname = build_X(d), feature_name_arg(d)          # harness errors propagate
    try:
        df = compute_marginal(y_obs=y, y_pred=z, X=X, feature_name=fname, predict_function=rec, weights=w, **kw)
    except Exception as e:  # noqa: BLE001
        return ("err", type(e).__name__, str(e)[:160]), rec
    return df, rec


def fnum(v):
    return None if v is None else float(v)


def df_tables(df):
    """-> per model: list of row dicts {cell, om, pm, ose, pse, count, weights, edges, pd}"""
    fcol = None
    for c in df.columns:
        if c not in STAT_COLS:
            fcol = c
    rows = df.to_dicts()
    blocks = []
    if "model" in df.columns:
        order = []
        for r in rows:
            if r["model"] not in order:
                order.append(r["model"])
        for m in order:
            blocks.append([r for r in rows if r["model"] == m])
    else:
        blocks.append(rows)
    out = []
    for tab in blocks:
        t = []
        for r in tab:
            cell = ("none",) if fcol is None else (("null",) if r[fcol] is None else
                                                   (("label", str(r[fcol])) if isinstance(r[fcol], str) else ("num", float(r[fcol]))))
            edges = "absent"
            if "bin_edges" in r:
                e = r["bin_edges"]
                edges = None if e is None else [fnum(x) for x in e]
            pdv = "absent"
            if "partial_dependence" in r:
                pdv = fnum(r["partial_dependence"])
            t.append(dict(cell=list(cell), om=float(r["y_obs_mean"]), pm=float(r["y_pred_mean"]), ose=float(r["y_obs_stderr"]),
                          pse=float(r["y_pred_stderr"]), count=int(r["count"]), weights=float(r["weights"]), edges=edges, pd=pdv))
        out.append(t)
    return out


def run_impl(d):
    """-> ("ok", tables, seen (encoded first call | None), raw (labels shown, all calls), ncalls) | ("err", class, msg)"""
    df, rec = call_impl(d)
    if isinstance(df, tuple):
        return df
    tabs = df_tables(df)
    if rec is None or not rec.calls:
        return ("ok", tabs, None, [], 0)
    return ("ok", tabs, rec.calls[0], [v for c in rec.raw for v in c], len(rec.calls),
            all(c == rec.calls[0] for c in rec.calls))


# ------------------------------------------------------------------ Coq encoding
def coq_feat(fd):
    if fd is None:
        return "MFNone"
    if is_str(fd):
        names = rb.natural_names(fd)
        code = codes(fd)
        kind = {"str": "SString", "strnull": "SString", "cat": "SCategorical", "catnull": "SCategorical", "enum": "SEnum"}[fd["ftype"]]
        feat = "[" + "; ".join("None" if v is None else f"Some {code[v]}%nat" for v in fd["values"]) + "]"
        return f"(MFStr {kind} [{'; '.join(rb.slit(s) for s in names)}] {feat})"
    cells = rb.numeric_cells(fd)
    feat = "[" + "; ".join("None" if c is None else f"Some {qlit(c)}" for c in cells) + "]"
    m = rb.METHOD_COQ.get(fd["method"], "NumpyRule")
    return f"(MFNum {feat} {m} {qlist(rb.interior_edges(fd))})"


def optq(v):
    return "None" if v is None or math.isnan(v) or math.isinf(v) else f"(Some {qlit(v)})"


def qmatrix(rows):
    return "[" + "; ".join(qlist(r) for r in rows) + "]"


def coq_row(r):
    c = r["cell"]
    cell = {"none": "OCNone", "null": "OCNull"}.get(c[0]) or (f"(OCNum {qlit(c[1])})" if c[0] == "num" else f"(OCLabel {rb.slit(c[1])})")
    e = r["edges"]
    if e == "absent":
        edges = "OEAbsent"
    elif e is None or any(x is None for x in e):
        edges = "OENull" if (e is None or all(x is None for x in e)) else "OEAbsent"
    else:
        edges = f"(OE {qlit(e[0])} {qlit(e[1])} {qlit(e[2])})"
    p = r["pd"]
    pdv = "OPAbsent" if p == "absent" else ("OPNull" if p is None or math.isnan(p) else f"(OPVal {qlit(p)})")
    return (f"mkor {cell} {optq(r['om'])} {optq(r['pm'])} {optq(r['ose'])} {optq(r['pse'])} {r['count']}%nat "
            f"{qlit(r['weights'])} {edges} {pdv}")


ERR_COQ = {"ValueError": "(OBErr EValueError)", "InvalidOperationError": "(OBErr EInvalidOp)",
           "ZeroDivisionError": "OBPdZeroDivision", "IndexError": "OBPdIndexError"}


def coq_case(d, obs):
    if obs[0] == "err":
        if obs[1] == "TypeError" and "NoneType" in obs[2]:
            o = "OBNullLabel"
        else:
            o = ERR_COQ.get(obs[1], "OBOther")
    else:
        per_model = "[" + "; ".join("[" + "; ".join(coq_row(r) for r in tab) + "]" for tab in obs[1]) + "]"
        seen = "None" if obs[2] is None else f"(Some {qmatrix(obs[2])})"
        o = f"(OBRows {per_model} {seen})"
    w = "None" if d["w"] is None else f"(Some {qlist(d['w'])})"
    nb = d["feat"]["n_bins"] if d["feat"] is not None else 10
    models = "[" + "; ".join(qlist(m) for m in d["models"]) + "]"
    if d["pd"] is None or d["X"] is None:
        pdt = "None"
    else:
        ps = d["pd"]["pred"]
        pred = (f"(mkmpred {qlit(ps['c0'])} {qlist(ps['cs'])} {qlit(ps['d'])} {ps['a']}%nat {ps['b']}%nat "
                f"{qlit(ps['h'])} {ps['s']}%nat {qlit(ps['t'])})")
        nm = d["pd"].get("n_max", 1000)
        nmt = "None" if nm is None else f"(Some {nm}%nat)"
        idx = draw_indices(d) or []
        pdt = (f"(Some ({pred}, mkpdin {qmatrix(encoded_X(d))} {d['X']['j']}%nat {qlit(NULLQ)} {qlit(OTHER)} "
               f"{nmt} {natlist(idx)}))")
    return f"mkmc {qlist(d['y'])} {models} {coq_feat(d['feat'])} {nb}%nat {w} {pdt} {o}"


# ------------------------------------------------------------------ the property statement
def close(a, b, tol=TOL):
    if a is None or b is None:
        return a is None and b is None
    if math.isnan(a) or math.isnan(b):
        return math.isnan(a) and math.isnan(b)
    return abs(a - b) <= tol * (1 + abs(a))


def exact_stat(vs, ws):
    n = len(vs)
    tw = sum(ws)
    if tw == 0:
        return dict(defined=False, count=n, weights=tw)
    mean = sum(w * v for v, w in zip(vs, ws)) / tw
    var = sum(w * (v - mean) ** 2 for v, w in zip(vs, ws)) / tw
    se2 = var / (n - 1) if n > 1 else var
    return dict(defined=True, mean=mean, count=n, weights=tw, se2=se2)


def bias_reference(d, mi):
    """the REAL compute_bias on the same call (same feature column, weights, binning arguments)"""
    y = np.array(d["y"], dtype=float)
    z = np.array(d["models"][mi], dtype=float)
    w = None if d["w"] is None else np.array(d["w"], dtype=float)
    fd = d["feat"]
    if fd is None:
        df = compute_bias(y_obs=y, y_pred=z, feature=None, weights=w, functional="mean")
    else:
        X = build_X(d)
        j = d["X"]["j"]
        if isinstance(X, pl.DataFrame):
            feature = X[:, j]
        elif isinstance(X, np.ndarray):
            feature = X[:, j]
        else:
            feature = np.array([r[j] for r in X])
        df = compute_bias(y_obs=y, y_pred=z, feature=feature, weights=w, functional="mean",
                          n_bins=fd["n_bins"], bin_method=fd["method"])
    return [float(v) for v in df.get_column("bias_mean").to_list()]


def judge_case(d, obs=None, deep=True):
    """evaluates the text of C10 on the implementation; -> (violated clauses, tags)"""
    tags = {}
    if obs is None:
        obs = run_impl(d)
    fd = d["feat"]
    args_bad = fd is not None and fd["n_bins"] < 2
    if obs[0] == "err":
        if args_bad and obs[1] == "ValueError":
            return [], tags
        vals = [] if fd is None else [v for v in fd["values"] if v is not None]
        if is_str(fd) and d["pd"] is not None and obs[1] == "TypeError" and "NoneType" in obs[2] and not vals:
            tags["null_label_typeerror"] = True
            return [f"exception on a valid input (all-null string feature with predict_function): {obs[1]}: {obs[2]}"], tags
        if is_str(fd) and d["pd"] is not None and len(set(vals)) == 1 and "other " in vals[0]:
            tags["real_other_lost_pd"] = True
            return [f"exception on a valid input (the only category {vals[0]!r} is taken for the pooled one): {obs[1]}: {obs[2]}"], tags
        ft = "none" if fd is None else fd["ftype"]
        return [f"exception on a valid input: {ft} feature raised {obs[1]}: {obs[2]}"], tags
    if args_bad:
        return ["invalid arguments accepted"], tags
    bad = []
    n = len(d["y"])
    try:
        groups = rbias.group_rows(dict(y=d["y"], feat=fd))
    except Exception as e:  # noqa: BLE001
        return [f"binning helper raised {type(e).__name__} but compute_marginal returned"], tags
    if groups == ("nan",):
        return ["bins with NaN edges"], tags
    ws = [F(1)] * n if d["w"] is None else [F(w) for w in d["w"]]
    tw = sum(ws)
    tabs = obs[1]
    if len(tabs) != len(d["models"]):
        return [f"{len(tabs)} model blocks for {len(d['models'])} models"], tags
    cells = None if fd is None or is_str(fd) else rb.numeric_cells(fd)
    real = set() if not is_str(fd) else {v for v in fd["values"] if v is not None}
    has_null = fd is not None and any((v is None) for v in (fd["values"] if is_str(fd) else cells))
    idx = None
    if d["pd"] is not None and fd is not None:
        idx = draw_indices(d)
        idx = list(range(n)) if idx is None else idx
        EX = encoded_X(d)
        j = d["X"]["j"]
        ps = d["pd"]["pred"]
        code = codes(fd) if is_str(fd) else {}

        def direct(v):
            tot = sum((ws[i] * rp.pred_exact(ps, EX[i][:j] + [v] + EX[i][j + 1:]) for i in idx), F(0))
            return tot / sum((ws[i] for i in idx), F(0))
    if is_str(fd) and tabs and len(tabs[0]) == len(groups):
        # pooling as seen in the table: a label that is no category of the feature stands for the pooled ones, it is
        # named 'other k' with k = number of categories without a row of their own, and pooling a single category is none
        labels = [r["cell"][1] for r in tabs[0] if r["cell"][0] == "label"]
        pooled = [lb for lb in labels if lb not in real]
        missing = sorted(real - set(labels))
        if len(pooled) > 1:
            bad.append(f"several labels that are no category of the feature: {pooled}")
        elif pooled:
            mm = re.search(r"other (\d+)$", str(pooled[0]))
            kk = int(mm.group(1)) if mm else None
            if kk is None or kk < 2 or kk != len(missing):
                bad.append(f"pooled row {pooled[0]!r} although {len(missing)} categories {missing} have no row of their own "
                           f"(k >= 2 and k = number of pooled categories expected; a real feature value loses its row and its partial dependence)")
        elif missing:
            bad.append(f"categories {missing} have no row and there is no pooled row")
    for mi, tab in enumerate(tabs):
        if len(tab) != len(groups):
            bad.append(f"{len(tab)} output rows for {len(groups)} groups")
            continue
        ys = [F(v) for v in d["y"]]
        zs = [F(v) for v in d["models"][mi]]
        try:
            bref = bias_reference(d, mi)
        except Exception as e:  # noqa: BLE001
            bref = None
            bad.append(f"compute_bias raised {type(e).__name__} on the same call")
        if bref is not None and len(bref) != len(tab):
            bad.append(f"compute_bias returns {len(bref)} rows, compute_marginal {len(tab)}")
            bref = None
        prev_upper = None
        nonnull_rows = [r for r in tab if r["cell"][0] != "null"]
        for k, (r, (lab, members)) in enumerate(zip(tab, groups)):
            so = exact_stat([ys[i] for i in members], [ws[i] for i in members])
            sp = exact_stat([zs[i] for i in members], [ws[i] for i in members])
            if fd is not None and (lab is None) != (r["cell"][0] == "null"):
                bad.append("null group misplaced")
            if is_str(fd) and lab is not None and (r["cell"][0] != "label" or r["cell"][1] != lab):
                bad.append(f"row label {r['cell']!r} where group {lab!r} is expected (order)")
            if r["count"] != so["count"]:
                bad.append(f"count {r['count']} != {so['count']} rows of group {lab!r}")
            if not close(float(so["weights"]), r["weights"]):
                bad.append(f"weights {r['weights']} != {float(so['weights'])} of group {lab!r}")
            if so["defined"]:
                if not close(float(so["mean"]), r["om"]):
                    bad.append(f"y_obs_mean {r['om']} != weighted mean {float(so['mean'])} on group {lab!r}")
                if not close(float(sp["mean"]), r["pm"]):
                    bad.append(f"y_pred_mean {r['pm']} != weighted mean {float(sp['mean'])} on group {lab!r}")
                if math.isnan(r["ose"]) or not close(float(so["se2"]), r["ose"] ** 2):
                    bad.append(f"y_obs_stderr^2 {r['ose'] ** 2} != definition {float(so['se2'])} on group {lab!r}")
                if math.isnan(r["pse"]) or not close(float(sp["se2"]), r["pse"] ** 2):
                    bad.append(f"y_pred_stderr^2 {r['pse'] ** 2} != definition {float(sp['se2'])} on group {lab!r}")
                if bref is not None and not close(bref[k], r["pm"] - r["om"], 1e-8):
                    bad.append(f"y_pred_mean - y_obs_mean = {r['pm'] - r['om']} != compute_bias bias_mean {bref[k]} on group {lab!r}")
            # bin edges
            if cells is not None:
                e = r["edges"]
                if lab is None:
                    if e != "absent" and e is not None and any(x is not None for x in e):
                        bad.append("null group with bin edges")
                elif e == "absent" or e is None or any(x is None or math.isnan(x) for x in e):
                    bad.append(f"bin_edges missing / NaN for bin {lab!r}")
                else:
                    lo, sd, hi = e
                    vals = [cells[i] for i in members]
                    first = nonnull_rows and r is nonnull_rows[0]
                    for v in vals:
                        if not ((F(lo) <= v if first else F(lo) < v) and v <= F(hi)):
                            bad.append(f"member {float(v)} not inside reported bin ({lo}, {hi}]")
                            break
                    m = sum(vals) / len(vals)
                    var0 = sum((v - m) ** 2 for v in vals) / len(vals)
                    if not close(float(var0), sd * sd):
                        bad.append(f"bin_edges[1]^2 = {sd * sd} != variance of the members' feature values {float(var0)}")
                    if prev_upper is not None and not (F(prev_upper) <= F(lo)):
                        bad.append(f"bins overlap: upper {prev_upper} > next lower {lo}")
                    prev_upper = hi
                    nn = [c for c in cells if c is not None]
                    if first and F(lo) != min(nn):
                        bad.append(f"first lower edge {lo} != feature minimum {float(min(nn))}")
                    if r is nonnull_rows[-1] and F(hi) != max(nn):
                        bad.append(f"last upper edge {hi} != feature maximum {float(max(nn))}")
            # partial dependence
            if idx is not None:
                if r["pd"] == "absent":
                    bad.append("partial_dependence column missing")
                elif is_str(fd):
                    if lab is not None and lab in real:
                        if r["pd"] is None or math.isnan(r["pd"]):
                            bad.append(f"partial dependence of the real category {lab!r} is null")
                            tags["real_other_lost_pd"] = True
                        elif not close(float(direct(F(code[lab]))), r["pd"]):
                            bad.append(f"partial dependence at {lab!r} is {r['pd']}, directly computed {float(direct(F(code[lab])))}")
                elif lab is not None and r["cell"][0] == "num":
                    v = F(r["cell"][1])
                    if r["pd"] is None or math.isnan(r["pd"]):
                        bad.append(f"partial dependence at feature value {r['cell'][1]} is null")
                    elif not close(float(direct(v)), r["pd"]):
                        bad.append(f"partial dependence at {r['cell'][1]} is {r['pd']}, directly computed {float(direct(v))}")
        if sum(r["count"] for r in tab) != n:
            bad.append(f"counts sum to {sum(r['count'] for r in tab)} != {n} rows")
        if not close(float(tw), sum(r["weights"] for r in tab)):
            bad.append("weights do not sum to the total weight")
        if fd is not None:
            nnull = sum(1 for v in (fd["values"] if is_str(fd) else cells) if v is None)
            null_rows = [r for r in tab if r["cell"][0] == "null"]
            if nnull and (len(null_rows) != 1 or null_rows[0]["count"] != nnull):
                bad.append("null feature values do not keep their own group")
            if not nnull and null_rows:
                bad.append("null group without null feature values")
    # what the predictor was shown
    if idx is not None and len(obs) > 3:
        raw = obs[3]
        if is_str(fd):
            foreign = sorted({v for v in raw if v is not None and v not in real})
            if foreign:
                bad.append(f"the predictor was shown {foreign} which the feature never takes (pooled category)")
                tags["pooled_shown"] = True
            if any(v is None for v in raw) and not has_null:
                bad.append("the predictor was shown null although the feature has no null")
        else:
            rep = [r["cell"][1] for r in tabs[0] if r["cell"][0] == "num"]
            for v in raw:
                isnull = v is None or (isinstance(v, float) and math.isnan(v))
                if isnull and not has_null:
                    bad.append("the predictor was shown null / NaN although the feature has no null")
                    break
                if not isnull and float(v) not in rep:
                    bad.append(f"the predictor was shown {v} which is not a value of the feature column of the result")
                    break
        if len(obs) > 5 and not obs[5]:
            bad.append("the models are not shown the same matrix")
    if deep and not bad:
        again = run_impl(d)
        if json.dumps(again[:4], default=str) != json.dumps(obs[:4], default=str):
            bad.append("repeated call differs")
    return sorted(set(bad)), tags


# ------------------------------------------------------------------ generators
def gen_feature(rng, nmax):
    """a run_binning feature dict inside the model's domain: no Boolean, no infinity, float64"""
    if rng.random() < 0.55:
        while True:
            fd = rb.gen_numeric(rng, nmax)
            if fd["ftype"] in ("bool", "boolnp"):
                continue
            if fd["ftype"] == "float32":
                fd["ftype"] = "float"
            if any(v in ("inf", "-inf") for v in fd["values"]):
                fd["values"] = [None if v in ("inf", "-inf") and rng.random() < 0.3 else
                                (float(rng.randrange(-30, 31)) if v in ("inf", "-inf") else v) for v in fd["values"]]
            return fd
    fd = rb.gen_string(rng, nmax)
    r = rng.random()
    if r < 0.12:
        # categories that sort AFTER the pooled label / contain "other "
        pool = rng.sample(["zz", "yy", "xx", "ww", "vv", "other x", "another one", "p", "q"], rng.randrange(2, 7))
        n = len(fd["values"])
        wts = [1.0 / (i + 1) for i in range(len(pool))]
        vals = rng.choices(pool, weights=wts, k=n)
        if fd["ftype"] in ("strnull", "catnull"):
            fd["ftype"] = fd["ftype"][:3]
        if fd["ftype"] == "enum":
            cats = list(pool)
            rng.shuffle(cats)
            fd["enum_cats"] = cats
        fd["values"] = [None if (v is None and rng.random() < 0.5) else nv for v, nv in zip(fd["values"], vals)]
        if fd["ftype"] == "str" and all(v is None for v in fd["values"]):
            fd["ftype"] = "strnull"        # a python list of None is a Null-typed (numeric path) column, not a string feature
    return fd


def gen_container(rng, fd):
    if fd is None:
        return rng.choice(["f64", "list", "polars"])
    ft = fd["ftype"]
    nonull = all(v is not None for v in fd["values"])
    if ft == "float":
        return rng.choice(["f64", "f64", "list", "polars"])
    if ft == "int":
        return rng.choice(["polars", "i64", "list"]) if nonull else "polars"
    if ft == "intnp":
        return "i64"
    if ft == "str":
        return rng.choice(["polars", "polars", "list"]) if nonull else "polars"
    return "polars"


def well_conditioned(d):
    """false-alarm policy (as run_pd.py): no comparison where cancellation could exceed the tolerance"""
    fd = d["feat"]
    if fd is None:
        return True                       # no feature: predict_function is ignored
    n = len(d["y"])
    idx = draw_indices(d) or list(range(n))
    ws = [F(1)] * n if d["w"] is None else [F(w) for w in d["w"]]
    if sum(ws[i] for i in idx) == 0:
        return False
    EX = encoded_X(d)
    j = d["X"]["j"]
    col = {r[j] for r in EX} | {F(NULLQ), F(OTHER)}
    if not is_str(fd):
        nn = [c for c in rb.numeric_cells(fd) if c is not None]
        if nn:
            col |= {min(nn), max(nn), sum(nn) / len(nn)}
    for g in col:
        terms = [ws[i] * rp.pred_exact(d["pd"]["pred"], EX[i][:j] + [g] + EX[i][j + 1:]) for i in idx]
        tot = sum(ws[i] for i in idx)
        mag = (sum(abs(t) for t in terms) + sum(abs(ws[i]) for i in idx)) / abs(tot)
        if mag > 10 ** 4 * (1 + abs(sum(terms) / tot)):
            return False
    return True


def gen_case(rng, nmax, malformed=False):
    r = rng.random()
    fd = None if r < 0.08 else gen_feature(rng, nmax)
    n = rng.randrange(1, nmax + 1) if fd is None else len(fd["values"])
    style = rng.choice(["smallint", "smallint", "dyadic", "int", "binary"])

    def vals():
        if style == "smallint":
            return [float(rng.randrange(0, 4)) for _ in range(n)]
        if style == "dyadic":
            return [rng.randrange(-64, 65) / 8.0 for _ in range(n)]
        if style == "int":
            return [float(rng.randrange(-10, 11)) for _ in range(n)]
        return [float(rng.randrange(0, 2)) for _ in range(n)]
    y = vals()
    nm = rng.choice([1, 1, 1, 2, 3])
    models = []
    for _ in range(nm):
        q = rng.random()
        if q < 0.12:
            models.append(list(y))
        elif q < 0.25:
            c = float(rng.randrange(-2, 3))
            models.append([v + c for v in y])
        else:
            models.append(vals())
    wsty = rng.choice(["none", "none", "smallint", "dyadic", "zeros"])
    if wsty == "none":
        w = None
    elif wsty == "smallint":
        w = [float(rng.randrange(1, 5)) for _ in range(n)]
    elif wsty == "dyadic":
        w = [rng.randrange(1, 33) / 8.0 for _ in range(n)]
    else:
        w = [float(rng.randrange(0, 3)) for _ in range(n)]
        if all(v == 0 for v in w):
            w[rng.randrange(n)] = 1.0
    d = dict(y=y, models=models, two_d=(nm > 1 or rng.random() < 0.2), w=w, feat=fd, X=None, pd=None)
    if fd is not None or rng.random() < 0.5:
        container = gen_container(rng, fd)
        p1 = rng.choice([0, 1, 1, 2, 3])           # number of other columns
        as_int = container == "i64"
        ocols = [rp.gen_values(rng, n, rng.choice(["smallint", "dyadic", "halves", "ties", "const", "zeros", "neg"]), as_int)
                 for _ in range(p1)]
        others = [[(int(ocols[k][i]) if as_int else float(ocols[k][i])) for k in range(p1)] for i in range(n)]
        j = rng.randrange(p1 + 1)
        d["X"] = dict(container=container, others=others, j=j, by=rng.choice(["index", "name"]))
        if rng.random() < 0.7:
            EX = [[float(v) for v in r] for r in encoded_X(d)]
            wide = (not is_str(fd)) and fd is not None and any(abs(v) > 100 for r in EX for v in [r[j]])
            for _ in range(6):
                pdd = dict(pred=rp.gen_pred(rng, p1 + 1, j, [r[j] for r in EX], EX, wide))
                q = rng.random()
                if n >= 2 and q < 0.25:
                    pdd["n_max"] = rng.randint(1, n - 1)
                    pdd["seed"] = rng.randrange(10 ** 6)
                elif q < 0.35:
                    pdd["n_max"] = n + rng.randint(0, 3)
                elif q < 0.42:
                    pdd["n_max"] = None
                elif q < 0.5:
                    pdd["seed"] = rng.randrange(10 ** 6)
                d["pd"] = pdd
                if well_conditioned(d):
                    break
                d["pd"] = None
    if malformed and fd is not None:
        fd["n_bins"] = rng.choice([0, 1])
    return d


LIN = dict(c0=0.0, cs=[1.0, 1.0], d=0.0, a=0, b=0, h=0.0, s=0, t=0.0, kind="linear")


def str_case(values, n_bins, ftype="str", enum_cats=None, pd=True):
    n = len(values)
    fd = dict(ftype=ftype, values=list(values), n_bins=n_bins, method="sturges")
    if enum_cats is not None:
        fd["enum_cats"] = list(enum_cats)
    return dict(y=[float(i) for i in range(n)], models=[[float(i + 1) for i in range(n)]], two_d=False, w=None, feat=fd,
                X=dict(container="polars", others=[[float(i)] for i in range(n)], j=0, by="name"),
                pd=dict(pred=dict(LIN)) if pd else None)


FIXED = [
    # docstring examples
    dict(y=[0.0, 0.0, 1.0, 1.0], models=[[-1.0, 1.0, 1.0, 2.0]], two_d=False, w=None, feat=None, X=None, pd=None),
    dict(y=[0.0, 0.0, 1.0, 1.0], models=[[0.125, 0.375, 0.625, 0.875]], two_d=False, w=None,
         feat=dict(ftype="int", values=[0, 1, 2, 3], n_bins=10, method="sturges"),
         X=dict(container="list", others=[[1], [1], [2], [2]], j=0, by="index"),
         pd=dict(pred=dict(c0=-0.125, cs=[0.25, 0.25], d=0.0, a=0, b=0, h=0.0, s=0, t=0.0, kind="linear"))),
    # former D4 (repaired by 7801489): categories sorting after "other": the pooled label is not the last row
    str_case(["zz"] * 3 + ["yy"] * 2 + ["xx", "ww", "vv"], 3),
    str_case(["zz"] * 3 + ["yy"] * 2 + ["xx", "ww", "vv"], 3, ftype="cat"),
    # former D5 (repaired): a real category containing "other " that sorts last
    str_case(["a", "a", "b", "other x"], 10),
    str_case(["a", "a", "b", "another one"], 10, ftype="enum", enum_cats=["a", "b", "another one"]),
    # former D4 + D5 together
    str_case(["other x"] * 3 + ["b", "c", "d"], 2),
    # the only category contains "other " (used to give an empty grid)
    str_case(["other x", "other x"], 3),
    # all-null string feature with a predict function (used to raise TypeError)
    str_case([None, None], 3, ftype="strnull"),
    str_case([None, None], 3, ftype="strnull", pd=False),
    str_case(["another one", "p", "q", "q"], 2),
    str_case(["a", "d", "other 2"], 2),                       # fresh label "_other 2" sorts before "a"
    str_case(["another one", "another one"], 2, ftype="enum", enum_cats=["yy", "another one", "other x", "ww"]),
    # pooled label last, with nulls
    str_case(["b", "a", None, "a", "c", "d"], 3, ftype="cat"),
    str_case(["b", "a", None, "a", "c", "d"], 3, ftype="enum", enum_cats=["d", "c", "b", "a"]),
    # numeric with NaN, float ndarray
    dict(y=[0.0, 1.0, 2.0, 3.0, 4.0, 5.0], models=[[1.0, 2.0, 3.0, 4.0, 5.0, 6.0]], two_d=False, w=[1.0, 2.0, 3.0, 1.0, 2.0, 3.0],
         feat=dict(ftype="float", values=[0.0, 1.0, "nan", 3.0, 10.0, "nan"], n_bins=3, method="uniform"),
         X=dict(container="f64", others=[[1.0], [2.0], [3.0], [4.0], [5.0], [6.0]], j=0, by="index"),
         pd=dict(pred=dict(c0=1.0, cs=[0.5, 2.0], d=0.25, a=0, b=1, h=3.0, s=0, t=1.0, kind="full"))),
    dict(y=[0.0, 1.0], models=[[1.0, 1.0]], two_d=False, w=None,
         feat=dict(ftype="float", values=["nan", None], n_bins=3, method="uniform"),
         X=dict(container="polars", others=[[1.0], [2.0]], j=1, by="name"), pd=dict(pred=dict(LIN))),
]


def large_cases(rng):
    """n > 1000 rows: n_max must reach compute_partial_dependence as given (a seeded change dropped the keyword):
    n_max > n (no sub-sampling although n > 1000), small n_max, the default 1000, None.
    Integer data and a dozen groups keep the exact rational arithmetic of the Coq side cheap."""
    n = 1003
    out = []
    for k, pdkw in enumerate([dict(n_max=1100), dict(n_max=7, seed=rng.randrange(10 ** 6)), dict(seed=rng.randrange(10 ** 6)),
                              dict(n_max=None), dict(n_max=5, seed=rng.randrange(10 ** 6))]):
        y = [float(rng.randrange(0, 4)) for _ in range(n)]
        z = [float(rng.randrange(0, 4)) for _ in range(n)]
        others = [[float(rng.randint(-4, 4))] for _ in range(n)]
        w = None if k % 2 else [float(rng.randrange(1, 4)) for _ in range(n)]
        pred = dict(c0=1.0, cs=[1.0, 2.0], d=1.0, a=0, b=1, h=3.0, s=0, t=1.0, kind="full")
        if k < 4:
            fd = dict(ftype="float", values=[float(rng.randrange(0, 12)) if rng.random() > 0.03 else "nan" for _ in range(n)],
                      n_bins=[13, 13, 4, 4][k], method="uniform")
            cont = ["f64", "polars", "list", "f64"][k]
        else:
            words = ["p", "q", "zz", "other x", "b", "c", "d", "e", "yy", "another one"]
            fd = dict(ftype="cat", values=[rng.choice(words + [None]) for _ in range(n)], n_bins=8, method="sturges")
            cont = "polars"
        out.append(dict(y=y, models=[z], two_d=False, w=w, feat=fd, X=dict(container=cont, others=others, j=0, by="index"),
                        pd=dict(pred=pred, **pdkw)))
    return out


def clause_class(cl):
    if cl.startswith("exception on a valid input (the only category"):
        return "exception on a valid input (the only category is taken for the pooled one)"
    if cl.startswith("exception on a valid input ("):
        return cl.split(")")[0] + ")"
    for key in ("exception on a valid input", "invalid arguments", "binning helper", "NaN edges", "model blocks", "output rows",
                "null group misplaced", "row label", "count ", "weights ", "y_obs_mean", "y_pred_mean -", "y_pred_mean",
                "y_obs_stderr", "y_pred_stderr", "compute_bias", "null group with", "bin_edges missing", "not inside",
                "bin_edges[1]", "overlap", "first lower", "last upper", "column missing", "real category", "is null",
                "directly computed", "counts sum", "weights do not", "own group", "without null", "never takes",
                "shown null", "not a value of the feature column", "same matrix", "repeated"):
        if key in cl:
            return key.strip()
    return cl


def minimise(d, fails):
    cur = d
    changed = True
    while changed and len(cur["y"]) > 1:
        changed = False
        for i in range(len(cur["y"])):
            c = copy.deepcopy(cur)
            del c["y"][i]
            for m in c["models"]:
                del m[i]
            if c["w"] is not None:
                del c["w"][i]
                if sum(c["w"]) == 0:
                    continue
            if c["feat"] is not None:
                del c["feat"]["values"][i]
            if c["X"] is not None:
                del c["X"]["others"][i]
            if c["pd"] is not None and c["pd"].get("n_max") is not None and c["pd"]["n_max"] < len(c["y"]):
                continue                 # the draw depends on n: keep sub-sampled cases as they are
            try:
                if fails(c):
                    cur, changed = c, True
                    break
            except Exception:  # noqa: BLE001
                pass
    if len(cur["models"]) > 1:
        c = copy.deepcopy(cur)
        c["models"] = [cur["models"][0]]
        try:
            if fails(c):
                cur = c
        except Exception:  # noqa: BLE001
            pass
    return cur


def summarise(obs):
    if obs[0] == "err":
        return list(obs)
    return ["ok", [[dict(cell=r["cell"], pd=r["pd"], count=r["count"]) for r in t] for t in obs[1]],
            sorted({str(v) for v in obs[3]}) if len(obs) > 3 else []]


def report(found, d, bad, tags, obs):
    for cl in bad:
        k = clause_class(cl)
        if k not in found or len(d["y"]) < len(found[k]["case"]["y"]):
            found[k] = dict(case=dict(copy.deepcopy(d), **tags), clauses=bad, observed=summarise(obs), count=found.get(k, {}).get("count", 0))
        found[k]["count"] += 1


def finalise(found):
    out = []
    for k, f in found.items():
        base = {kk: v for kk, v in f["case"].items() if kk not in ("pooled_shown", "real_other_lost_pd", "null_label_typeerror")}
        m = minimise(base, lambda c: k in {clause_class(x) for x in judge_case(c, deep=False)[0]})
        o = run_impl(m)
        cl, tags = judge_case(m, o)
        out.append(dict(case=dict(m, **tags), clauses=cl, observed=summarise(o), clause_class=k, count=f.get("count", 1)))
    return out


def kind_of(d):
    if d["feat"] is None:
        return "none"
    return d["feat"]["ftype"]


def main():
    mode = sys.argv[1]
    if mode == "corr":
        outdir, prefix, seed, ncases, nmax = sys.argv[2], sys.argv[3], int(sys.argv[4]), int(sys.argv[5]), int(sys.argv[6])
        rng = random.Random(seed)
        dicts = [copy.deepcopy(x) for x in FIXED]
        if ncases >= 50:
            dicts += large_cases(rng)
        for _ in range(ncases):
            dicts.append(gen_case(rng, nmax, malformed=rng.random() < 0.03))
        cases, stats, samples, found = [], {}, [], {}

        def bump(k, v=1):
            stats[k] = stats.get(k, 0) + v
        for d in dicts:
            obs = run_impl(d)
            cases.append(coq_case(d, obs))
            bump("feat:" + kind_of(d))
            if d["feat"] is not None and not is_str(d["feat"]):
                bump("method:" + ("numpy" if d["feat"]["method"] in rb.NUMPY_RULES else d["feat"]["method"]))
            bump("container:" + (d["X"]["container"] if d["X"] else "none"))
            bump("models_%d" % len(d["models"]))
            bump("weighted", int(d["w"] is not None))
            bump("with_predict_function", int(d["pd"] is not None))
            sub = d["pd"] is not None and d["feat"] is not None and draw_indices(d) is not None
            bump("subsampled", int(sub))
            bump("subsampled_nmax_lt_n_le_1000", int(sub and len(d["y"]) <= 1000))
            bump("n_gt_1000_nmax_ne_1000", int(d["pd"] is not None and d["feat"] is not None and len(d["y"]) > 1000
                                               and d["pd"].get("n_max", 1000) != 1000))
            bump("errors", int(obs[0] == "err"))
            bad, tags = judge_case(d, obs, deep=(len(cases) % 5 == 0))
            for t in tags:
                bump("tag:" + t)
            report(found, d, bad, tags, obs)
            if len(samples) < 3 and len(d["y"]) >= 5 and obs[0] == "ok" and d["pd"] is not None and d["feat"] is not None:
                samples.append(dict(case=d, observed=summarise(obs)))
        os.makedirs(outdir, exist_ok=True)
        paths = []
        expr = "summary_old cases" if RULE == "ByLastLabel" else "summary cases"
        for k, sh in enumerate(shard(cases, 400)):
            p = os.path.join(outdir, f"{prefix}_{k}.v")
            body = "Definition cases : list mcase := [\n  " + ";\n  ".join(sh) + "\n]."
            write_case_file(p, "From Coq Require Import String.\nFrom MD Require Import model.Binning model.PartialDep model.Bias "
                               "model.Marginal corr.Decode corr.CmpMarginal.", body, expr)
            paths.append(p)
        json.dump(dicts, open(os.path.join(outdir, prefix + "_cases.json"), "w"))
        stats["cases"] = len(cases)
        print(json.dumps(dict(paths=paths, shard_size=400, stats=stats, samples=samples,
                              property_failures=list(found.values()))))
    elif mode == "judge":
        ds = json.load(open(sys.argv[2]))
        found = {}
        for d in ds:
            d = {k: v for k, v in d.items() if k not in ("pooled_shown", "real_other_lost_pd", "null_label_typeerror")}
            obs = run_impl(d)
            bad, tags = judge_case(d, obs)
            report(found, d, bad, tags, obs)
        print(json.dumps(dict(failures=finalise(found))))
    elif mode == "search":
        seed, budget = int(sys.argv[2]), int(sys.argv[3])
        found, tried = {}, 0

        def consider(d):
            nonlocal tried
            tried += 1
            obs = run_impl(d)
            bad, tags = judge_case(d, obs)
            report(found, d, bad, tags, obs)

        # small exhaustive spaces: string-like features around the pooled label
        alpha = ["a", "b", "other x", "zz", "another one", None]
        for n in range(1, 6):
            for vals in itertools.product(alpha, repeat=n):
                if tried >= budget // 2:
                    break
                if all(v is None for v in vals):
                    consider(str_case(list(vals), 2, ftype="strnull"))
                    continue
                for ft in ("str", "cat"):
                    consider(str_case(list(vals), 2 + (n % 2), ftype=ft))
                if n <= 4:
                    consider(str_case(list(vals), 2, ftype="enum", enum_cats=["zz", "other x", "a", "b", "another one"]))
        # observations / predictions with a large common offset and a small spread (dyadic, group sizes 4 / 8: every exact
        # quantity is a float; a one-pass variance cancels catastrophically here)
        big = 2.0 ** 28
        yb = [big + v for v in (0.25, 0.75, 0.5, 1.0, 0.0, 0.25, 1.25, 0.5)]
        zb = [big + v for v in (1.0, 0.25, 0.75, 0.5, 1.5, 0.25, 0.0, 1.25)]
        consider(dict(y=yb, models=[zb], two_d=False, w=None, feat=None, X=None, pd=None))
        consider(dict(y=yb, models=[zb], two_d=False, w=None, feat=dict(ftype="str", values=["a", "a", "a", "a", "b", "b", "b", "b"], n_bins=3, method="quantile"),
                      X=dict(container="polars", others=[[float(i)] for i in range(8)], j=0, by="name"), pd=None))
        consider(dict(y=yb, models=[zb], two_d=False, w=None, feat=dict(ftype="float", values=[0.0, 0.0, 0.0, 0.0, 1.0, 1.0, 1.0, 1.0], n_bins=2, method="quantile"),
                      X=dict(container="f64", others=[[float(i)] for i in range(8)], j=0, by="index"), pd=None))
        # numeric features over a small alphabet
        for vals in itertools.product([0.0, 1.0, 2.5, "nan"], repeat=4):
            for m in ("quantile", "uniform", "sturges"):
                for cont in ("f64", "list", "polars"):
                    if tried < (3 * budget) // 4:
                        consider(dict(y=[0.0, 1.0, 1.0, 2.0], models=[[1.0, 1.0, 0.0, 0.0]], two_d=False, w=[1.0, 2.0, 1.0, 2.0],
                                      feat=dict(ftype="float", values=list(vals), n_bins=2, method=m),
                                      X=dict(container=cont, others=[[1.0], [2.0], [3.0], [5.0]], j=0, by="index"),
                                      pd=dict(pred=dict(c0=1.0, cs=[0.5, 2.0], d=0.25, a=0, b=1, h=3.0, s=0, t=1.0, kind="full"))))
        rng = random.Random(seed)
        while tried < budget:
            consider(gen_case(rng, 12))
        print(json.dumps(dict(tried=tried, failures=finalise(found))))
    else:
        raise SystemExit(__doc__)


if __name__ == "__main__":
    main()
