"""Shared helpers of the correspondence harnesses: exact float encoding, case
files, parallel coqc, parsing of the printed summaries."""
import math
import os
import re
import subprocess
import sys
import time
from fractions import Fraction

VERIF = os.path.dirname(os.path.dirname(os.path.abspath(__file__)))
COQ = os.path.join(VERIF, "coq")
BUILD = os.path.join(VERIF, "build")


def qlit(v):
    """Coq term of type Q for the exact value of a Python int / float / Fraction."""
    if isinstance(v, bool):
        raise TypeError("bool")
    if isinstance(v, int):
        return f"(zi ({v}))" if abs(v) < 2 ** 62 else f"(inject_Z ({v}))"
    if isinstance(v, Fraction):
        if v.denominator == 1:
            return qlit(int(v.numerator))
        return f"(Qmake ({v.numerator}) {v.denominator})"
    v = float(v)
    if math.isnan(v) or math.isinf(v):
        raise ValueError("non-finite float in a case")
    if v == int(v) and abs(v) < 2 ** 53:
        return f"(zi ({int(v)}))"
    m, e = math.frexp(v)
    mi = int(abs(m) * 2 ** 53)
    e -= 53
    while mi and mi % 2 == 0:
        mi //= 2
        e += 1
    return f"(fl {'true' if v < 0 else 'false'} {mi}%uint63 ({e}))"


def qlist(vs):
    return "[" + "; ".join(qlit(v) for v in vs) + "]"


def natlist(vs):
    return "[" + "; ".join(f"{int(v)}%nat" for v in vs) + "]"


def frac(v):
    if isinstance(v, Fraction):
        return v
    if isinstance(v, int):
        return Fraction(v)
    return Fraction(float(v))


def sigbits(v):
    """number of significant bits of a finite float / int"""
    f = frac(v)
    if f == 0:
        return 0
    n = abs(f.numerator)
    while n % 2 == 0:
        n //= 2
    if f.denominator & (f.denominator - 1):
        return 10 ** 6  # not dyadic
    return n.bit_length()


def write_case_file(path, header_imports, defname_body, summary_expr):
    """One shard: imports, `Definition cases := [...]`, and the printed summary."""
    with open(path, "w") as f:
        f.write("From Coq Require Import Uint63 ZArith QArith List Bool.\nImport ListNotations.\n")
        f.write(header_imports + "\n")
        f.write("Open Scope Q_scope.\n")
        f.write(defname_body + "\n")
        f.write(f"Eval vm_compute in ({summary_expr}).\n")


def run_coqc_parallel(paths, jobs=16, timeout=900):
    """Compile case files in parallel; returns {path: (returncode, output)}."""
    procs = {}
    pending = list(paths)
    out = {}
    running = []
    env = dict(os.environ)
    while pending or running:
        while pending and len(running) < jobs:
            p = pending.pop(0)
            pr = subprocess.Popen(
                ["bash", "-c", f"ulimit -s unlimited 2>/dev/null; exec timeout {timeout} coqc -Q {COQ} MD -w none {p}"],
                stdout=subprocess.PIPE, stderr=subprocess.STDOUT, text=True, env=env, cwd=os.path.dirname(p))
            running.append((p, pr))
        still = []
        for p, pr in running:
            if pr.poll() is None:
                still.append((p, pr))
            else:
                out[p] = (pr.returncode, pr.stdout.read())
        running = still
        if running:
            time.sleep(0.05)
    return out


_SUM = re.compile(r"=\s*\(\s*(\[.*?\])\s*,(.*?)\)\s*:", re.S)


def parse_summary(text):
    """Parses `= ([i; j], n1, n2, ...) : ...` -> (list of bad indices, [counters])."""
    m = _SUM.search(text)
    if not m:
        return None
    bad = [int(x) for x in re.findall(r"\d+", m.group(1))]
    counters = [int(x) for x in re.findall(r"\d+", m.group(2))]
    return bad, counters


def shard(cases, size=400):
    return [cases[i:i + size] for i in range(0, len(cases), size)]
