"""Correspondence / judge / search harness for numpy's histogram rules 'sturges', 'sqrt', 'rice'
(model/NumpyRules.v; strengthens C13 / C09 / C10 for the default bin_method='sturges').

  run_nprules.py corr    <outdir> <prefix> <seed> <ncases> <nmax>    np.histogram_bin_edges vs np_edges
  run_nprules.py corrbin <outdir> <prefix> <seed> <ncases> <nmax>    bin_feature vs bin_numeric with the MODEL's edges
  run_nprules.py judge   <cases.json>
  run_nprules.py search  <seed> <budget>

corr case:    {"rule", "dtype": float64|int64|uint8, "n", "lo", "hi", "fill_seed", "style"}
              the array has size n, min lo, max hi, the other entries are drawn in [lo, hi] from
              random.Random(fill_seed); ints are JSON ints, floats JSON floats (repr round trips).
corrbin case: a run_binning.py case dict (ftype, values, n_bins, method) with method one of the three rules.
"""
import json
import math
import os
import random
import sys
import warnings
from fractions import Fraction as F

warnings.filterwarnings("ignore")

import numpy as np

from common import qlit, write_case_file, shard

RULES = ["sturges", "sqrt", "rice"]
RULE_COQ = {"sturges": "Sturges", "sqrt": "Sqrt", "rice": "Rice"}
N_LIMIT = 2 ** 40


# ------------------------------------------------------------------ reference model (exact, Fractions)
# a transcription of coq/model/NumpyRules.v; used by `judge` and `search` only, the correspondence
# run compares numpy with the Coq model itself.
def rnd(x):
    """binary64 round-to-nearest-even of a Fraction, with subnormals, without overflow"""
    if x == 0:
        return F(0)
    s = -1 if x < 0 else 1
    x = abs(x)
    e = (x.numerator.bit_length() - 1) - (x.denominator.bit_length() - 1)
    if x < F(2) ** e:
        e -= 1
    qe = max(e - 52, -1074)
    m = x / F(2) ** qe
    fl = m.numerator // m.denominator
    rem = m - fl
    if rem > F(1, 2) or (rem == F(1, 2) and fl % 2 == 1):
        fl += 1
    return s * fl * F(2) ** qe


def clog2(n):
    return 0 if n <= 1 else (n - 1).bit_length()


def csqrt(n):
    k = math.isqrt(n)
    return k if k * k == n else k + 1


def ccbrt(m):
    lo, hi = 0, 1
    while hi ** 3 < m:
        hi *= 2
    while lo < hi:                    # least k in [lo, hi] with m <= k^3
        mid = (lo + hi) // 2
        if mid ** 3 >= m:
            hi = mid
        else:
            lo = mid + 1
    return lo


def bins_exact(rule, n):
    return {"sturges": clog2(n) + 1, "sqrt": csqrt(n), "rice": ccbrt(8 * n)}[rule]


def exact_point(rule, n):
    if rule == "sturges":
        return 2 ** clog2(n) == n
    if rule == "sqrt":
        return csqrt(n) ** 2 == n
    return n in (1, 8, 27)


def ceil_frac(x):
    return -((-x.numerator) // x.denominator)


INF = F(2) ** 1024


def ref_model(rule, kind, n, lo, hi):
    """kind 'f' | 'i'; lo, hi exact.  -> ("ok", nbins, [edges]) | ("err", tag) | ("unmodelled",)"""
    lo, hi = F(lo), F(hi)
    if n == 0:
        first, last, K = F(0), F(1), 1
    elif n >= N_LIMIT:
        return ("unmodelled",)
    elif lo == hi:
        first, last, K = rnd(rnd(lo) - F(1, 2)), rnd(rnd(hi) + F(1, 2)), 1     # int -> float64 first
    else:
        d = rnd(hi - lo)
        if d >= INF:
            return ("err", "overflow")
        first, last = lo, hi
        Kx = bins_exact(rule, n)
        if kind == "i" and hi - lo < Kx:
            K = ceil_frac(hi - lo)            # width < 1 -> width = 1; the small integer range is exact
        else:
            if kind == "f" and d < F(2) ** -1000:
                return ("unmodelled",)
            K = ceil_frac(rnd(d / rnd(d / Kx))) if exact_point(rule, n) else Kx
    f, l = rnd(first), rnd(last)
    delta = rnd(l - f)
    if delta >= INF:
        return ("err", "overflow")
    step = rnd(delta / K)
    if step == 0 and delta != 0:
        ys = [rnd(rnd(F(i, K)) * delta) for i in range(K)]
    else:
        ys = [rnd(i * step) for i in range(K)]
    es = [rnd(y + f) for y in ys] + [l]
    if any(a >= b for a, b in zip(es, es[1:])):
        return ("err", "toomany")
    return ("ok", K, es)


# ------------------------------------------------------------------ arrays and numpy
DT = {"float64": np.float64, "int64": np.int64, "uint8": np.uint8}


def kind_of(dtype):
    return "f" if dtype == "float64" else "i"


def build_array(d):
    n, lo, hi = d["n"], d["lo"], d["hi"]
    a = np.empty(n, dtype=DT[d["dtype"]])
    if n == 0:
        return a
    if n > 20000:                       # large arrays (search mode): only size, min and max matter
        a[:] = lo
        a[n // 2:] = hi
        return a
    rng = random.Random(d.get("fill_seed", 0))
    if d["dtype"] == "float64":
        vals = [lo + (hi - lo) * rng.random() if math.isfinite(hi - lo) else rng.choice([lo, hi, 0.0]) for _ in range(n)]
        vals = [min(max(v, lo), hi) for v in vals]
    else:
        vals = [rng.randint(lo, hi) for _ in range(n)]
    a[:] = vals
    a[0] = lo
    a[-1] = hi
    idx = list(range(n))
    rng.shuffle(idx)
    return a[idx]


def run_np(a, rule):
    """-> ("ok", nbins, [float edges]) | ("err", class, message)"""
    try:
        e = np.histogram_bin_edges(a, bins=rule)
        return ("ok", len(e) - 1, [float(x) for x in e])
    except Exception as ex:  # noqa: BLE001
        return ("err", type(ex).__name__, str(ex)[:80])


def summary_of(a):
    if a.size == 0:
        return 0, 0, 0
    return int(a.size), a.min().item(), a.max().item()


# ------------------------------------------------------------------ Coq encoding
def coq_obs(obs):
    if obs[0] == "err":
        return "ObsValueError" if obs[1] == "ValueError" else "ObsOther"
    return f"(ObsOk {obs[1]}%N [" + "; ".join(qlit(x) for x in obs[2]) + "])"


def coq_case(d, obs):
    kind = "DFloat" if d["dtype"] == "float64" else "DInt"
    return f"NCase {RULE_COQ[d['rule']]} {kind} {d['n']}%N {qlit(d['lo'])} {qlit(d['hi'])} {coq_obs(obs)}"


# ------------------------------------------------------------------ generators
def special_n(rng, nmax):
    r = rng.random()
    if r < 0.18:
        return min(nmax, 2 ** rng.randrange(0, max(1, nmax.bit_length())))
    if r < 0.36:
        return min(nmax, rng.randrange(1, max(2, math.isqrt(nmax) + 1)) ** 2)
    if r < 0.50:
        return min(nmax, rng.randrange(1, max(2, round(nmax ** (1 / 3)) + 1)) ** 3)
    if r < 0.60:
        k = rng.choice([2 ** rng.randrange(1, 12), rng.randrange(2, 60) ** 2, rng.randrange(2, 14) ** 3])
        return max(1, min(nmax, k + rng.choice([-1, 1])))
    if r < 0.70:
        return rng.randrange(1, 10)
    return rng.randrange(1, nmax + 1)


def gen_float(rng, nmax):
    n = special_n(rng, nmax)
    style = rng.choice(["unit", "uniform", "uniform", "uniform", "negative", "intlike", "tiny", "tinyrel", "huge", "constant",
                        "wide", "dyadic"])
    if style == "unit":
        lo, hi = 0.0, 1.0
    elif style == "uniform":
        lo = rng.uniform(-10, 10)
        hi = lo + rng.uniform(0.01, 10)
    elif style == "negative":
        hi = -rng.uniform(0.0, 100)
        lo = hi - rng.uniform(0.01, 1000)
    elif style == "intlike":
        lo = float(rng.randrange(-50, 50))
        hi = lo + float(rng.randrange(1, 200))
    elif style == "tiny":
        lo = rng.uniform(-1, 1) * 10.0 ** rng.randrange(-300, -200)
        hi = lo + rng.uniform(0.1, 1) * 10.0 ** rng.randrange(-300, -200)
    elif style == "tinyrel":
        lo = rng.uniform(1, 2) * rng.choice([-1, 1])
        hi = lo + rng.randrange(1, 4000) * 2.0 ** -rng.randrange(40, 51)
    elif style == "huge":
        lo = rng.uniform(-1, 1) * 10.0 ** rng.randrange(200, 308)
        hi = lo + rng.uniform(0.1, 1) * 10.0 ** rng.randrange(200, 308)
    elif style == "constant":
        lo = hi = rng.choice([0.0, 1.0, -2.5, rng.uniform(-10, 10), 1e300, -1e-300, 2.0 ** 60, 3.0])
    elif style == "wide":
        lo = rng.uniform(-1, 1) * 10.0 ** rng.randrange(-30, 30)
        hi = lo + rng.uniform(0, 1) * 10.0 ** rng.randrange(-30, 30)
    else:
        lo = rng.randrange(-256, 257) / 16.0
        hi = lo + rng.randrange(1, 512) / 16.0
    if not (lo <= hi):
        lo, hi = hi, lo
    if n == 1:
        hi = lo
    return dict(rule=rng.choice(RULES), dtype="float64", n=n, lo=lo, hi=hi, fill_seed=rng.randrange(10 ** 6), style=style)


def gen_int(rng, nmax):
    n = special_n(rng, nmax)
    rule = rng.choice(RULES)
    kx = bins_exact(rule, n)
    style = rng.choice(["small", "small", "atbins", "atbins", "medium", "large", "huge", "negative", "constant", "uint8"])
    dtype = "int64"
    if style == "small":
        lo = rng.randrange(-5, 6)
        hi = lo + rng.randrange(1, 12)
    elif style == "atbins":
        lo = rng.randrange(-100, 100)
        hi = lo + max(1, kx + rng.choice([-2, -1, 0, 1, 2]))
    elif style == "medium":
        lo = rng.randrange(-1000, 1000)
        hi = lo + rng.randrange(1, 3000)
    elif style == "large":
        lo = rng.randrange(-10 ** 9, 10 ** 9)
        hi = lo + rng.randrange(1, 10 ** 12)
    elif style == "huge":
        lo = rng.randrange(-2 ** 62, 0)
        hi = rng.randrange(2 ** 53, 2 ** 62)
    elif style == "negative":
        hi = -rng.randrange(0, 1000)
        lo = hi - rng.randrange(1, 500)
    elif style == "constant":
        lo = hi = rng.choice([0, 1, -7, 3, 2 ** 53 + 1, 2 ** 60, -2 ** 62])
    else:
        dtype = "uint8"
        lo = rng.randrange(0, 200)
        hi = min(255, lo + rng.randrange(0, 100))
    if n == 1:
        hi = lo
    return dict(rule=rule, dtype=dtype, n=n, lo=lo, hi=hi, fill_seed=rng.randrange(10 ** 6), style=style)


FIXED = [
    dict(rule="sturges", dtype="float64", n=0, lo=0.0, hi=0.0, style="empty"),
    dict(rule="rice", dtype="int64", n=0, lo=0, hi=0, style="empty"),
    dict(rule="sturges", dtype="float64", n=3, lo=2.0, hi=2.0, style="constant"),
    dict(rule="sqrt", dtype="float64", n=1, lo=-1.25, hi=-1.25, style="constant"),
    dict(rule="sturges", dtype="int64", n=5, lo=3, hi=3, style="constant"),
    # one bin more than the exact rule (float effect at n = 2^k / k^2)
    dict(rule="sturges", dtype="float64", n=64, lo=3.6509682605834275, hi=5.683774335864077, style="exactpoint"),
    dict(rule="sqrt", dtype="float64", n=49, lo=9.771949118698274, hi=18.721545958339757, style="exactpoint"),
    dict(rule="sqrt", dtype="int64", n=49, lo=0, hi=17, style="exactpoint"),
    dict(rule="rice", dtype="float64", n=27, lo=0.0, hi=1.0, style="exactpoint"),
    dict(rule="rice", dtype="float64", n=64, lo=0.0, hi=1.0, style="cube"),
    dict(rule="rice", dtype="float64", n=125, lo=-3.0, hi=1.7, style="cube"),
    # integer dtype, width < 1 -> 1
    dict(rule="sturges", dtype="int64", n=1000, lo=0, hi=3, style="intwidth"),
    dict(rule="sturges", dtype="int64", n=1000, lo=0, hi=10, style="intwidth"),
    dict(rule="sturges", dtype="int64", n=1000, lo=0, hi=11, style="intwidth"),
    dict(rule="sturges", dtype="float64", n=1000, lo=0.0, hi=3.0, style="intlike"),
    # ValueError: overflowing range; too many bins for the range
    dict(rule="sturges", dtype="float64", n=10, lo=-1.5e308, hi=1.5e308, style="overflow"),
    dict(rule="sqrt", dtype="float64", n=100, lo=1.0, hi=1.0 + 2.0 ** -52, style="toomany"),
    dict(rule="sturges", dtype="float64", n=10, lo=2.0 ** 60, hi=2.0 ** 60, style="constant"),
    # outside the model: subnormal width
    dict(rule="sturges", dtype="float64", n=10, lo=0.0, hi=5e-324 * 7, style="subnormal"),
    dict(rule="sturges", dtype="int64", n=10, lo=-2 ** 63, hi=2 ** 63 - 1, style="huge"),
]


def gen_corr(rng, nmax):
    return gen_float(rng, nmax) if rng.random() < 0.55 else gen_int(rng, nmax)


# ------------------------------------------------------------------ the statement checked by `judge`
def judge_case(d, obs=None):
    """numpy's result against the exact reference model and the structural facts proved in
    proofs/NumpyRulesProps.v (count, first = min, last = max, strictly increasing, number of
    bins = exact rule except + 1 at exact points)"""
    a = build_array(d)
    if obs is None:
        obs = run_np(a, d["rule"])
    n, lo, hi = summary_of(a)
    m = ref_model(d["rule"], kind_of(d["dtype"]), n, lo, hi)
    bad = []
    if m[0] == "unmodelled":
        return bad
    if m[0] == "err":
        if not (obs[0] == "err" and obs[1] == "ValueError"):
            bad.append(f"model: ValueError ({m[1]}), numpy: {obs[:2]}")
        return bad
    if obs[0] == "err":
        return [f"numpy raised {obs[1]}: {obs[2]}; model: {m[1]} bins"]
    K, es = obs[1], [F(x) for x in obs[2]]
    if K != m[1]:
        bad.append(f"number of bins {K}, model {m[1]}")
    elif es != m[2]:
        bad.append("edges differ from the binary64 model at indices " + str([i for i, (x, y) in enumerate(zip(es, m[2])) if x != y][:5]))
    if len(es) != K + 1:
        bad.append("len(edges) != bins + 1")
    if any(x >= y for x, y in zip(es, es[1:])):
        bad.append("edges not strictly increasing")
    if n > 0 and lo != hi:
        if es[0] != rnd(F(lo)) or es[-1] != rnd(F(hi)):
            bad.append("first / last edge is not min / max")
        kx = bins_exact(d["rule"], n)
        if kind_of(d["dtype"]) == "i" and hi - lo < kx:
            kx = hi - lo
        if K != kx and not (exact_point(d["rule"], n) and K == kx + 1):
            bad.append(f"number of bins {K}: exact rule {kx}, n={n} not an exact point")
    return bad


# ------------------------------------------------------------------ corrbin (bin_feature)
def gen_bin_case(rng, nmax):
    n = special_n(rng, nmax)
    ft = rng.choice(["float"] * 5 + ["int", "int", "intnp", "uint8"])
    style = rng.choice(["smallint", "smallint", "int", "dyadic", "dyadic", "wide", "constant", "sorted", "twovals", "uniform"])
    if style == "smallint":
        base = [float(rng.randrange(rng.choice([2, 3, 5, 8, 20]))) for _ in range(n)]
    elif style == "int":
        base = [float(rng.randrange(-20, 21)) for _ in range(n)]
    elif style == "dyadic":
        base = [rng.randrange(-256, 257) / 16.0 for _ in range(n)]
    elif style == "wide":
        base = [rng.choice([-1, 1]) * rng.randrange(1, 1024) * 2.0 ** rng.randrange(-8, 9) for _ in range(n)]
    elif style == "constant":
        base = [float(rng.randrange(-3, 4))] * n
    elif style == "sorted":
        base = sorted(float(rng.randrange(0, 12)) for _ in range(n))
    elif style == "uniform":
        lo = rng.uniform(-5, 5)
        w = rng.uniform(0.1, 10)
        base = [lo + w * rng.random() for _ in range(n)]
    else:
        a, b = rng.sample(range(-5, 6), 2)
        base = [float(rng.choice([a, b])) for _ in range(n)]
    d = dict(ftype=ft, n_bins=rng.choice([2, 3, 5, 10]), method=rng.choice(RULES))
    pnull = rng.choice([0, 0, 0.15, 0.4])
    pinf = rng.choice([0, 0, 0, 0.15, 0.5])
    import run_binning as rb
    if ft == "float":
        vals = []
        for v in base:
            r = rng.random()
            if r < pnull:
                vals.append(rng.choice([None, math.nan]))
            elif r < pnull + pinf:
                vals.append(rng.choice([math.inf, -math.inf]))
            else:
                vals.append(v)
        if rng.random() < 0.02:
            vals = [rng.choice([None, math.nan]) for _ in range(n)]
        elif rng.random() < 0.02:
            vals = [rng.choice([math.inf, -math.inf, math.inf, None]) for _ in range(n)]
        d["values"] = [rb.enc(v) for v in vals]
    elif ft == "int":
        d["values"] = [None if rng.random() < pnull else int(v) for v in base]
        if all(v is None for v in d["values"]):
            d["ftype"] = "null"
            d["null_dtype"] = "i"
    elif ft == "intnp":
        d["values"] = [int(v) for v in base]
    else:
        d["values"] = [None if rng.random() < pnull else int(abs(v)) % 256 for v in base]
        if all(v is None for v in d["values"]):
            d["values"][0] = 1
    return d


BIN_FIXED = [
    dict(ftype="float", values=[2.0, 2.0, 2.0], n_bins=3, method="sturges"),
    dict(ftype="float", values=["inf", "inf"], n_bins=3, method="sturges"),
    dict(ftype="float", values=["inf", "-inf", 1.0, 2.0, 4.0], n_bins=3, method="rice"),
    dict(ftype="float", values=[0.0, 1.0, None, "nan", 0.25, 0.5, 0.75], n_bins=10, method="sqrt"),
    dict(ftype="int", values=[0, 1, 2, 3, 3, 3, 2, 1, 7], n_bins=10, method="sturges"),
    dict(ftype="intnp", values=[0, 1] * 50, n_bins=10, method="sturges"),
    dict(ftype="float", values=[0.0, 1.0] * 50, n_bins=10, method="sturges"),
    dict(ftype="float", values=[-1.5e308, 1.5e308, 0.0], n_bins=10, method="sturges"),
    dict(ftype="float", values=[1.0, 1.0 + 2.0 ** -52] * 8, n_bins=10, method="sturges"),
    dict(ftype="float", values=[3.6509682605834275, 5.683774335864077] + [4.0 + i / 64 for i in range(62)], n_bins=10, method="sturges"),
    dict(ftype="bool", values=[True, False, True], n_bins=3, method="sturges"),
    dict(ftype="float", values=[1.0, 2.0], n_bins=1, method="sturges"),
]


def coq_bin_case(d, obs):
    import run_binning as rb
    kind = "KBool" if d["ftype"] in ("bool", "boolnp") else "KNum"
    dk = "DFloat" if d["ftype"] in ("float", "bool", "boolnp") or (d["ftype"] == "null" and d.get("null_dtype", "f") != "i") else "DInt"
    cells = rb.numeric_cells(d)
    feat = "[" + "; ".join("None" if c is None else f"Some {rb.xlit(c)}" for c in cells) + "]"
    return f"RCase {kind} {dk} {RULE_COQ[d['method']]} {feat} {d['n_bins']}%nat {rb.coq_obs(obs)}"


# ------------------------------------------------------------------ search: the float facts the model rests on
def search(seed, budget):
    """exhaustive: (a) the three facts about libm the model assumes, (b) numpy == reference model for
    every n <= N and a fixed set of ranges, (c) seeded random cases.  A failure is a case dict."""
    failures, tried = [], 0
    facts = {}
    facts["log2_exact_on_powers_of_two"] = all(float(np.log2(2 ** k)) + 1.0 == k + 1 for k in range(0, 63))
    facts["sqrt_exact_on_squares_below_2^40"] = all(float(np.sqrt(k * k)) == k for k in range(1, 2 ** 20, 7)) and \
        all(float(np.sqrt(k * k)) == k for k in range(1, 20000))
    bad_cubes = [k for k in range(1, 200000) if (k ** 3) ** (1.0 / 3) >= k]
    facts["cubes_with_pow_not_below_k"] = bad_cubes            # expected [1, 2, 3]
    facts["pow_exact_on_1_8_27"] = [(k ** 3) ** (1.0 / 3) == k for k in (1, 2, 3)]
    # c far from an integer off the exact points: ceil of the float c is the exact number of bins, n < 2^40 sampled
    rng = random.Random(seed)
    off = []
    for _ in range(20000):
        n = rng.randrange(1, 2 ** 40)
        for rule, c in (("sturges", float(np.log2(n)) + 1.0), ("sqrt", float(np.sqrt(n))), ("rice", 2.0 * n ** (1.0 / 3))):
            if not exact_point(rule, n) and not (rule == "rice" and ccbrt(n) ** 3 == n):
                kx = bins_exact(rule, n)
                if not (math.ceil(c * (1 - 1e-14)) == kx == math.ceil(c * (1 + 1e-14))):
                    off.append((rule, n, c, kx))
    facts["float_c_not_safely_inside_its_cell"] = off[:5]

    def consider(d):
        nonlocal tried
        tried += 1
        bad = judge_case(d)
        if bad and len(failures) < 20:
            failures.append(dict(case=d, clauses=bad))

    nexh = max(50, min(3000, budget // 60))
    for n in range(1, nexh + 1):
        for rule in RULES:
            for lo, hi in ((0.0, 1.0), (-3.7, 11.3), (1e-300, 3e-300), (-1e300, 1e300), (1.0, 1.0 + 2.0 ** -40), (0.1, 0.7)):
                consider(dict(rule=rule, dtype="float64", n=n, lo=lo, hi=hi if n > 1 else lo, fill_seed=n))
            kx = bins_exact(rule, n)
            for lo, hi in ((0, 1), (0, 5), (-7, 13), (0, 1000), (-2 ** 62, 2 ** 62), (3, 3), (0, max(1, kx - 1)), (0, kx), (0, kx + 1)):
                consider(dict(rule=rule, dtype="int64", n=n, lo=lo, hi=hi if n > 1 else lo, fill_seed=n))
    # large n: every exact point and its two neighbours (number of bins AND edges, two ranges)
    big = set()
    for k in range(12, 23):
        big.update((2 ** k - 1, 2 ** k, 2 ** k + 1))
    for k in list(range(55, 2050, 97)) + [2047, 2048]:
        big.update((k * k - 1, k * k, k * k + 1))
    for k in range(15, 161, 5):
        big.update((k ** 3 - 1, k ** 3, k ** 3 + 1))
    nbig = 0
    for n in sorted(big):
        if tried >= budget:
            break
        nbig += 1
        for rule in RULES:
            consider(dict(rule=rule, dtype="float64", n=n, lo=0.0, hi=1.0, fill_seed=n))
            consider(dict(rule=rule, dtype="float64", n=n, lo=-3.7, hi=11.3, fill_seed=n))
            consider(dict(rule=rule, dtype="int64", n=n, lo=-7, hi=100000, fill_seed=n))
    while tried < budget:
        consider(gen_corr(rng, 4000))
    return dict(tried=tried, exhaustive_n=nexh, large_n_points=nbig, facts=facts, failures=failures)


# ------------------------------------------------------------------ main
def main():
    mode = sys.argv[1]
    if mode == "corr":
        outdir, prefix, seed, ncases, nmax = sys.argv[2], sys.argv[3], int(sys.argv[4]), int(sys.argv[5]), int(sys.argv[6])
        rng = random.Random(seed)
        dicts = [dict(x) for x in FIXED] + [gen_corr(rng, nmax) for _ in range(ncases)]
        cases, stats, samples, pf = [], {}, [], []
        for d in dicts:
            a = build_array(d)
            obs = run_np(a, d["rule"])
            n, lo, hi = summary_of(a)
            assert n == d["n"] and (n == 0 or (lo == d["lo"] and hi == d["hi"])), d
            cases.append(coq_case(d, obs))
            key = f"{d['rule']}/{d['dtype']}"
            stats[key] = stats.get(key, 0) + 1
            stats["style/" + d["style"]] = stats.get("style/" + d["style"], 0) + 1
            stats["errors"] = stats.get("errors", 0) + (obs[0] == "err")
            if obs[0] == "ok" and n > 0 and lo != hi:
                kx = bins_exact(d["rule"], n)
                if kind_of(d["dtype"]) == "i" and hi - lo < kx:
                    kx = hi - lo
                    stats["int_width_1"] = stats.get("int_width_1", 0) + 1
                if obs[1] != kx:
                    stats["one_bin_more_than_exact"] = stats.get("one_bin_more_than_exact", 0) + 1
                if exact_point(d["rule"], n):
                    stats["exact_points"] = stats.get("exact_points", 0) + 1
            bad = judge_case(d, obs)
            if bad and len(pf) < 20:
                pf.append(dict(case=d, clauses=bad, observed=list(obs[:2])))
            if len(samples) < 3 and n >= 5 and obs[0] == "ok":
                samples.append(dict(case=d, observed=[obs[1], obs[2][:6]]))
        os.makedirs(outdir, exist_ok=True)
        paths = []
        for k, sh in enumerate(shard(cases, 400)):
            p = os.path.join(outdir, f"{prefix}_{k}.v")
            body = "Definition cases : list ncase := [\n  " + ";\n  ".join(sh) + "\n]."
            write_case_file(p, "From MD Require Import model.NumpyRules corr.Decode corr.CmpNumpyRules.", body, "summary cases")
            paths.append(p)
        json.dump(dicts, open(os.path.join(outdir, prefix + "_cases.json"), "w"))
        stats["cases"] = len(cases)
        print(json.dumps(dict(paths=paths, shard_size=400, stats=stats, samples=samples, property_failures=pf)))
    elif mode == "corrbin":
        import run_binning as rb
        outdir, prefix, seed, ncases, nmax = sys.argv[2], sys.argv[3], int(sys.argv[4]), int(sys.argv[5]), int(sys.argv[6])
        rng = random.Random(seed)
        dicts = [dict(x) for x in BIN_FIXED] + [gen_bin_case(rng, nmax) for _ in range(ncases)]
        cases, stats, samples, found = [], {}, [], {}
        for d in dicts:
            obs = rb.run_impl(d)
            cases.append(coq_bin_case(d, obs))
            key = f"{d['ftype']}/{d['method']}"
            stats[key] = stats.get(key, 0) + 1
            stats["errors"] = stats.get("errors", 0) + (obs[0] == "err")
            rb.report(found, d, rb.judge_case(d, obs), obs)
            if len(samples) < 3 and len(d["values"]) >= 5 and obs[0] != "err":
                samples.append(dict(case=dict(d, values=d["values"][:12]), observed=[obs[0], obs[1], obs[2][:6]]))
        os.makedirs(outdir, exist_ok=True)
        paths = []
        for k, sh in enumerate(shard(cases, 200)):
            p = os.path.join(outdir, f"{prefix}_{k}.v")
            body = "Definition cases : list rcase := [\n  " + ";\n  ".join(sh) + "\n]."
            write_case_file(p, "From Coq Require Import String.\nFrom MD Require Import model.Binning model.NumpyRules corr.Decode corr.CmpBinning corr.CmpBinningRules.",
                            body, "CmpBinningRules.summary cases")
            paths.append(p)
        json.dump(dicts, open(os.path.join(outdir, prefix + "_cases.json"), "w"))
        stats["cases"] = len(cases)
        pf = [dict(case=dict(f["case"], values=f["case"]["values"][:40]), clauses=f["clauses"]) for f in found.values()]
        print(json.dumps(dict(paths=paths, shard_size=200, stats=stats, samples=samples, property_failures=pf)))
    elif mode == "judge":
        ds = json.load(open(sys.argv[2]))
        failures = []
        for d in ds:
            if "rule" in d:
                bad = judge_case(d)
            else:
                import run_binning as rb
                bad = rb.judge_case(d)
            if bad:
                failures.append(dict(case=d if "rule" in d else dict(d, values=d["values"][:40]), clauses=bad,
                                     observed=list(run_np(build_array(d), d["rule"])[:2]) if "rule" in d else None))
        print(json.dumps(dict(failures=failures[:50], n_failures=len(failures))))
    elif mode == "search":
        print(json.dumps(search(int(sys.argv[2]), int(sys.argv[3]))))
    else:
        raise SystemExit("mode?")


if __name__ == "__main__":
    main()
