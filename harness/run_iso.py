"""Entry point (run under /venv/bin/python with PYTHONPATH=/repo/src):

  run_iso.py corr   <outdir> <prefix> <seed> <ncases> <nmax> <functionals|all>
      writes case shards, prints JSON {paths, stats, samples, loss_only_failures}
  run_iso.py judge  <casefile.json>
      re-runs recorded cases (list of dicts) on the implementation, evaluates the
      property statement exactly, minimises failures; prints JSON
  run_iso.py search <seed> <budget> <functionals|all>
      directed search for an input on which the property itself fails
"""
import itertools
import json
import numpy as np
import random
import sys

import iso
import judge


def purity_check(rng, n=40):
    """C12 'inputs are never modified': byte-compare the caller's arrays."""
    import numpy as np
    from model_diagnostics._utils.isotonic import isotonic_regression
    bad = []
    for k in range(n):
        m = rng.randrange(1, 12)
        y = np.array(iso.gen_values(rng, m, rng.choice(iso.VALUE_STYLES)), dtype=float)
        fn = rng.choice(["mean", "median", "quantile", "expectile"])
        w = None if fn in ("median", "quantile") or rng.random() < 0.4 else np.array(iso.gen_weights(rng, m, "smallint"))
        y0, w0 = y.copy(), (None if w is None else w.copy())
        inc = rng.random() < 0.5
        isotonic_regression(y, w, increasing=inc, functional=fn, level=0.25)
        if y.tobytes() != y0.tobytes() or (w is not None and w.tobytes() != w0.tobytes()):
            bad.append(dict(y=y0.tolist(), w=None if w0 is None else w0.tolist(), functional=fn, increasing=inc))
    return bad


def minimise(d, fails):
    """greedy: drop elements / shrink values while `fails(d)` stays true"""
    cur = dict(d)
    changed = True
    while changed:
        changed = False
        n = len(cur["y"])
        for i in range(n):
            if n <= 1:
                break
            c = dict(cur)
            c["y"] = cur["y"][:i] + cur["y"][i + 1:]
            if cur["w"] is not None:
                c["w"] = cur["w"][:i] + cur["w"][i + 1:]
            if fails(c):
                cur, changed = c, True
                break
    for i in range(len(cur["y"])):
        for cand in (float(round(cur["y"][i])), 0.0, 1.0):
            if cand != cur["y"][i]:
                c = dict(cur)
                c["y"] = list(cur["y"])
                c["y"][i] = cand
                if fails(c):
                    cur = c
                    break
    return cur


EXPECTED_ERR = {"functional": "ValueError", "level0": "ValueError", "level1": "ValueError", "levelneg": "ValueError",
                "levelbig": "ValueError", "wlen": "ValueError", "wzero": "ValueError", "wneg": "ValueError",
                "wquantile": "NotImplementedError", "wmedian": "NotImplementedError"}


FLAGS = {"np.False_": np.False_, "np.True_": np.True_, "0": 0, "1": 1, "False": False, "True": True}


def observe(d):
    """the call the case describes: plain, with exotic dtypes, with the direction flag given as numpy bool / int, or
    through the estimator class re-parameterised via its public attributes"""
    if d.get("y_dtype") or d.get("w_dtype"):
        return iso.run_impl_dtypes(d["y"], d["w"], d["inc"], d["functional"], d["level"], d.get("y_dtype", "ndarray"), d.get("w_dtype", "ndarray"))
    if d.get("increasing_given_as") is not None:
        from model_diagnostics._utils.isotonic import isotonic_regression as _ir
        try:
            x_, r_ = _ir(np.asarray(d["y"], dtype=float), None if d["w"] is None else np.asarray(d["w"], dtype=float),
                         increasing=FLAGS[d["increasing_given_as"]], functional=d["functional"], level=d["level"])
            return ("ok", [float(v) for v in x_], [int(k) for k in r_])
        except Exception as e:  # noqa: BLE001
            return ("Other", type(e).__name__)
    if d.get("via") == "estimator":
        # IsotonicRegression built with OTHER hyper-parameters, fitted once, re-parameterised through its public attributes
        # (fit reads them at fit time), then fitted on X = 0..n-1: the predictions at X are the fit of the sequence
        from model_diagnostics._utils.isotonic import IsotonicRegression
        try:
            m = IsotonicRegression(increasing=not d["inc"], functional="mean", level=0.5)
            m.fit([0.0, 1.0, 2.0], [1.0, 0.0, 2.0])
            m.increasing, m.functional, m.level = d["inc"], d["functional"], d["level"]
            X = np.arange(len(d["y"]), dtype=float)
            m.fit(X, np.asarray(d["y"], dtype=float), None if d["w"] is None else np.asarray(d["w"], dtype=float))
            x_ = [float(v) for v in m.predict(X)]
            r_ = [0] + [i for i in range(1, len(x_)) if x_[i] != x_[i - 1]] + [len(x_)]
            return ("ok", x_, r_)
        except Exception as e:  # noqa: BLE001
            return ("Other", type(e).__name__)
    return iso.run_impl(d["y"], d["w"], d["inc"], d["functional"], d["level"])


def judge_case(d):
    obs = observe(d)
    if d.get("kind"):
        want = EXPECTED_ERR[d["kind"]]
        return ([] if obs[0] == want else [f"expected {want}, observed {obs[0]}"]), obs
    return judge.judge_iso(d["y"], d["w"], d["inc"], d["functional"], d["level"], obs), obs


def main():
    mode = sys.argv[1]
    if mode == "corr":
        outdir, prefix, seed, ncases, nmax, fns = sys.argv[2:8]
        fset = None if fns == "all" else set(fns.split(","))
        cases, stats, samples, loss_only, dicts = iso.build_cases(int(seed), int(ncases), int(nmax), fset)
        # float-unsafe quantile pairs: judged by the property statement only
        lo_fail = []
        for d, obs in loss_only:
            bad = judge.judge_iso(d["y"], d["w"], d["inc"], d["functional"], d["level"], obs)
            bad = [b for b in bad if b not in ("outside [smallest, largest optimal solution]",)]
            if bad:
                lo_fail.append(dict(case=d, clauses=bad))
        stats["loss_only_judged"] = len(loss_only)
        paths = iso.write_shards(cases, outdir, prefix)
        import os
        json.dump(dicts, open(os.path.join(outdir, prefix + '_cases.json'), 'w'))
        pur = purity_check(random.Random(int(seed) + 7)) if (fset is None or len(fset) > 1) else []
        print(json.dumps(dict(paths=paths, stats=stats, samples=samples, loss_only_failures=lo_fail[:5],
                              purity_failures=pur[:3])))
    elif mode == "judge":
        ds = json.load(open(sys.argv[2]))
        out = []
        for d in ds:
            bad, obs = judge_case(d)
            if bad:
                m = minimise(d, lambda c: bool(judge_case(c)[0]))
                mb, mo = judge_case(m)
                out.append(dict(case=m, clauses=mb, observed=mo))
        print(json.dumps(dict(failures=out)))
    elif mode == "search":
        seed, budget, fns = int(sys.argv[2]), int(sys.argv[3]), sys.argv[4]
        fset = ["mean", "median", "quantile", "expectile"] if fns == "all" else fns.split(",")
        found = []
        tried = 0
        # exhaustive small space first: sequences over {0,1,2}, weights over {1,2}
        for n in range(1, 7):
            if found or tried > budget:
                break
            for ys0 in itertools.product([0.0, 1.0, 2.0], repeat=n):
              for scale in ((1.0, 2.0 ** -30) if n <= 4 else (1.0,)):
                ys = tuple(v * scale for v in ys0)
                for fn in fset:
                    wopts = [None] if fn in ("median", "quantile") else [None, tuple([1.0, 2.0][(i * 7 + n) % 2] for i in range(n))]
                    for w in wopts:
                        for inc in (True, False):
                            for level in ([0.5] if fn in ("mean", "median") else [0.25, 0.5, 0.75]):
                                d = dict(y=list(ys), w=None if w is None else list(w), inc=inc, functional=fn, level=level)
                                tried += 1
                                bad, obs = judge_case(d)
                                if bad:
                                    found.append(dict(case=d, clauses=bad, observed=obs))
                                    break
                            if found:
                                break
                        if found:
                            break
                    if found:
                        break
                if found or tried > budget:
                    break
              if found or tried > budget:
                  break
        # dtype probes: the numbers are the same, the arrays are bool / small unsigned / int64 with fractional weights
        probes = [([1.0, 0.0], None, "boolarray", "ndarray"), ([1.0, 1.0, 0.0, 1.0, 0.0], None, "boolarray", "ndarray"),
                  ([3.0, 2.0, 1.0], [200.0, 100.0, 50.0], "ndarray", "uint8array"), ([2.0, 1.0, 3.0, 0.0], [130.0, 140.0, 1.0, 120.0], "ndarray", "uint8array"),
                  ([3.0, 1.0, 2.0, 5.0, 4.0], [1.5, 2.5, 1.0, 1.25, 3.75], "intarray", "ndarray"), ([2.0, 1.0, 1.0, 0.0], [0.5, 0.25, 2.75, 0.5], "intarray", "ndarray"),
                  # fractional responses with integer-typed weights (a cast of y to the weights' dtype would truncate them)
                  ([2.5, 0.75, 1.5, 3.25], [2.0, 1.0, 3.0, 1.0], "ndarray", "intarray"), ([0.5, 0.25, 0.75], [1.0, 4.0, 2.0], "ndarray", "intarray"),
                  ([1.5, 0.5, 2.5, 2.25, 0.125], [3.0, 1.0, 2.0, 2.0, 1.0], "list", "intarray")]
        for yv, wv, yk, wk in probes:
            for fn in fset:
                if fn in ("median", "quantile") and wv is not None:
                    continue
                for inc in (True, False):
                    if found:
                        break
                    tried += 1
                    lvl = 0.5 if fn in ("mean", "median") else 0.3
                    obs = iso.run_impl_dtypes(yv, wv, inc, fn, lvl, yk, wk)
                    if obs[0] != "ok" and (yk == "boolarray" or wk == "uint8array"):
                        continue      # rejecting an exotic dtype is fine; returning wrong numbers for it is not
                    bad = judge.judge_iso(yv, wv, inc, fn, lvl, obs)
                    if bad:
                        found.append(dict(case=dict(y=yv, w=wv, inc=inc, functional=fn, level=lvl, y_dtype=yk, w_dtype=wk), clauses=bad, observed=obs))
        # the direction flag given as numpy bool / int instead of a Python bool
        import numpy as _np
        from model_diagnostics._utils.isotonic import isotonic_regression as _ir
        for fn in fset:
            for flag, inc in ((_np.False_, False), (0, False), (_np.True_, True), (1, True)):
                if found:
                    break
                tried += 1
                yv = [5.0, 1.0, 4.0, 2.0, 0.0] if not inc else [0.0, 2.0, 1.0, 4.0, 3.0]
                lvl = 0.5 if fn in ("mean", "median") else 0.3
                try:
                    x_, r_ = _ir(_np.asarray(yv), increasing=flag, functional=fn, level=lvl)
                    obs = ("ok", [float(v) for v in x_], [int(k) for k in r_])
                except Exception as e:  # noqa: BLE001
                    obs = ("Other", type(e).__name__)
                bad = judge.judge_iso(yv, None, inc, fn, lvl, obs)
                if bad:
                    found.append(dict(case=dict(y=yv, w=None, inc=inc, functional=fn, level=lvl, increasing_given_as=repr(flag)), clauses=bad, observed=obs))
        # float-level corner cases: levels with many significant digits next to k/m, blocks mixing huge and small magnitudes,
        # subnormal responses, expectile levels next to 0 and 1
        corner = [([1e9, 0.0], None, True, "quantile", 0.4999999), ([0.0, 1e9], None, False, "quantile", 0.4999999),
                  ([4.0, 3.0, 2.0, 1.0], None, True, "quantile", 0.2499999), ([4.0, 3.0, 2.0, 1.0], None, True, "quantile", 0.7499999),
                  ([1e17, 3.0, 1.0], None, True, "median", 0.5), ([1e17, 3.0, 1.0], None, True, "quantile", 0.5), ([1e9, 0.3, 0.1, 0.2], None, True, "quantile", 0.5),
                  ([5e-324, 5e-324], None, True, "median", 0.5), ([1.5e-323, 1.5e-323, 1.5e-323], None, True, "quantile", 0.25), ([1e-323, 5e-324], None, True, "median", 0.5),
                  ([1.0, 0.0], None, True, "expectile", 1e-10), ([1.0, 0.0], None, True, "expectile", 1 - 1e-10), ([3.0, 1.0, 2.0], [1.0, 2.0, 1.0], True, "expectile", 1e-9),
                  ([1.0, 0.0], None, True, "mean", 0.5), ([1e17, 3.0, 1.0], None, True, "mean", 0.5)]
        for yv, wv, inc, fn, lvl in corner:
            if found or fn not in fset:
                continue
            tried += 1
            d = dict(y=yv, w=wv, inc=inc, functional=fn, level=lvl)
            bad, obs = judge_case(d)
            if bad:
                found.append(dict(case=d, clauses=bad, observed=obs))
        # the same fit through the estimator class, re-parameterised after construction
        for fn in fset:
            for inc in (True, False):
                for yv, wv in (([2.0, 0.0, 1.0, 4.0, 3.0], None), ([1.0, 3.0, 2.0, 2.0, 0.0, 5.0], [1.0, 2.0, 1.0, 3.0, 1.0, 2.0])):
                    if found or (wv is not None and fn in ("median", "quantile")):
                        continue
                    tried += 1
                    d = dict(y=yv if inc else yv[::-1], w=wv if (wv is None or inc) else wv[::-1], inc=inc, functional=fn,
                             level=0.5 if fn in ("mean", "median") else 0.3, via="estimator")
                    bad, obs = judge_case(d)
                    if bad:
                        found.append(dict(case=d, clauses=bad, observed=obs))
        rng = random.Random(seed)
        while not found and tried < budget:
            d = iso.gen_case(rng, 14)
            if d["functional"] not in fset:
                continue
            tried += 1
            bad, obs = judge_case(d)
            if bad:
                m = minimise(d, lambda c: bool(judge_case(c)[0]))
                mb, mo = judge_case(m)
                found.append(dict(case=m, clauses=mb, observed=mo))
        print(json.dumps(dict(tried=tried, failures=found[:3])))


if __name__ == "__main__":
    main()
