"""Driver library: regeneration from /repo, incremental Coq build, theorem
obligations with Print Assumptions, correspondence runs, violation protocol,
evidence files."""
import fcntl
import glob
import hashlib
import json
import os
import re
import subprocess
import sys
import time

VERIF = os.path.dirname(os.path.dirname(os.path.abspath(__file__)))
COQ = os.path.join(VERIF, "coq")
BUILD = os.path.join(VERIF, "build")
REPO = os.environ.get("VERIF_REPO", "/repo")
PY = "/venv/bin/python"

ALLOWED_AXIOMS = {
    "ClassicalDedekindReals.sig_forall_dec",
    "ClassicalDedekindReals.sig_not_dec",
    "FunctionalExtensionality.functional_extensionality_dep",
    "Classical_Prop.classic",
}
# specification axioms of the comparison primitives, DECLARED BY THE STANDARD LIBRARY (Floats.FloatAxioms); used only by
# proofs/PavaFloatMonotone.v (monotonicity of the binary64 twin when no NaN occurs)
FLOAT_SPEC_AXIOMS = {"eqb_spec", "ltb_spec", "leb_spec"}
TRUSTED_BASE = [
    "Coq 8.16.1 kernel (coqc, full .vo builds; vm_compute in comparators; no native_compute)",
    "standard-library axioms only, as printed by Print Assumptions: " + ", ".join(sorted(ALLOWED_AXIOMS)),
    "Coq's primitive binary64 floats (Floats.PrimFloat.* operations, kernel primitives) in model/PavaFloat.v, the bit-exact twin of the mean PAVA; "
    "the standard library's specification axioms FloatAxioms.eqb_spec, FloatAxioms.ltb_spec, FloatAxioms.leb_spec (primitive comparisons = SpecFloat's) "
    "under the monotonicity theorems of proofs/PavaFloatMonotone.v (C12_float_monotone*, C12_float_boundary_strict, C01_float_twin_monotone), nowhere else",
    "Coq's primitive Uint63 integers with the standard library's specification axioms (Numbers.Cyclic.Int63.*): used only by corr/Decode.v to read float mantissas in generated case files; they appear in coqchk's cone of files importing it, never under a theorem",
    "translator translate/pyexpr.py + gen_r.py (Python ast -> Gallina), validated by round trip against the implementation",
    "skeleton/leaf extraction translate/skeleton.py and the committed skeleton files",
    "correspondence harness (harness/*.py) and comparator tolerances (1e-9 relative; exact on discrete outputs where float arithmetic is exact)",
    "numpy / scipy / polars / scikit-learn / matplotlib primitives are modelled by their documented meaning, not verified",
]
FORBIDDEN = re.compile(r"\b(Admitted|admit|Axiom|Parameter|Conjecture|Unset Guard|bypass_check|type-in-type|Admit Obligations)\b")


def impl_env():
    env = dict(os.environ)
    env["PYTHONPATH"] = os.path.join(REPO, "src") + os.pathsep + os.path.join(VERIF, "harness") + os.pathsep + os.path.join(VERIF, "translate") + os.pathsep + os.path.join(BUILD, "gen_py")
    env["PYTHONHASHSEED"] = "0"
    env["MPLBACKEND"] = "Agg"
    env["PYTHONWARNINGS"] = "ignore"
    env["MODEL_DIAGNOSTICS_VERIF"] = "1"
    return env


class Ctx:
    def __init__(self, pid, tier, seed):
        self.pid, self.tier, self.seed = pid, tier, seed
        self.t0 = time.time()
        self.obligations = []     # (name, kind, ok, detail)
        self.violations = []      # (replay_path, has_input)
        self.known = []
        self.coverage_extra = {}
        self.samples = []
        self.assumptions = {}
        self.notes = []

    def ob(self, name, kind, ok, detail=""):
        self.obligations.append(dict(name=name, kind=kind, ok=bool(ok), detail=detail[-1500:] if detail else ""))
        return ok

    def failed(self):
        return [o for o in self.obligations if not o["ok"]]


# ------------------------------------------------------------------ build
def _lock():
    os.makedirs(BUILD, exist_ok=True)
    f = open(os.path.join(BUILD, ".lock"), "w")
    fcntl.flock(f, fcntl.LOCK_EX)
    return f


def regen(ctx=None):
    """Regenerate coq/gen from the current /repo. Returns (ok, message)."""
    os.makedirs(os.path.join(COQ, "gen"), exist_ok=True)
    os.makedirs(os.path.join(BUILD, "gen_py"), exist_ok=True)
    msgs, ok = [], True
    for script in ("gen_r.py", "gen_q.py", "gen_f.py"):     # gen_f: the same IR printed over primitive binary64 floats
        p = os.path.join(VERIF, "translate", script)
        if not os.path.exists(p):
            continue
        r = subprocess.run([sys.executable, p, REPO, os.path.join(COQ, "gen"), os.path.join(BUILD, "gen_py")],
                           capture_output=True, text=True, timeout=300)
        if r.returncode != 0:
            ok = False
        msgs.append(f"{script}: exit {r.returncode} {r.stdout.strip()} {r.stderr.strip()[-800:]}")
    return ok, "\n".join(msgs)


def wip_files():
    """files listed in coq/WIP.txt are work in progress: not part of the build, of the scan or of any claim"""
    p = os.path.join(COQ, "WIP.txt")
    if not os.path.exists(p):
        return set()
    return {l.strip() for l in open(p) if l.strip() and not l.startswith("#")}


def coqproject():
    files = []
    wip = wip_files()
    for d in ("lib", "theory", "model", "spec", "gen", "bridge", "proofs", "props", "corr"):
        files += [f for f in sorted(glob.glob(os.path.join(COQ, d, "*.v"))) if os.path.relpath(f, COQ) not in wip]
    text = "-Q . MD\n-arg -w -arg none\n" + "\n".join(os.path.relpath(f, COQ) for f in files) + "\n"
    p = os.path.join(COQ, "_CoqProject")
    changed = not os.path.exists(p) or open(p).read() != text
    if changed:
        open(p, "w").write(text)
    if changed or not os.path.exists(os.path.join(COQ, "Makefile")):
        subprocess.run(["coq_makefile", "-f", "_CoqProject", "-o", "Makefile"], cwd=COQ, check=True,
                       capture_output=True, text=True)
    return files


def make(targets, timeout=3000):
    """make -k the given .vo targets (relative to coq/). Returns (ok, log)."""
    lk = _lock()
    try:
        coqproject()
        r = subprocess.run(["timeout", str(timeout), "make", "-k", "-j16"] + list(targets), cwd=COQ,
                           capture_output=True, text=True)
        return r.returncode == 0, (r.stdout + r.stderr)
    finally:
        lk.close()


def failing_files(log):
    return sorted(set(re.findall(r'File "\./([^"]+)"', log)))


_TH = re.compile(r"^\s*(Theorem|Lemma|Corollary|Example)\s+([A-Za-z0-9_']+)", re.M)


def compile_props(ctx, pid):
    """Compile props/<pid>.v directly to collect Print Assumptions output.
    Every Theorem in the file is an obligation; its axioms must be allowed."""
    src = os.path.join(COQ, "props", f"{pid}.v")
    text = open(src).read()
    names = [m.group(2) for m in _TH.finditer(text)]
    ok, log = make([f"props/{pid}.vo"])
    if not ok:
        bad = failing_files(log)
        for n in names:
            ctx.ob(f"theorem {n}", "theorem", False, f"build failed in {bad}: " + log[-1200:])
        return False, log
    r = subprocess.run(["timeout", "900", "coqc", "-Q", ".", "MD", "-w", "none", f"props/{pid}.v"], cwd=COQ,
                       capture_output=True, text=True)
    out = r.stdout + r.stderr
    if r.returncode != 0:
        for n in names:
            ctx.ob(f"theorem {n}", "theorem", False, out[-1200:])
        return False, out
    # parse "Axioms:" blocks / "Closed under the global context" in order of Print Assumptions
    pa = re.findall(r"Print Assumptions\s+([A-Za-z0-9_'.]+)\s*\.", text)
    blocks = re.split(r"(?=Closed under the global context|Axioms:)", out)
    blocks = [b for b in blocks if b.startswith("Closed") or b.startswith("Axioms:")]
    allok = True
    for i, n in enumerate(names):
        if n not in pa:
            ctx.ob(f"theorem {n}", "theorem", False, "no Print Assumptions for this theorem")
            allok = False
            continue
        j = pa.index(n)
        if j >= len(blocks):
            ctx.ob(f"theorem {n}", "theorem", False, "Print Assumptions output missing")
            allok = False
            continue
        b = blocks[j]
        if b.startswith("Closed"):
            axs = []
        else:
            axs = [a for a in re.findall(r"^([A-Za-z_][A-Za-z0-9_'.]*)\s*:", b, re.M) if a != "Axioms"]
        # Coq prints its primitive types and operations (float, PrimFloat.*, PrimInt63.*) under "Axioms:"; they are
        # kernel primitives, not assumptions (no FloatAxioms / Uint63 specification axiom is among the allowed names)
        # recognised by their TYPE: only float / int / bool / comparison / float_class / Set occur in it
        decl = dict(re.findall(r"^([A-Za-z_][A-Za-z0-9_'.]*)\s*:\s*(.*?)(?=^\S|\Z)", b, re.M | re.S))
        def primitive(a):
            t = decl.get(a, "")
            toks = set(re.findall(r"[A-Za-z_][A-Za-z0-9_'.]*", t))
            return bool(toks) and toks <= {"float", "int", "bool", "Set", "comparison", "float_comparison", "float_class", "PrimFloat.float", "PrimInt63.int",
                                           "FloatClass.float_class", "PrimFloat.float_comparison", "PrimFloat.float_class"}
        prim = [a for a in axs if primitive(a)]
        fspec = [a for a in axs if a.split(".")[-1] in FLOAT_SPEC_AXIOMS and a.split(".")[:-1] in ([], ["FloatAxioms"], ["Floats", "FloatAxioms"])
                 and "Prim2SF" in decl.get(a, "")]
        bad = [a for a in axs if a not in ALLOWED_AXIOMS and a not in prim and a not in fspec]
        ctx.assumptions[n] = axs
        if not ctx.ob(f"theorem {n}", "theorem", not bad, "axioms: " + ", ".join(axs)):
            allok = False
    return allok, out


def coqchk(ctx, pid):
    """independent re-check of props/<pid>.vo and everything it depends on (thorough tier); the axioms coqchk reports
    for the whole dependency cone (standard library included) must be within the allowed list"""
    r = subprocess.run(["timeout", "2400", "coqchk", "-silent", "-Q", ".", "MD", "-o", f"MD.props.{pid}"], cwd=COQ, capture_output=True, text=True)
    out = r.stdout + r.stderr
    m = re.search(r"\* Axioms:(.*?)\* Constants/Inductives relying on type-in-type:(.*?)\* Constants/Inductives relying on unsafe \(co\)fixpoints:(.*?)\* Inductives whose positivity is assumed:(.*)", out, re.S)
    if r.returncode != 0 or not m:
        return ctx.ob("coqchk re-check of the property file and its dependency cone", "theorem", False, out[-1500:])
    axs = [a.strip() for a in m.group(1).split() if a.strip() and a.strip() != "<none>"]
    axs = [a[4:] if a.startswith("Coq.") else a for a in axs]
    short = {a.split(".", 1)[1] if a.split(".")[0] in ("Logic", "Reals") else a for a in axs}
    # Coq's primitive 63-bit integers and the specification axioms the standard library declares for them
    # (Numbers.Cyclic.Int63.*) appear in the cone of every file that imports corr/Decode.v (case-file decoding);
    # they are the standard library's, are named in the trusted base, and never occur under Print Assumptions of a theorem
    # ... and Coq's primitive float operations (Floats.PrimFloat.*: kernel primitives used by model/PavaFloat.v, the bit-exact
    # binary64 twin; the specification axioms of Floats.FloatAxioms are NOT among them and would be flagged)
    # coqchk -o lists every axiom of every LOADED library: Floats.FloatAxioms (loaded by proofs/PavaFloatMonotone.v: C01 and C12)
    # declares 24 specification axioms, of which Print Assumptions shows three under the C12_float_monotone* theorems
    prim = sorted(a for a in short if a.startswith("Numbers.Cyclic.Int63.") or a.startswith("Floats.PrimFloat.") or a.startswith("Floats.FloatAxioms."))
    short = {a for a in short if a not in prim}
    bad = [a for a in short if a not in ALLOWED_AXIOMS and a not in {"Floats.FloatAxioms." + x for x in FLOAT_SPEC_AXIOMS}]
    clean = all("<none>" in m.group(i) for i in (2, 3, 4))
    ctx.assumptions["coqchk -o (whole dependency cone)"] = sorted(short) + (["Numbers.Cyclic.Int63.* / Floats.PrimFloat.* / Floats.FloatAxioms.* (%d stdlib primitives and the specification axioms of the loaded libraries Uint63 (corr/Decode.v) and FloatAxioms (proofs/PavaFloatMonotone.v); per theorem see Print Assumptions)" % len(prim)] if prim else [])
    return ctx.ob("coqchk re-check of the property file and its dependency cone (axioms within the allowed list; no type-in-type, unsafe fixpoints or assumed positivity)",
                  "theorem", not bad and clean, out[-1200:])


def scan_forbidden(ctx):
    bad = []
    for d in ("lib", "theory", "model", "spec", "gen", "bridge", "proofs", "props", "corr"):
        for f in glob.glob(os.path.join(COQ, d, "*.v")):
            if os.path.relpath(f, COQ) in wip_files():
                continue
            txt = re.sub(r"\(\*.*?\*\)", "", open(f).read(), flags=re.S)
            for m in FORBIDDEN.finditer(txt):
                bad.append(f"{os.path.relpath(f, COQ)}: {m.group(0)}")
    return ctx.ob("no Admitted/Axiom/Parameter anywhere in the development", "scan", not bad, "; ".join(bad))


# --------------------------------------------------------- harness subprocess
def run_harness(module, args, timeout=3000):
    """Runs harness/<module>.py under the implementation's interpreter.
    The harness prints one JSON object on its last stdout line."""
    r = subprocess.run([PY, os.path.join(VERIF, "harness", module + ".py")] + [str(a) for a in args],
                       capture_output=True, text=True, env=impl_env(), timeout=timeout, cwd=VERIF)
    last = r.stdout.strip().splitlines()[-1] if r.stdout.strip() else ""
    try:
        data = json.loads(last)
    except Exception:  # noqa: BLE001
        data = None
    return r.returncode, data, (r.stdout[-3000:] + r.stderr[-3000:])


# -------------------------------------------------------------- violations
def write_replay(pid, payload):
    os.makedirs(os.path.join(VERIF, "replays"), exist_ok=True)
    h = hashlib.sha1(json.dumps(payload, sort_keys=True, default=str).encode()).hexdigest()[:12]
    p = os.path.join(VERIF, "replays", f"{pid}-{h}.json")
    with open(p, "w") as f:
        json.dump(payload, f, indent=1, default=str)
    return p


def load_known():
    p = os.path.join(VERIF, "known_findings.json")
    if not os.path.exists(p):
        return []
    return json.load(open(p)).get("findings", [])


def known_matches(k, f):
    """A known-findings entry matches a failing input when every string of its `match` list occurs in the JSON
    of the case, and (if given) the case's api starts with one of `api_prefixes`.  Entries are written by hand
    in known_findings.json and identify one specific failing input class / call site."""
    case = f.get("case") if isinstance(f, dict) else None
    key = json.dumps(case, sort_keys=True, default=str) + " " + json.dumps(f.get("clauses") if isinstance(f, dict) else None, default=str)
    ms = k.get("match")
    if isinstance(ms, str):
        ms = [ms]
    if not ms or not all(m in key for m in ms):
        return False
    apis = k.get("api_prefixes")
    if apis:
        api = str(case.get("api", "")) if isinstance(case, dict) else ""
        if not any(api.startswith(a) for a in apis):
            return False
    return True


def finish(ctx, level="proof", rule="", checker_cmd=""):
    """Writes evidence, prints VIOLATION / KNOWN-FINDING lines, returns exit code."""
    # every listed known finding is replayed on the current tree: it is reported while it still fails
    for k in load_known():
        if k.get("property") == ctx.pid and k.get("status") == "known" and k.get("repro"):
            r = subprocess.run([PY, "-W", "ignore", "-c", k["repro"]], capture_output=True, text=True, env=impl_env(), timeout=300)
            still = r.returncode == 0 and "STILL-FAILS" in r.stdout
            ctx.notes.append(f"known finding replayed: {'still fails' if still else 'no longer reproduces'}: {k['what'][:120]}")
            if still and k["what"] not in ctx.known:
                ctx.known.append(k["what"])
            if not still and k["what"] in ctx.known:
                pass
    nob = len(ctx.obligations)
    ndis = sum(1 for o in ctx.obligations if o["ok"])
    for k in ctx.known:
        print(f"KNOWN-FINDING: property={ctx.pid} {k}")
    code = 0
    for path, has_input in ctx.violations:
        print(f"VIOLATION property={ctx.pid} replay={path}" + ("" if has_input else " no-failing-input-found"))
        code = 1
    cov = dict(
        obligations=nob, discharged=ndis,
        checker_cmd=checker_cmd or f"./check {ctx.pid} --tier {ctx.tier}",
        trusted_base=TRUSTED_BASE,
        obligation_list=[dict(name=o["name"], kind=o["kind"], ok=o["ok"]) for o in ctx.obligations],
        failed=[o for o in ctx.obligations if not o["ok"]],
        axioms_per_theorem=ctx.assumptions,
        samples=ctx.samples[:5] if ctx.samples else [o["name"] for o in ctx.obligations[:5]],
        rule=rule,
        known_findings_reported=ctx.known,
    )
    cov.update(ctx.coverage_extra)
    ev = dict(property_id=ctx.pid, tier=ctx.tier, seed=ctx.seed, level=level, coverage=cov,
              assumptions=TRUSTED_BASE + ctx.notes, wall_s=round(time.time() - ctx.t0, 2),
              violations=len(ctx.violations))
    os.makedirs(os.path.join(VERIF, "evidence"), exist_ok=True)
    with open(os.path.join(VERIF, "evidence", f"{ctx.pid}.json"), "w") as f:
        json.dump(ev, f, indent=1, default=str)
    print(f"{ctx.pid}: obligations {ndis}/{nob} discharged, violations {len(ctx.violations)}, "
          f"known findings {len(ctx.known)}, {ev['wall_s']} s")
    return code
