def length_of_first_dimension(a: npt.ArrayLike) -> int:
    """Return length of first dimension."""
    if hasattr(a, "shape"):
        if len(a.shape) < 1:
            msg = "Array-like object has zero length first dimension."
            raise ValueError(msg)
        else:
            return a.shape[0]
    elif hasattr(a, "length") and callable(a.length):
        return a.length()
    elif hasattr(a, "__len__"):
        return len(a)  # type: ignore
    else:
        msg = "Unable to determine array-like object's length of first dimension."
        raise ValueError(msg)
