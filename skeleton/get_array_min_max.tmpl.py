def get_array_min_max(a: npt.ArrayLike):
    """Get min and max over all elements of ArrayLike.

    Returns
    -------
    a_min :
        The minimum value of a.
    a_max :
        The maximum value of a.
    """
    if hasattr(a, "max") and hasattr(a, "min"):
        a_min, a_max = a.min(), a.max()
        if hasattr(a_min, "to_numpy"):
            # Polars and pandas dataframes return min/max per column and have different
            # semantics of a second call a_min.min() wrt the axis argument. Therefor we
            # simply convert to numpy.
            a_min, a_max = a_min.to_numpy().min(), a_max.to_numpy().max()
    else:
        a_min, a_max = np.min(a), np.max(a)
    return a_min, a_max
