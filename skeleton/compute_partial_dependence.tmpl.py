def compute_partial_dependence(pred_fun: Callable, X: npt.ArrayLike, feature_index: int, grid: npt.ArrayLike, weights: Optional[npt.ArrayLike]=None, n_max: int=1000, rng: Optional[Union[np.random.Generator, int]]=None):
    n = length_of_first_dimension(X)
    n_grid = length_of_first_dimension(grid)
    if n_max is not None and n > n_max:
        rng_ = np.random.default_rng(rng)
        row_indices = rng_.choice(n, size=n_max, replace=False)
        X = safe_index_rows(X, row_indices)
        if weights is not None:
            weights = safe_index_rows(weights, row_indices)
        n = n_max
    elif hasattr(X, 'copy'):
        X = X.copy()
    elif is_pyarrow_table(X) or isinstance(X, pl.DataFrame):
        pass
    else:
        X = copy.deepcopy(X)
    X_stacked = safe_index_rows(X, np.tile(np.arange(n), n_grid))
    grid_stacked = safe_index_rows(grid, np.repeat(np.arange(n_grid), n))
    if is_pandas_df(X):
        X_stacked = X_stacked.reset_index(drop=True)
    X_stacked = safe_assign_column(X_stacked, values=grid_stacked, column_index=feature_index)
    y_pred = pred_fun(X_stacked)
    if hasattr(y_pred, 'to_numpy'):
        y_pred = y_pred.to_numpy()
    pd_values = np.average(y_pred.reshape(n_grid, y_pred.shape[0] // n_grid), axis=1, weights=weights)
    return pd_values
