def safe_assign_column(x, values, column_index):
    """Safely assign values array to a column of an array_like x.

    Parameters
    ----------
    x : array-like
        Array to be modified. It is expected to be 2-dimensional.

    values : ndarray
        The values to be assigned to `x`.

    column_index : int
        Index of the column / second dimension.

    Returns
    -------
    x : Modified `x` with the new assign column.
    """
    if isinstance(x, list):
        # Multiple rows may point to the same underlying object, e.g. a result of
        # repeated indices like safe_index_rows(x, [0, 0, 1, 1]). Therefore, we must
        # be careful, i.e. (shallow) copy the rows.
        if hasattr(x[0], "copy"):

            def copy_element(x):
                return x.copy()
        elif hasattr(x[0], "clone"):

            def copy_element(x):
                return x.clone()
        else:

            def copy_element(x):
                return copy.copy(x)

        try:
            row = copy_element(x[0])
            row[column_index] = values[0]
        except Exception as e:
            e.add_note("Unable to set item in safe_assign_column of a list object.")
            raise
        if row[column_index] != values[0]:
            msg = "Elements of the list can't be assigned new vlues."
            raise ValueError(msg)

        for i in range(len(x)):
            row = copy_element(x[i])
            row[column_index] = values[i]
            x[i] = row
    elif is_pandas_df(x):
        try:
            # Avoid deprecation warning of pandas by handling dtype explicitly.
            #   Setting an item of incompatible dtype is deprecated and will raise in a
            #   future error of pandas.
            # Also, assigning with a different index makes troubles.
            pd = sys.modules["pandas"]
            dtype = x.dtypes.iloc[column_index]
            if isinstance(values, pl.Series) and isinstance(
                values.dtype, pl.Categorical
            ):
                # FIXME: pyarrow not installed
                pd_values = pd.Series(
                    data=values.cast(pl.Utf8).to_numpy(),
                    dtype=dtype,
                )
            else:
                pd_values = pd.Series(
                    data=values.to_pandas()
                    if isinstance(values, pl.Series)
                    else values,
                    dtype=dtype,
                )
            if parse(version("pandas")) < Version("2.0.0"):
                # FIXME: pandas >= 2.0 (<2.0 means 1.5.*)
                with warnings.catch_warnings():
                    msg = (
                        r"In a future version, `df.iloc\[:, i\] = newvals` will "
                        r"attempt to set the values inplace instead of always "
                        r"setting a new array. To retain the old behavior, use either "
                        r"`df\[df.columns\[i\]\] = newvals` or, if columns are "
                        r"non-unique, `df.isetitem\(i, newvals\)`"
                    )
                    warnings.filterwarnings(
                        "ignore", category=DeprecationWarning, message=msg
                    )
                    if not x.index.is_unique:
                        # Pandas might error with:
                        #   cannot reindex on an axis with duplicate labels
                        # Try reindexing ourselves.
                        x = x.reset_index()
                    if not pd_values.index.is_unique:
                        pd_values = pd_values.reset_index()
                    x.iloc[:, column_index] = pd_values
            else:
                x.iloc[:, column_index] = pd_values
        except Exception as e:
            # FIXME: pyarrow version XXX
            # Older pyarrow versions of AttributeError do not have a 'add_note' method.
            args = e.args
            msg = (
                args[0]
                + "\nThe problem might be fixable with newer versions of pandas, polars"
                " or pyarrow."
            )
            raise type(e)(msg, *args[1:]) from e
    elif is_pyarrow_table(x):
        x = x.set_column(column_index, x.column_names[column_index], [values])
    elif isinstance(x, pl.DataFrame):
        cname = x.columns[column_index]
        dtype = x.get_column(cname).dtype
        new_col = pl.Series(values)
        if not (dtype.is_integer() and new_col.dtype.is_float()):
            # Keep the column's dtype (e.g. categorical, enum), but never truncate
            # float values into an integer column.
            new_col = pl.Series(values, dtype=dtype)
        x = x.with_columns(new_col.alias(cname))
    else:  # numpy array or other array-like
        if isinstance(x, np.ndarray):
            values = np.asarray(values)
            if not np.can_cast(values.dtype, x.dtype, casting="same_kind"):
                # E.g. float values into an integer array: upcast instead of truncate.
                x = x.astype(np.result_type(x.dtype, values.dtype))
        x[:, column_index] = values
    return x
