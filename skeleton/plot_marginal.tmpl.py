def plot_marginal(
    y_obs: npt.ArrayLike,
    y_pred: npt.ArrayLike,
    X: npt.ArrayLike,
    feature_name: Union[str, int],
    predict_function: Optional[Callable] = None,
    weights: Optional[npt.ArrayLike] = None,
    *,
    n_bins: int = 10,
    bin_method: str = "sturges",
    n_max: int = 1000,
    rng: Optional[Union[np.random.Generator, int]] = None,
    ax: Optional[mpl.axes.Axes] = None,
    show_lines: str = "numerical",
):
    """Plot marginal observed and predicted conditional on a feature.

    This plot provides a means to inspect a model per feature.
    The average of observed and predicted are plotted as well as a histogram of the
    feature.

    Parameters
    ----------
    y_obs : array-like of shape (n_obs)
        Observed values of the response variable.
        For binary classification, y_obs is expected to be in the interval [0, 1].
    y_pred : array-like of shape (n_obs)
        Predicted values, e.g. for the conditional expectation of the response,
        `E(Y|X)`.
    X : array-like of shape (n_obs, n_features)
        The dataframe or array of features to be passed to the model predict function.
    feature_name : str or int
        Column name (str) or index (int) of feature in `X`.
    predict_function : callable or None
        A callable to get prediction, i.e. `predict_function(X)`. Used to compute
        partial dependence. If `None`, partial dependence is omitted.
    weights : array-like of shape (n_obs) or None
        Case weights. If given, the bias is calculated as weighted average of the
        identification function with these weights.
    n_bins : int
        The number of bins, at least 2. For numerical features, `n_bins` only applies
        when `bin_method` is set to `"quantile"` or `"uniform"`.
        For string-like and categorical features, the most frequent values are taken.
        Ties are dealt with by taking the first value in natural sorting order.
        The remaining values are merged into `"other n"` with `n` indicating the unique
        count.

        I present, null values are always included in the output, accounting for one
        bin. NaN values are treated as null values.
    bin_method : str
        The method for finding bin edges (boundaries). Options using `n_bins` are:

        - `"quantile"`
        - `"uniform"`

        Options automatically selecting the number of bins for numerical features
        thereby using uniform bins are same options as
        [numpy.histogram_bin_edges](https://numpy.org/doc/stable/reference/generated/numpy.histogram_bin_edges.html):

        - `"auto"`
        Minimum bin width between the `"sturges"` and `"fd"` estimators. Provides good
        all-around performance.
        - `"fd"` (Freedman Diaconis Estimator)
        Robust (resilient to outliers) estimator that takes into account data
        variability and data size.
        - `"doane"`
        An improved version of Sturges' estimator that works better with non-normal
        datasets.
        - `"scott"`
        Less robust estimator that takes into account data variability and data size.
        - `"stone"`
        Estimator based on leave-one-out cross-validation estimate of the integrated
        squared error. Can be regarded as a generalization of Scott's rule.
        - `"rice"`
        Estimator does not take variability into account, only data size. Commonly
        overestimates number of bins required.
        - `"sturges"`
        R's default method, only accounts for data size. Only optimal for gaussian data
        and underestimates number of bins for large non-gaussian datasets.
        - `"sqrt"`
        Square root (of data size) estimator, used by Excel and other programs for its
        speed and simplicity.

    n_max : int or None
        Used only for partial dependence computation. The number of rows to subsample
        from X. This speeds up computation, in particular for slow predict functions.
    rng : np.random.Generator, int or None
        Used only for partial dependence computation. The random number generator used
        for subsampling of `n_max` rows. The input is internally wrapped by
        `np.random.default_rng(rng)`.
    ax : matplotlib.axes.Axes or plotly Figure
        Axes object to draw the plot onto, otherwise uses the current Axes.
    show_lines : str
        Option for how to display mean values and partial dependence:

        - `"always"`: Always draw lines.
        - `"numerical"`: String and categorical features are drawn as points, numerical
          ones as lines.

    Returns
    -------
    ax :
        Either the matplotlib axes or the plotly figure. This is configurable by
        setting the `plot_backend` via
        [`model_diagnostics.set_config`][model_diagnostics.set_config] or
        [`model_diagnostics.config_context`][model_diagnostics.config_context].

    Examples
    -----
    If you wish to plot multiple features at once with subfigures, here is how to do it
    with matplotlib:

    ```py
    from math import ceil
    import matplotlib.pyplot as plt
    import numpy as np
    from model_diagnostics.calibration import plot_marginal

    # Replace by your own data and model.
    n_obs = 100
    y_obs = np.arange(n_obs)
    X = np.ones((n_obs, 2))
    X[:, 0] = np.sin(np.arange(n_obs))
    X[:, 1] = y_obs ** 2

    def model_predict(X):
        s = 0.5 * n_obs * np.sin(X)
        return s.sum(axis=1) + np.sqrt(X[:, 1])

    # Now the plotting.
    feature_list = [0, 1]
    n_rows, n_cols = ceil(len(feature_list) / 2), 2
    fig, axs = plt.subplots(nrows=n_rows, ncols=n_cols, sharey=True)
    for i, ax in enumerate(axs):
        plot_marginal(
            y_obs=y_obs,
            y_pred=model_predict(X),
            X=X,
            feature_name=feature_list[i],
            predict_function=model_predict,
            ax=ax,
        )
    fig.tight_layout()
    ```

    For plotly, use the helper function
    [`add_marginal_subplot`][model_diagnostics.calibration.plots.add_marginal_subplot]:

    ```py
    from math import ceil
    import numpy as np
    from model_diagnostics import config_context
    from plotly.subplots import make_subplots
    from model_diagnostics.calibration import add_marginal_subplot, plot_marginal

    # Replace by your own data and model.
    n_obs = 100
    y_obs = np.arange(n_obs)
    X = np.ones((n_obs, 2))
    X[:, 0] = np.sin(np.arange(n_obs))
    X[:, 1] = y_obs ** 2

    def model_predict(X):
        s = 0.5 * n_obs * np.sin(X)
        return s.sum(axis=1) + np.sqrt(X[:, 1])

    # Now the plotting.
    feature_list = [0, 1]
    n_rows, n_cols = ceil(len(feature_list) / 2), 2
    fig = make_subplots(
        rows=n_rows,
        cols=n_cols,
        vertical_spacing=0.3 / n_rows,  # equals default
        # subplot_titles=feature_list,  # maybe
        specs=[[{"secondary_y": True}] * n_cols] * n_rows,  # This is important!
    )
    for row in range(n_rows):
        for col in range(n_cols):
            i = n_cols * row + col
            with config_context(plot_backend="plotly"):
                subfig = plot_marginal(
                    y_obs=y_obs,
                    y_pred=model_predict(X),
                    X=X,
                    feature_name=feature_list[i],
                    predict_function=model_predict,
                )
            add_marginal_subplot(subfig, fig, row, col)
    fig.show()
    ```

    """
    if ax is None:
        plot_backend = get_config()["plot_backend"]
        if plot_backend == "matplotlib":
            ax = plt.gca()
        else:
            from plotly.subplots import make_subplots

            # fig = ax = go.Figure()
            fig = ax = make_subplots(specs=[[{"secondary_y": True}]])
    elif isinstance(ax, mpl.axes.Axes):
        plot_backend = "matplotlib"
    elif is_plotly_figure(ax):
        plot_backend = "plotly"
        fig = ax
        # Take care to mimick make_subplots for secondary y axis.
        # The following code is by comparing
        #   make_subplots(specs=[[{"secondary_y": True}]])
        # vs
        #   go.Figure()
        if not hasattr(fig.layout, "yaxis2"):
            fig.update_layout(
                xaxis={"anchor": "y", "domain": [0.0, 0.94]},
                yaxis={"anchor": "x", "domain": [0.0, 1.0]},
                yaxis2={"anchor": "x", "overlaying": "y", "side": "right"},
            )
            SubplotRef = collections.namedtuple(  # noqa: PYI024
                "SubplotRef", ("subplot_type", "layout_keys", "trace_kwargs")
            )
            fig._grid_ref = [  # noqa: SLF001
                [
                    (
                        SubplotRef(
                            subplot_type="xy",
                            layout_keys=("xaxis", "yaxis"),
                            trace_kwargs={"xaxis": "x", "yaxis": "y"},
                        ),
                        SubplotRef(
                            subplot_type="xy",
                            layout_keys=("xaxis", "yaxis2"),
                            trace_kwargs={"xaxis": "x", "yaxis": "y2"},
                        ),
                    )
                ]
            ]
            fig._grid_str = "This is the format of your plot grid:\n[ (1,1) x,y,y2 ]\n"  # noqa: SLF001
    else:
        msg = (
            "The ax argument must be None, a matplotlib Axes or a plotly Figure, "
            f"got {type(ax)}."
        )
        raise ValueError(msg)

    if show_lines not in ("always", "numerical"):
        msg = (
            f"The argument show_lines mut be 'always' or 'numerical'; got {show_lines}."
        )
        raise ValueError(msg)

    # estimator = getattr(predict_callable, "__self__", None)
    n_pred = length_of_second_dimension(y_pred)
    if n_pred > 1:
        msg = (
            f"Parameter y_pred has shape (n_obs, {n_pred}), but only "
            "(n_obs) and (n_obs, 1) are allowd."
        )
        raise ValueError(msg)

    df = compute_marginal(
        y_obs=y_obs,
        y_pred=y_pred,
        X=X,
        feature_name=feature_name,
        predict_function=predict_function,
        weights=weights,
        n_bins=n_bins,
        bin_method=bin_method,
        n_max=n_max,
        rng=rng,
    )
    feature_name = df.columns[0]

    feature_has_nulls = df[feature_name].null_count() > 0
    n_bins_eff = df.shape[0] - feature_has_nulls
    # If df contains the columns "bin_edges", it's a numerical feature.
    is_categorical = "bin_edges" not in df.columns

    n_x = df[feature_name].n_unique()

    # marginal plot
    if is_categorical and feature_has_nulls:
        # We want the Null values at the end and therefore sort again.
        df = df.sort(feature_name, descending=False, nulls_last=True)
    df_no_nulls = df.filter(pl.col(feature_name).is_not_null())

    # Numerical columns are sometimes better treated as categorical.
    num_as_cat = False
    if not is_categorical:
        bin_edges = df_no_nulls.get_column("bin_edges")
        num_as_cat = (
            # left bin edge = right bin edge
            (bin_edges.arr.first() == bin_edges.arr.last())
            # feature == left bin edge
            | (bin_edges.arr.first() == df_no_nulls.get_column(feature_name))
            # feature == right bin edge
            | (bin_edges.arr.last() == df_no_nulls.get_column(feature_name))
            # standard deviation of feature in bin == 0
            | (bin_edges.arr.get(1) == 0)
        ).all()

    # First the histogram of weights on secondary y-axis.
    # Other graph elements should appear on top of it. For plotly, we therefore need to
    # plot the histogram on the primary y-axis and put primary to the right and
    # secondary to the left. All other plotly graphs are put on the secondary yaxis.
    #
    # We x-shift a little for a better visual.
    x = (
        np.arange(n_x - feature_has_nulls)
        if is_categorical
        else df_no_nulls[feature_name]
    )
    if plot_backend == "matplotlib":
        ax2 = ax.twinx()
        if is_categorical or num_as_cat:
            ax2.bar(
                x=x,
                height=df_no_nulls["weights"] / df["weights"].sum(),
                color="lightgrey",
            )
        else:
            # We can't use
            #   ax2.hist(
            #       x=df_no_nulls[feature_name],
            #       weights=df_no_nulls["weights"] / df["weights"].sum(),
            #       bins=np.r_[bin_edges[0][0], bin_edges.arr.last()],  # n_bins_eff,
            #       color="lightgrey",
            #       edgecolor="grey",
            #       rwidth=0.8 if n_bins_eff <= 2 else None,
            #   )
            # because we might have empty bins.
            ax2.bar(
                x=0.5 * (bin_edges.arr.last() + bin_edges.arr.first()),
                height=df_no_nulls["weights"] / df["weights"].sum(),
                width=(bin_edges.arr.last() - bin_edges.arr.first())
                * (1 if n_bins_eff > 2 else 0.8),
                color="lightgrey",
                edgecolor="grey",
            )
        # https://stackoverflow.com/questions/30505616/how-to-arrange-plots-of-secondary-axis-to-be-below-plots-of-primary-axis-in-matp
        ax.set_zorder(ax2.get_zorder() + 1)
        ax.set_frame_on(False)
    else:
        if is_categorical or num_as_cat:
            # fig.add_histogram(
            #     x=x, # df_no_nulls[feature_name],
            #     y=df_no_nulls["weights"] / df["weights"].sum(),
            #     histfunc="sum",
            #     marker={"color": "lightgrey"},
            #     secondary_y=False,
            #     showlegend=False,
            # )
            fig.add_bar(
                x=x,
                y=df_no_nulls["weights"] / df["weights"].sum(),
                marker={"color": "lightgrey"},
                secondary_y=False,
                showlegend=False,
            )
        else:
            fig.add_bar(
                x=0.5 * (bin_edges.arr.last() + bin_edges.arr.first()),
                y=df_no_nulls["weights"] / df["weights"].sum(),
                width=bin_edges.arr.last() - bin_edges.arr.first(),
                marker={"color": "lightgrey", "line": {"width": 1.0, "color": "grey"}},
                secondary_y=False,
                showlegend=False,
            )
        fig.update_layout(yaxis_side="right", yaxis2_side="left")
        if n_bins_eff <= 2:
            fig.update_layout(bargap=0.2)

    if feature_has_nulls:
        df_null = df.filter(pl.col(feature_name).is_null())
        # Null values are plotted as rightmost point at x_null.
        if is_categorical:
            x_null = np.array([n_x - 1])
            # matplotlib default width = 0.8
            width = 0.8 if plot_backend == "matplotlib" else None
        else:
            x_min = df[feature_name].min()
            x_max = df[feature_name].max()
            if n_x == 1:
                # df[feature_name] is the null value.
                x_null = np.array([0])
            elif n_x == 2:
                x_null = np.array([2 * x_max])
            else:
                x_null = np.array([x_max + (x_max - x_min) / n_x])
            width = x_null - bin_edges.arr.last().max()
            if width is not None and width <= 0:
                width = (x_max - x_min) / n_x / 2.0

        # Null value histogram
        if plot_backend == "matplotlib":
            ax2.bar(
                x=x_null,
                height=df_null["weights"] / df["weights"].sum(),
                width=width,
                color="lightgrey",
            )
        else:
            fig.add_bar(
                x=x_null,
                y=df_null["weights"] / df["weights"].sum(),
                width=width,
                marker={"color": "lightgrey"},
                secondary_y=False,
                showlegend=False,
            )

    plot_items = ["y_obs_mean", "y_pred_mean"]
    if predict_function is not None:
        plot_items.append("partial_dependence")
    label_dict = {
        "y_obs_mean": "mean y_obs",
        "y_pred_mean": "mean y_pred",
        "partial_dependence": "partial dependence",
    }
    for i, m in enumerate(plot_items):
        label = label_dict[m]
        if plot_backend == "matplotlib":
            linestyle = "dashed" if m == "partial_dependence" else "solid"
        else:
            line = {
                "color": get_plotly_color(i),
                "dash": "dash" if m == "partial_dependence" else None,
            }
        if is_categorical:
            # We x-shift a little for a better visual.
            x = np.arange(n_x - feature_has_nulls)
            if plot_backend == "matplotlib":
                ax.plot(
                    x,
                    df_no_nulls[m],
                    marker="o",
                    linestyle="None" if show_lines == "numerical" else linestyle,
                    label=label,
                )
            else:
                fig.add_scatter(
                    x=x,
                    y=df_no_nulls[m],
                    marker={"color": get_plotly_color(i)},
                    mode="markers" if show_lines == "numerical" else "lines+markers",
                    line=None if show_lines == "numerical" else line,
                    name=label,
                    secondary_y=True,
                )
        elif plot_backend == "matplotlib":
            ax.plot(
                df[feature_name],
                df[m],
                linestyle=linestyle,
                marker="o",
                label=label,
            )
        else:
            fig.add_scatter(
                x=df[feature_name],
                y=df[m],
                marker_symbol="circle",
                mode="lines+markers",
                line=line,
                name=label,
                secondary_y=True,
            )

        if feature_has_nulls:
            # Null values are plotted as diamonds as rightmost point.
            if plot_backend == "matplotlib":
                color = ax.get_lines()[-1].get_color()  # previous line color
                ax.plot(
                    x_null,
                    df_null[m],
                    marker="D",
                    linestyle="None",
                    label=None,
                    color=color,
                )
            else:
                fig.add_scatter(
                    x=x_null,
                    y=df_null[m],
                    marker={"color": get_plotly_color(i), "symbol": "diamond"},
                    mode="markers",
                    secondary_y=True,
                    showlegend=False,
                )

    if is_categorical:
        if df[feature_name].null_count() > 0:
            # Without cast to pl.Uft8, the following error might occur:
            # exceptions.ComputeError: cannot combine categorical under a global string
            # cache with a non cached categorical
            tick_labels = df[feature_name].cast(pl.Utf8).fill_null("Null")
        else:
            tick_labels = df[feature_name]
        x_label = feature_name
        if plot_backend == "matplotlib":
            ax.set_xticks(np.arange(n_x), labels=tick_labels)
        else:
            fig.update_layout(
                xaxis={
                    "tickmode": "array",
                    "tickvals": np.arange(n_x),
                    "ticktext": tick_labels,
                }
            )
    elif feature_name is not None:
        x_label = "binned " + str(feature_name)
    else:
        x_label = ""

    model_name = array_name(y_pred, default="")
    # test for empty string ""
    title = "Marginal Plot" if not model_name else "Marginal Plot " + model_name

    if plot_backend == "matplotlib":
        ax.set(xlabel=x_label, ylabel="y", title=title)
    else:
        fig.update_layout(xaxis_title=x_label, yaxis2_title="y", title=title)
        fig["layout"]["yaxis"]["showgrid"] = False

    if plot_backend == "matplotlib":
        if feature_has_nulls:
            # Add legend entry for diamonds as Null values.
            # Unfortunately, the Null value legend entry often appears first, but we
            # want it at the end.
            ax.scatter([], [], marker="D", color="grey", label="Null values")
            handles, labels = ax.get_legend_handles_labels()
            if (labels[-1] != "Null values") and "Null values" in labels:
                i = labels.index("Null values")
                # i can't be the last index
                labels = labels[:i] + labels[i + 1 :] + [labels[i]]
                handles = handles[:i] + handles[i + 1 :] + [handles[i]]
            ax.legend(handles=handles, labels=labels)
        else:
            ax.legend()
    elif feature_has_nulls:
        fig.add_scatter(
            x=[None],
            y=[None],
            mode="markers",
            name="Null values",
            marker={"size": 7, "color": "grey", "symbol": "diamond"},
            secondary_y=True,
        )

    return ax
