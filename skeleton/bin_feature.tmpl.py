def bin_feature(
    feature: Optional[Union[npt.ArrayLike, pl.Series]],
    feature_name: Optional[Union[int, str]],
    n_obs: int,
    n_bins: int = 10,
    bin_method: str = "sturges",
):
    """Helper function to bin features of different dtypes.

    Best call this function inside a `with pl.StringCache()` context manager.

    Parameters
    ----------
    feature : array-like of shape (n_obs)
        Some feature column.
    feature_name : int, str or None
        Name of the feature.
    n_obs : int
        The expected length of the first dimention of feature.
    n_bins : int
        The number of bins, at least 2. For numerical features, `n_bins` only applies
        when `bin_method` is set to `"quantile"` or `"uniform"`.
        For string-like and categorical features, the most frequent values are taken.
        Ties are dealt with by taking the first value in natural sorting order.
        The remaining values are merged into `"other n"` with `n` indicating the unique
        count.

        I present, null values are always included in the output, accounting for one
        bin. NaN values are treated as null values.
    bin_method : str
        The method to use for finding bin edges (boundaries). Options are:

        - `"quantile"`
        - `"uniform"`
        - `"auto"`
        - `"fd"`
        - `"doane"`
        - `"scott"`
        - `"stone"`
        - `"rice"`
        - `"sturges"`
        - `"sqrt"`

    Returns
    -------
    feature : pl.Series or None
        The polars.Series version of the feature.
    n_bins : int
        Effective number of bins.
    f_binned : pl.DataFrame or None
        The binned/digitized version of the feature.
        For numerical features, columns are:

        - `bin`: The bin number.
          Bin `i` is assigned if `bin_edges[i] < feature <= bin_edges[i]`
        - `bin_edges`: edges/thresholds of the bins.

        For other features, columns are:

        - `bin`: The binned version of it, i.e. the many too small values are put
          together as `"other n"` where `n` is the number of unique values it contains.
    """
    is_categorical = False
    is_enum = False
    is_string = False
    f_binned = None

    valid_bin_methods = (
        "quantile",
        "uniform",
        "auto",
        "fd",
        "doane",
        "scott",
        "stone",
        "rice",
        "sturges",
        "sqrt",
    )
    if bin_method not in valid_bin_methods:
        msg = (
            f"Parameter bin_method must be one of {valid_bin_methods};"
            f" got {bin_method}."
        )
        raise ValueError(msg)
    if n_bins < 2:
        msg = f"Parameter n_bins must be at least 2, got {n_bins}."
        raise ValueError(msg)

    default = f"feature {feature_name}" if isinstance(feature_name, int) else "feature"
    feature_name = array_name(feature, default=default)
    # The following statement, i.e. possibly the creation of a pl.Categorical,
    # MUST be under the StringCache context manager!
    try:
        feature = pl.Series(name=feature_name, values=feature)
    except ImportError:
        # FIXME: pyarrow not installed
        # For non numpy-backed columns, pyarrow is needed. Here we handle the case
        # where pyarrow is not installed and such a pandas extention array is
        # passed, e.g. with CategoricalDtype.
        if is_pandas_series(feature):
            pandas = sys.modules["pandas"]
            is_pandas_categorical = isinstance(
                feature.dtype,  # type: ignore
                pandas.CategoricalDtype,
            )
            feature = pl.from_dataframe(
                feature.to_frame(name=feature_name)  # type: ignore
            )[:, 0]
            if is_pandas_categorical and isinstance(feature.dtype, pl.Enum):
                # Pandas categoricals usually get mapped to polars categoricals.
                # But this code path gives pl.Enum.
                feature = feature.cast(pl.Categorical)
        else:
            raise  # re-raises the ImportError
    if length_of_first_dimension(feature) != n_obs:
        msg = (
            f"The feature array {feature_name} does not have length {n_obs} of its"
            " first dimension."
        )
        raise ValueError(msg)
    if feature.dtype == pl.Categorical:
        is_categorical = True
    elif feature.dtype == pl.Enum:
        is_enum = True
    elif feature.dtype in [pl.Utf8, pl.Object]:
        # We could convert strings to categoricals.
        is_string = True
    elif feature.dtype.is_float():
        # We treat NaN as Null values, numpy will see a Null as a NaN.
        feature = feature.fill_nan(None)
    else:
        # integers
        pass

    # If we have Null values, we should reserve one bin for it and reduce
    # the effective number of bins by 1.
    n_bins_ef = max(1, n_bins - feature.has_nulls())

    if is_categorical or is_enum or is_string:
        # For categorical and string features, knowing the frequency table in
        # advance makes life easier in order to make results consistent.
        # Consider (no null values)
        #     feature  count
        #         "a"      3
        #         "b"      2
        #         "c"      2
        #         "d"      1
        # with n_bins = 3. As we want the effective number of bins to be at most
        # n_bins, we want, in the above case, only "a" and "b" in the final result. All
        # the others a put into the second bin and called "other 2" because it comprises
        # 2 unique features values (c, d). Ties are dealt with by sorting.

        # value_counts(sort=True) sorts ties by first occurence, we want
        # alphanumerical sorting order.
        value_counts = (
            feature.drop_nulls()
            .value_counts()
            .sort(by=["count", feature_name], descending=[True, False])
        )

        if n_bins_ef >= value_counts.shape[0]:
            # This also covers the case of only null values.
            n_bins_ef = value_counts.shape[0]
            f_binned = pl.DataFrame({"bin": feature})
        else:
            # We keep the n_bins_ef - 1 most frequent values. Ties are resolved by
            # taking the first one of the sorted values (most often alpha-numerical).
            if feature.has_nulls():
                # To ease adding the null value, we take one value more.
                keep_values = value_counts[feature_name].head(n_bins_ef)
                if is_categorical:
                    # FIXME: Workaround for https://github.com/pola-rs/polars/issues/21175
                    keep_values = keep_values.cast(pl.String)
                    keep_values[-1] = None
                    keep_values = keep_values.cast(pl.Categorical)
                else:
                    keep_values[-1] = None
            else:
                keep_values = value_counts[feature_name].head(n_bins_ef - 1)
            # Number of feature values to put into one bin, called "other n",
            # n = n_remaining.
            n_remaining = value_counts.shape[0] - (n_bins_ef - 1)
            remaining_name = "other " + _format_integer(n_remaining)
            # The new name must not collide with any value of the feature (kept or
            # merged), nor with a category of an enum.
            taken = set(value_counts[feature_name].cast(pl.String).to_list())
            if is_enum:
                taken |= set(feature.dtype.categories.to_list())
            while remaining_name in taken:
                remaining_name = "_" + remaining_name
            return_dtype = feature.dtype
            if is_enum:
                return_dtype = pl.Enum(
                    pl.concat([feature.dtype.categories, pl.Series([remaining_name])])
                )
            if is_enum:
                # The default value is not a category of the enum of the feature:
                # replace as strings and cast to the enlarged enum afterwards.
                keep_str = keep_values.cast(pl.String)
                f_binned = (
                    feature.cast(pl.String)
                    .replace_strict(
                        old=keep_str,
                        new=keep_str,
                        default=remaining_name,
                        return_dtype=pl.String,
                    )
                    .cast(return_dtype)
                )
            else:
                f_binned = feature.replace_strict(
                    old=keep_values,
                    new=keep_values,
                    default=remaining_name,
                    return_dtype=return_dtype,
                )
            f_binned = pl.DataFrame({"bin": f_binned})
    else:
        # Binning a numerical feature
        # We will need min and max anyway.
        feature_min, feature_max = feature.min(), feature.max()
        if feature_min is None:
            # Only null / NaN values: every row goes into the null bin.
            f_binned = pl.DataFrame(
                {
                    "bin": pl.Series([None] * n_obs, dtype=feature.dtype),
                    "bin_edges": pl.Series(
                        [None] * n_obs, dtype=pl.Array(pl.Float64, 2)
                    ),
                }
            )
            return feature, int(feature.has_nulls()), f_binned
        if feature_min == -np.inf:
            finite_min = feature.filter(feature > -np.inf).min()
        else:
            finite_min = feature_min
        if feature_max == np.inf:
            finite_max = feature.filter(feature < np.inf).max()
        else:
            finite_max = feature_max

        if bin_method == "quantile":
            # We use method="inverted_cdf" instead of the default "linear" because
            # "linear" produces as many unique values as before.
            q = np.nanquantile(
                feature,
                # Improved rounding errors by using integers and dividing at the
                # end as opposed to np.linspace with 1/n_bins step size.
                q=np.arange(1, n_bins_ef) / n_bins_ef,
                method="inverted_cdf",
            )
            bin_edges = np.unique(q)  # Some quantiles might be the same.
        elif bin_method == "uniform":
            if finite_min is None or finite_max is None or finite_min > finite_max:
                # No finite value at all, only +-inf: a single bin [min, max].
                bin_edges = np.array([], dtype=float)
            else:
                f_range = finite_max - finite_min
                bin_edges = finite_min + f_range * np.arange(1, n_bins_ef) / n_bins_ef
        else:
            # numpy histogram bin methods
            a = feature.filter(feature.is_finite() & feature.is_not_null())
            bin_edges = np.histogram_bin_edges(a, bins=bin_method)[1:-1]
            n_bins_ef = bin_edges.shape[0] + 1
        # We want: bins[i-1] < x <= bins[i]
        f_binned = np.digitize(feature, bins=bin_edges, right=True)
        # The full bin edges also include min and max of the feature.
        if bin_edges.size == 0:
            bin_edges = np.r_[feature_min, feature_max]
        else:
            bin_edges = np.r_[feature_min, bin_edges, feature_max]
        # This is quite a hack with numpy strides and views. We want to accomplish
        # bin_edges = [[value0, value1], [value1, value2], [value2, value3], ..]
        bin_edges = np.lib.stride_tricks.as_strided(
            bin_edges, (bin_edges.shape[0] - 1, 2), bin_edges.strides * 2
        )
        # Back to the binned feature.
        # Now, we insert Null values again at the original places.
        f_binned = (
            pl.LazyFrame(
                [
                    feature,
                    pl.Series("__f_binned", f_binned, dtype=feature.dtype),
                    pl.Series(
                        "__bin_edges",
                        bin_edges[f_binned],
                        dtype=pl.Array(pl.Float64, 2),
                    ),
                ]
            )
            .select(
                pl.when(pl.col(feature_name).is_null())
                .then(None)
                .otherwise(pl.col("__f_binned"))
                .alias("bin"),
                pl.when(pl.col(feature_name).is_null())
                .then(None)
                .otherwise(pl.col("__bin_edges"))
                .alias("bin_edges"),
            )
            .collect()
        )
    return feature, n_bins_ef + feature.has_nulls(), f_binned
