def get_sorted_array_names(y_pred: Union[npt.ArrayLike, pl.Series, pl.DataFrame]):
    """Get names of an array and sorted indices.

    Returns
    -------
    pred_names : list
        The (column) names of the predictions.
    sorted_indices : list
        A list of indices such that `[pred_names[i] for i in sorted_indices]`
        is a sorted list.
    """
    n_pred = length_of_second_dimension(y_pred)
    if n_pred == 0:
        pred_names = [array_name(y_pred, default="")]
    else:
        pred_names = []
        for i in range(n_pred):
            x = get_second_dimension(y_pred, i)
            pred_names.append(array_name(x, default=str(i)))

    if n_pred >= 2:
        # https://stackoverflow.com/questions/6422700
        sorted_indices = sorted(range(len(pred_names)), key=pred_names.__getitem__)
    else:
        sorted_indices = [0]

    return pred_names, sorted_indices
