def plot_bias(
    y_obs: npt.ArrayLike,
    y_pred: npt.ArrayLike,
    feature: Optional[npt.ArrayLike] = None,
    weights: Optional[npt.ArrayLike] = None,
    *,
    functional: str = "mean",
    level: float = 0.5,
    n_bins: int = 10,
    bin_method: str = "sturges",
    confidence_level: float = 0.9,
    ax: Optional[mpl.axes.Axes] = None,
):
    r"""Plot model bias conditional on a feature.

    This plots the generalised bias (residuals), i.e. the values of the canonical
    identification function, versus a feature. This is a good way to assess whether
    a model is conditionally calibrated or not. Well calibrated models have bias terms
    around zero.
    See [Notes](#notes) for further details.

    For numerical features, NaN are treated as Null values. Null values are always
    plotted as rightmost value on the x-axis and marked with a diamond instead of a
    dot.

    Parameters
    ----------
    y_obs : array-like of shape (n_obs)
        Observed values of the response variable.
        For binary classification, y_obs is expected to be in the interval [0, 1].
    y_pred : array-like of shape (n_obs) or (n_obs, n_models)
        Predicted values, e.g. for the conditional expectation of the response,
        `E(Y|X)`.
    feature : array-like of shape (n_obs) or None
        Some feature column.
    weights : array-like of shape (n_obs) or None
        Case weights. If given, the bias is calculated as weighted average of the
        identification function with these weights.
        Note that the standard errors and p-values in the output are based on the
        assumption that the variance of the bias is inverse proportional to the
        weights. See the Notes section for details.
    functional : str
        The functional that is induced by the identification function `V`. Options are:

        - `"mean"`. Argument `level` is neglected.
        - `"median"`. Argument `level` is neglected.
        - `"expectile"`
        - `"quantile"`

    level : float
        The level of the expectile or quantile. (Often called \(\alpha\).)
        It must be `0 <= level <= 1`.
        `level=0.5` and `functional="expectile"` gives the mean.
        `level=0.5` and `functional="quantile"` gives the median.
    n_bins : int
        The number of bins, at least 2. For numerical features, `n_bins` only applies
        when `bin_method` is set to `"quantile"` or `"uniform"`.
        For string-like and categorical features, the most frequent values are taken.
        Ties are dealt with by taking the first value in natural sorting order.
        The remaining values are merged into `"other n"` with `n` indicating the unique
        count.

        I present, null values are always included in the output, accounting for one
        bin. NaN values are treated as null values.
    bin_method : str
        The method for finding bin edges (boundaries). Options using `n_bins` are:

        - `"quantile"`
        - `"uniform"`

        Options automatically selecting the number of bins for numerical features
        thereby using uniform bins are same options as
        [numpy.histogram_bin_edges](https://numpy.org/doc/stable/reference/generated/numpy.histogram_bin_edges.html):

        - `"auto"`
        Minimum bin width between the `"sturges"` and `"fd"` estimators. Provides good
        all-around performance.
        - `"fd"` (Freedman Diaconis Estimator)
        Robust (resilient to outliers) estimator that takes into account data
        variability and data size.
        - `"doane"`
        An improved version of Sturges' estimator that works better with non-normal
        datasets.
        - `"scott"`
        Less robust estimator that takes into account data variability and data size.
        - `"stone"`
        Estimator based on leave-one-out cross-validation estimate of the integrated
        squared error. Can be regarded as a generalization of Scott's rule.
        - `"rice"`
        Estimator does not take variability into account, only data size. Commonly
        overestimates number of bins required.
        - `"sturges"`
        R's default method, only accounts for data size. Only optimal for gaussian data
        and underestimates number of bins for large non-gaussian datasets.
        - `"sqrt"`
        Square root (of data size) estimator, used by Excel and other programs for its
        speed and simplicity.

    confidence_level : float
        Confidence level for error bars. If 0, no error bars are plotted. Value must
        fulfil `0 <= confidence_level < 1`.
    ax : matplotlib.axes.Axes or plotly Figure
        Axes object to draw the plot onto, otherwise uses the current Axes.

    Returns
    -------
    ax :
        Either the matplotlib axes or the plotly figure. This is configurable by
        setting the `plot_backend` via
        [`model_diagnostics.set_config`][model_diagnostics.set_config] or
        [`model_diagnostics.config_context`][model_diagnostics.config_context].

    Notes
    -----
    [](){#notes}
    A model \(m(X)\) is conditionally calibrated iff \(E(V(m(X), Y))=0\) a.s. The
    empirical version, given some data, reads \(\frac{1}{n}\sum_i V(m(x_i), y_i)\).
    See `[FLM2022]`.

    References
    ----------
    `FLM2022`

    :   T. Fissler, C. Lorentzen, and M. Mayer.
        "Model Comparison and Calibration Assessment". (2022)
        [arxiv:2202.12780](https://arxiv.org/abs/2202.12780).
    """
    if not (0 <= confidence_level < 1):
        msg = (
            f"Argument confidence_level must fulfil 0 <= level < 1, got "
            f"{confidence_level}."
        )
        raise ValueError(msg)
    with_errorbars = confidence_level > 0

    if ax is None:
        plot_backend = get_config()["plot_backend"]
        if plot_backend == "matplotlib":
            ax = plt.gca()
        else:
            import plotly.graph_objects as go

            fig = ax = go.Figure()
    elif isinstance(ax, mpl.axes.Axes):
        plot_backend = "matplotlib"
    elif is_plotly_figure(ax):
        import plotly.graph_objects as go

        plot_backend = "plotly"
        fig = ax
    else:
        msg = (
            "The ax argument must be None, a matplotlib Axes or a plotly Figure, "
            f"got {type(ax)}."
        )
        raise ValueError(msg)

    df = compute_bias(
        y_obs=y_obs,
        y_pred=y_pred,
        feature=feature,
        weights=weights,
        functional=functional,
        level=level,
        n_bins=n_bins,
        bin_method=bin_method,
    )

    if df["bias_stderr"].fill_nan(None).null_count() > 0 and with_errorbars:
        msg = (
            "Some values of 'bias_stderr' are null. Therefore no error bars are "
            "shown for that y_pred/model, despite the fact that confidence_level>0 "
            "was set to True."
        )
        warnings.warn(msg, UserWarning, stacklevel=2)

    if "model_" in df.columns:
        col_model = "model_"
    elif "model" in df.columns:
        col_model = "model"
    else:
        col_model = None

    if feature is None:
        # We treat the predictions from different models as a feature.
        feature_name = col_model
        feature_has_nulls = False
    else:
        feature_name = array_name(feature, default="feature")
        feature_has_nulls = df[feature_name].null_count() > 0

    is_categorical = False
    is_string = False
    feature_dtype = df.get_column(feature_name).dtype
    if feature_dtype in [pl.Categorical, pl.Enum]:
        is_categorical = True
    elif feature_dtype in [pl.Utf8, pl.Object]:
        is_string = True

    n_x = df[feature_name].n_unique()

    # horizontal line at y=0
    if plot_backend == "matplotlib":
        ax.axhline(y=0, xmin=0, xmax=1, color="k", linestyle="dotted")
    else:
        fig.add_hline(y=0, line={"color": "black", "dash": "dot"}, showlegend=False)

    # bias plot
    if feature is None or col_model is None:
        pred_names = [None]
    else:
        # pred_names = df[col_model].unique() this automatically sorts
        pred_names, _ = get_sorted_array_names(y_pred)
    n_models = len(pred_names)
    with_label = feature is not None and (n_models >= 2 or feature_has_nulls)

    if (is_string or is_categorical) and feature_has_nulls:
        # We want the Null values at the end and therefore sort again.
        df = df.sort(feature_name, descending=False, nulls_last=True)

    for i, m in enumerate(pred_names):
        filter_condition = True if m is None else pl.col(col_model) == m
        df_i = df.filter(filter_condition)
        label = m if with_label else None

        if df_i["bias_stderr"].null_count() > 0:
            with_errorbars_i = False
        else:
            with_errorbars_i = with_errorbars

        if with_errorbars_i:
            # We scale bias_stderr by the corresponding value of the t-distribution
            # to get our desired confidence level.
            n = df_i["bias_count"].to_numpy()
            conf_level_fct = special.stdtrit(
                np.maximum(n - 1, 1),  # degrees of freedom, if n=0 => bias_stderr=0.
                1 - (1 - confidence_level) / 2,
            )
            df_i = df_i.with_columns(
                [(pl.col("bias_stderr") * conf_level_fct).alias("bias_stderr")]
            )

        if is_string or is_categorical:
            df_ii = df_i.filter(pl.col(feature_name).is_not_null())
            # We x-shift a little for a better visual.
            span = (n_x - 1) / n_x / n_models  # length for one cat value and one model
            x = np.arange(n_x - feature_has_nulls)
            if n_models > 1:
                x = x + (i - n_models // 2) * span * 0.5
            if plot_backend == "matplotlib":
                ax.errorbar(
                    x,
                    df_ii["bias_mean"],
                    yerr=df_ii["bias_stderr"] if with_errorbars_i else None,
                    marker="o",
                    linestyle="None",
                    capsize=4,
                    label=label,
                )
            else:
                fig.add_scatter(
                    x=x,
                    y=df_ii["bias_mean"],
                    error_y={
                        "type": "data",  # value of error bar given in data coordinates
                        "array": df_ii["bias_stderr"] if with_errorbars_i else None,
                        "width": 4,
                        "visible": True,
                    },
                    marker={"color": get_plotly_color(i)},
                    mode="markers",
                    name=label,
                )
        else:
            if with_errorbars_i:
                lower = df_i["bias_mean"] - df_i["bias_stderr"]
                upper = df_i["bias_mean"] + df_i["bias_stderr"]
                if plot_backend == "matplotlib":
                    ax.fill_between(
                        df_i[feature_name],
                        lower,
                        upper,
                        alpha=0.1,
                    )
                else:
                    # plotly has no equivalent of fill_between and needs a bit more
                    # coding
                    color = get_plotly_color(i)
                    fig.add_scatter(
                        x=pl.concat([df_i[feature_name], df_i[::-1, feature_name]]),
                        y=pl.concat([lower, upper[::-1]]),
                        fill="toself",
                        fillcolor=color,
                        hoverinfo="skip",
                        line={"color": color},
                        mode="lines",
                        opacity=0.1,
                        showlegend=False,
                    )
            if plot_backend == "matplotlib":
                ax.plot(
                    df_i[feature_name],
                    df_i["bias_mean"],
                    linestyle="solid",
                    marker="o",
                    label=label,
                )
            else:
                fig.add_scatter(
                    x=df_i[feature_name],
                    y=df_i["bias_mean"],
                    marker_symbol="circle",
                    mode="lines+markers",
                    line={"color": get_plotly_color(i)},
                    name=label,
                )

        if feature_has_nulls:
            # Null values are plotted as diamonds as rightmost point.
            df_i_null = df_i.filter(pl.col(feature_name).is_null())

            if is_string or is_categorical:
                x_null = np.array([n_x - 1])
            else:
                x_min = df_i[feature_name].min()
                x_max = df_i[feature_name].max()
                if n_x == 1:
                    # df_i[feature_name] is the null value.
                    x_null, span = np.array([0]), 1
                elif n_x == 2:
                    x_null, span = np.array([2 * x_max]), 0.5 * x_max / n_models
                else:
                    x_null = np.array([x_max + (x_max - x_min) / n_x])
                    span = (x_null - x_max) / n_models

            if n_models > 1:
                x_null = x_null + (i - n_models // 2) * span * 0.5

            if plot_backend == "matplotlib":
                color = ax.get_lines()[-1].get_color()  # previous line color
                ax.errorbar(
                    x_null,
                    df_i_null["bias_mean"],
                    yerr=df_i_null["bias_stderr"] if with_errorbars_i else None,
                    marker="D",
                    linestyle="None",
                    capsize=4,
                    label=None,
                    color=color,
                )
            else:
                fig.add_scatter(
                    x=x_null,
                    y=df_i_null["bias_mean"],
                    error_y={
                        "type": "data",  # value of error bar given in data coordinates
                        "array": df_i_null["bias_stderr"] if with_errorbars_i else None,
                        "width": 4,
                        "visible": True,
                    },
                    marker={"color": get_plotly_color(i), "symbol": "diamond"},
                    mode="markers",
                    showlegend=False,
                )

    if is_categorical or is_string:
        if feature_has_nulls:
            # Without cast to pl.Uft8, the following error might occur:
            # exceptions.ComputeError: cannot combine categorical under a global string
            # cache with a non cached categorical
            tick_labels = df_i[feature_name].cast(pl.Utf8).fill_null("Null")
        else:
            tick_labels = df_i[feature_name]
        x_label = feature_name
        if plot_backend == "matplotlib":
            ax.set_xticks(np.arange(n_x), labels=tick_labels)
        else:
            fig.update_layout(
                xaxis={
                    "tickmode": "array",
                    "tickvals": np.arange(n_x),
                    "ticktext": tick_labels,
                }
            )
    elif feature_name is not None:
        x_label = "binned " + feature_name
    else:
        x_label = ""

    if feature is None:
        title = "Bias Plot"
    else:
        model_name = array_name(y_pred, default="")
        # test for empty string ""
        title = "Bias Plot" if not model_name else "Bias Plot " + model_name

    if plot_backend == "matplotlib":
        ax.set(xlabel=x_label, ylabel="bias", title=title)
    else:
        fig.update_layout(xaxis_title=x_label, yaxis_title="bias", title=title)

    if with_label and plot_backend == "matplotlib":
        if feature_has_nulls:
            # Add legend entry for diamonds as Null values.
            # Unfortunately, the Null value legend entry often appears first, but we
            # want it at the end.
            ax.scatter([], [], marker="D", color="grey", label="Null values")
            handles, labels = ax.get_legend_handles_labels()
            if (labels[-1] != "Null values") and "Null values" in labels:
                i = labels.index("Null values")
                # i can't be the last index
                labels = labels[:i] + labels[i + 1 :] + [labels[i]]
                handles = handles[:i] + handles[i + 1 :] + [handles[i]]
            ax.legend(handles=handles, labels=labels)
        else:
            ax.legend()
    elif with_label and feature_has_nulls:
        fig.add_scatter(
            x=[None],
            y=[None],
            mode="markers",
            name="Null values",
            marker={"size": 7, "color": "grey", "symbol": "diamond"},
        )

    return ax
