def compute_bias(
    y_obs: npt.ArrayLike,
    y_pred: npt.ArrayLike,
    feature: Optional[Union[npt.ArrayLike, pl.Series]] = None,
    weights: Optional[npt.ArrayLike] = None,
    *,
    functional: str = "mean",
    level: float = 0.5,
    n_bins: int = 10,
    bin_method: str = "sturges",
):
    r"""Compute generalised bias conditional on a feature.

    This function computes and aggregates the generalised bias, i.e. the values of the
    canonical identification function, versus (grouped by) a feature.
    This is a good way to assess whether a model is conditionally calibrated or not.
    Well calibrated models have bias terms around zero.
    For the mean functional, the generalised bias is the negative residual
    `y_pred - y_obs`.
    See [Notes](#notes) for further details.

    Parameters
    ----------
    y_obs : array-like of shape (n_obs)
        Observed values of the response variable.
        For binary classification, y_obs is expected to be in the interval [0, 1].
    y_pred : array-like of shape (n_obs) or (n_obs, n_models)
        Predicted values, e.g. for the conditional expectation of the response,
        `E(Y|X)`.
    feature : array-like of shape (n_obs) or None
        Some feature column.
    weights : array-like of shape (n_obs) or None
        Case weights. If given, the bias is calculated as weighted average of the
        identification function with these weights.
        Note that the standard errors and p-values in the output are based on the
        assumption that the variance of the bias is inverse proportional to the
        weights. See the Notes section for details.
    functional : str
        The functional that is induced by the identification function `V`. Options are:

        - `"mean"`. Argument `level` is neglected.
        - `"median"`. Argument `level` is neglected.
        - `"expectile"`
        - `"quantile"`

    level : float
        The level of the expectile of quantile. (Often called \(\alpha\).)
        It must be `0 < level < 1`.
        `level=0.5` and `functional="expectile"` gives the mean.
        `level=0.5` and `functional="quantile"` gives the median.
    n_bins : int
        The number of bins, at least 2. For numerical features, `n_bins` only applies
        when `bin_method` is set to `"quantile"` or `"uniform"`.
        For string-like and categorical features, the most frequent values are taken.
        Ties are dealt with by taking the first value in natural sorting order.
        The remaining values are merged into `"other n"` with `n` indicating the unique
        count.

        I present, null values are always included in the output, accounting for one
        bin. NaN values are treated as null values.
    bin_method : str
        The method for finding bin edges (boundaries). Options using `n_bins` are:

        - `"quantile"`
        - `"uniform"`

        Options automatically selecting the number of bins for numerical features
        thereby using uniform bins are same options as
        [numpy.histogram_bin_edges](https://numpy.org/doc/stable/reference/generated/numpy.histogram_bin_edges.html):

        - `"auto"`
        Minimum bin width between the `"sturges"` and `"fd"` estimators. Provides good
        all-around performance.
        - `"fd"` (Freedman Diaconis Estimator)
        Robust (resilient to outliers) estimator that takes into account data
        variability and data size.
        - `"doane"`
        An improved version of Sturges' estimator that works better with non-normal
        datasets.
        - `"scott"`
        Less robust estimator that takes into account data variability and data size.
        - `"stone"`
        Estimator based on leave-one-out cross-validation estimate of the integrated
        squared error. Can be regarded as a generalization of Scott's rule.
        - `"rice"`
        Estimator does not take variability into account, only data size. Commonly
        overestimates number of bins required.
        - `"sturges"`
        R's default method, only accounts for data size. Only optimal for gaussian data
        and underestimates number of bins for large non-gaussian datasets.
        - `"sqrt"`
        Square root (of data size) estimator, used by Excel and other programs for its
        speed and simplicity.

    Returns
    -------
    df : polars.DataFrame
        The result table contains at least the columns:

        - `bias_mean`: Mean of the bias
        - `bias_cout`: Number of data rows
        - `bias_weights`: Sum of weights
        - `bias_stderr`: Standard error, i.e. standard deviation of `bias_mean`
        - `p_value`: p-value of the 2-sided t-test with null hypothesis:
          `bias_mean = 0`

        If `feautre ` is not None, then there is also the column:

        - `feature_name`: The actual name of the feature with the (binned) feature
          values.

    Notes
    -----
    [](){#notes}
    A model \(m(X)\) is conditionally calibrated iff
    \(\mathbb{E}(V(m(X), Y)|X)=0\) almost surely with canonical identification
    function \(V\).
    The empirical version, given some data, reads
    \(\bar{V} = \frac{1}{n}\sum_i \phi(x_i) V(m(x_i), y_i)\) with a test function
    \(\phi(x_i)\) that projects on the specified feature.
    For a feature with only two distinct values `"a"` and `"b"`, this becomes
    \(\bar{V} = \frac{1}{n_a}\sum_{i \text{ with }x_i=a} V(m(a), y_i)\) with
    \(n_a=\sum_{i \text{ with }x_i=a}\) and similar for `"b"`.
    With case weights, this reads
    \(\bar{V} = \frac{1}{\sum_i w_i}\sum_i w_i \phi(x_i) V(m(x_i), y_i)\).
    This generalises the classical residual (up to a minus sign) for target functionals
    other than the mean. See `[FLM2022]`.

    The standard error for \(\bar{V}\) is calculated in the standard way as
    \(\mathrm{SE} = \sqrt{\operatorname{Var}(\bar{V})} = \frac{\sigma}{\sqrt{n}}\) and
    the standard variance estimator for \(\sigma^2 = \operatorname{Var}(\phi(x_i)
    V(m(x_i), y_i))\) with Bessel correction, i.e. division by \(n-1\) instead of
    \(n\).

    With case weights, the variance estimator becomes \(\operatorname{Var}(\bar{V})
    = \frac{1}{n-1} \frac{1}{\sum_i w_i} \sum_i w_i (V(m(x_i), y_i) - \bar{V})^2\) with
    the implied relation \(\operatorname{Var}(V(m(x_i), y_i)) \sim \frac{1}{w_i} \).
    If your weights are for repeated observations, so-called frequency weights, then
    the above estimate is conservative because it uses \(n - 1\) instead
    of \((\sum_i w_i) - 1\).

    References
    ----------
    `[FLM2022]`

    :   T. Fissler, C. Lorentzen, and M. Mayer.
        "Model Comparison and Calibration Assessment". (2022)
        [arxiv:2202.12780](https://arxiv.org/abs/2202.12780).

    Examples
    --------
    >>> compute_bias(y_obs=[0, 0, 1, 1], y_pred=[-1, 1, 1 , 2])
    shape: (1, 5)
    ┌───────────┬────────────┬──────────────┬─────────────┬──────────┐
    │ bias_mean ┆ bias_count ┆ bias_weights ┆ bias_stderr ┆ p_value  │
    │ ---       ┆ ---        ┆ ---          ┆ ---         ┆ ---      │
    │ f64       ┆ u32        ┆ f64          ┆ f64         ┆ f64      │
    ╞═══════════╪════════════╪══════════════╪═════════════╪══════════╡
    │ 0.25      ┆ 4          ┆ 4.0          ┆ 0.478714    ┆ 0.637618 │
    └───────────┴────────────┴──────────────┴─────────────┴──────────┘
    >>> compute_bias(y_obs=[0, 0, 1, 1], y_pred=[-1, 1, 1 , 2],
    ... feature=["a", "a", "b", "b"])
    shape: (2, 6)
    ┌─────────┬───────────┬────────────┬──────────────┬─────────────┬─────────┐
    │ feature ┆ bias_mean ┆ bias_count ┆ bias_weights ┆ bias_stderr ┆ p_value │
    │ ---     ┆ ---       ┆ ---        ┆ ---          ┆ ---         ┆ ---     │
    │ str     ┆ f64       ┆ u32        ┆ f64          ┆ f64         ┆ f64     │
    ╞═════════╪═══════════╪════════════╪══════════════╪═════════════╪═════════╡
    │ a       ┆ 0.0       ┆ 2          ┆ 2.0          ┆ 1.0         ┆ 1.0     │
    │ b       ┆ 0.5       ┆ 2          ┆ 2.0          ┆ 0.5         ┆ 0.5     │
    └─────────┴───────────┴────────────┴──────────────┴─────────────┴─────────┘
    """
    validate_same_first_dimension(y_obs, y_pred)
    n_pred = length_of_second_dimension(y_pred)
    pred_names, _ = get_sorted_array_names(y_pred)

    if weights is not None:
        validate_same_first_dimension(weights, y_obs)
        w = np.asarray(weights)
        if w.ndim > 1:
            msg = f"The array weights must be 1-dimensional, got weights.ndim={w.ndim}."
            raise ValueError(msg)
    else:
        w = np.ones_like(y_obs, dtype=float)

    n_obs = length_of_first_dimension(y_pred)
    df_list = []
    with pl.StringCache():
        feature_name = None
        if feature is not None:
            feature, n_bins, f_binned = bin_feature(
                feature=feature,
                feature_name=None,
                n_obs=n_obs,
                n_bins=n_bins,
                bin_method=bin_method,
            )
            feature_name = feature.name
            is_cat_or_string = feature.dtype in [
                pl.Categorical,
                pl.Enum,
                pl.Utf8,
                pl.Object,
            ]

        for i in range(len(pred_names)):
            # Loop over columns of y_pred.
            x = y_pred if n_pred == 0 else get_second_dimension(y_pred, i)

            bias = identification_function(
                y_obs=y_obs,
                y_pred=x,
                functional=functional,
                level=level,
            )

            if feature is None:
                bias_mean = np.average(bias, weights=w)
                bias_weights = np.sum(w)
                bias_count = bias.shape[0]
                # Note: with Bessel correction
                bias_stddev = np.average((bias - bias_mean) ** 2, weights=w) / np.amax(
                    [1, bias_count - 1]
                )
                df = pl.DataFrame(
                    {
                        "bias_mean": [bias_mean],
                        "bias_count": pl.Series([bias_count], dtype=pl.UInt32),
                        "bias_weights": [bias_weights],
                        "bias_stderr": [np.sqrt(bias_stddev)],
                    }
                )
            else:
                df = pl.DataFrame(
                    {
                        "y_obs": y_obs,
                        "y_pred": x,
                        feature_name: feature,
                        "bias": bias,
                        "weights": w,
                    }
                )

                agg_list = [
                    pl.col("bias_mean").first(),
                    pl.count("bias").alias("bias_count"),
                    pl.col("weights").sum().alias("bias_weights"),
                    (
                        (
                            pl.col("weights")
                            * ((pl.col("bias") - pl.col("bias_mean")) ** 2)
                        ).sum()
                        / pl.col("weights").sum()
                    ).alias("variance"),
                ]

                groupby_name = "bin"
                df = df.hstack([f_binned.get_column("bin")])
                if not is_cat_or_string:
                    agg_list.append(pl.col(feature_name).mean())

                df = (
                    df.lazy()
                    .select(
                        pl.all(),
                        (
                            (pl.col("weights") * pl.col("bias"))
                            .sum()
                            .over(groupby_name)
                            / pl.col("weights").sum().over(groupby_name)
                        ).alias("bias_mean"),
                    )
                    .group_by(groupby_name)
                    .agg(agg_list)
                    .with_columns(
                        [
                            pl.when(pl.col("bias_count") > 1)
                            .then(pl.col("variance") / (pl.col("bias_count") - 1))
                            .otherwise(pl.col("variance"))
                            .sqrt()
                            .alias("bias_stderr"),
                        ]
                    )
                )

                if is_cat_or_string:
                    df = df.with_columns(pl.col(groupby_name).alias(feature_name))

                df = (
                    df
                    # With sort and head alone, we could lose the null value, but we
                    # want to keep it.
                    # .sort("bias_count", descending=True)
                    # .head(n_bins)
                    .with_columns(
                        pl.when(pl.col(feature_name).is_null())
                        .then(pl.max("bias_count") + 1)
                        .otherwise(pl.col("bias_count"))
                        .alias("__priority")
                    )
                    .sort("__priority", descending=True)
                    .head(n_bins)
                    .sort(feature_name, descending=False)
                    .select(
                        pl.col(feature_name),
                        pl.col("bias_mean"),
                        pl.col("bias_count"),
                        pl.col("bias_weights"),
                        pl.col("bias_stderr"),
                    )
                ).collect()

            # Add column with p-value of 2-sided t-test.
            # We explicitly convert "to_numpy", because otherwise we get:
            #   RuntimeWarning: A builtin ctypes object gave a PEP3118 format string
            #   that does not match its itemsize, so a best-guess will be made of the
            #   data type. Newer versions of python may behave correctly.
            stderr_ = df.get_column("bias_stderr")
            p_value = np.full_like(stderr_, fill_value=np.nan)
            n = df.get_column("bias_count")
            p_value[np.asarray((n > 1) & (stderr_ == 0), dtype=bool)] = 0
            mask = stderr_ > 0
            x = df.get_column("bias_mean").filter(mask).to_numpy()
            n = df.get_column("bias_count").filter(mask).to_numpy()
            stderr = stderr_.filter(mask).to_numpy()
            # t-statistic t (-|t| and factor of 2 because of 2-sided test)
            p_value[np.asarray(mask, dtype=bool)] = 2 * special.stdtr(
                n - 1,  # degrees of freedom
                -np.abs(x / stderr),
            )
            df = df.with_columns(pl.Series("p_value", p_value))

            # Add column "model".
            if n_pred > 0:
                model_col_name = "model_" if feature_name == "model" else "model"
                df = df.with_columns(
                    pl.Series(model_col_name, [pred_names[i]] * df.shape[0])
                )

            # Select the columns in the correct order.
            col_selection = []
            if n_pred > 0:
                col_selection.append(model_col_name)
            if feature_name is not None and feature_name in df.columns:
                col_selection.append(feature_name)
            col_selection += [
                "bias_mean",
                "bias_count",
                "bias_weights",
                "bias_stderr",
                "p_value",
            ]
            df_list.append(df.select(col_selection))

        df = pl.concat(df_list)
    return df
