def isotonic_regression(y, weights=None, *, increasing=True, functional='mean', level=0.5):
    allowed_functionals = ('mean', 'median', 'expectile', 'quantile')
    if functional not in allowed_functionals:
        msg = HOLE("msg1")
        raise ValueError(msg)
    if functional in ('expectile', 'quantile') and HOLE("level_guard"):
        msg = HOLE("msg2")
        raise ValueError(msg)
    if functional == 'median':
        functional = 'quantile'
        level = 0.5
    y = np.asarray(y)
    if weights is None:
        weights = np.ones_like(y)
    else:
        if functional in 'quantile':
            msg = HOLE("msg3")
            raise NotImplementedError(msg)
        weights = np.asarray(weights)
        if not (y.ndim == weights.ndim and y.shape[0] == weights.shape[0]):
            msg = HOLE("msg4")
            raise ValueError(msg)
        if np.any(HOLE("w_nonpos")):
            msg = HOLE("msg5")
            raise ValueError(msg)
    order = np.s_[:] if increasing else np.s_[::-1]
    x = y[order]
    wx = weights[order]
    if functional == 'mean':
        x, r = pava(x, wx)
    elif functional == 'expectile':

        def expectile_fun(x, w):
            return expectile(x, alpha=level, weights=w)
        x, r = gpava(expectile_fun, x, wx)
    elif functional == 'quantile':
        xl, rl = gpava(partial(quantile_lower, level=level), x, wx)
        q = np.fromiter((partial(quantile_upper, level=level)(x[rl[i]:rl[i + 1]]) for i in range(len(rl) - 1)), dtype=xl.dtype)
        q = np.minimum.accumulate(q[::-1])[::-1]
        xu = np.repeat(q, np.diff(rl))
        x = HOLE("midpoint")
        r = np.nonzero(np.diff(x))[0] + 1
        r = np.r_[0, r, len(x)]
    if not increasing:
        x = x[::-1]
        r = r[-1] - r[::-1]
    return (x, r)
