@contextmanager
def config_context(*, plot_backend=None):
    old_config = get_config()
    set_config(plot_backend=plot_backend)
    try:
        yield
    finally:
        set_config(**old_config)
