def length_of_second_dimension(a: npt.ArrayLike) -> int:
    """Return length of second dimension."""
    if not hasattr(a, "shape"):
        a = np.asarray(a)

    dim = len(a.shape)
    if dim < 2:
        return 0
    elif dim == 2:
        return a.shape[1]
    else:
        msg = "Array-like has more than 2 dimensions."
        raise ValueError(msg)
