def set_config(plot_backend=None):
    if plot_backend not in (None, 'matplotlib', 'plotly'):
        msg = HOLE("msg1")
        raise ValueError(msg)
    if plot_backend == 'plotly' and (not find_spec('plotly')):
        msg = HOLE("msg2")
        raise ModuleNotFoundError(msg)
    if plot_backend is not None:
        _global_config['plot_backend'] = plot_backend
