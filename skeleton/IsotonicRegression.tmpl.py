class IsotonicRegression:

    def __init__(self, *, increasing=True, functional='mean', level=0.5):
        self.increasing = increasing
        self.functional = functional
        self.level = level

    def fit(self, X, y, sample_weight=None):
        if (n_cols := length_of_second_dimension(X)) >= 2:
            msg = HOLE("msg_cols")
            raise ValueError(msg)
        if n_cols == 1:
            X = np.asarray(X)[:, 0]
        df = pl.DataFrame({'_X': X, '_target_y': y})
        if sample_weight is not None:
            df = df.hstack([pl.Series(name='_weights', values=sample_weight)])
        df = df.sort(by=['_X', '_target_y'], descending=[False, self.increasing])
        yy = df['_target_y'].to_numpy()
        wy = df['_weights'].to_numpy() if sample_weight is not None else None
        y_iso, r = isotonic_regression(y=yy, weights=wy, increasing=self.increasing, functional=self.functional, level=self.level)
        X_sorted = df.get_column('_X')
        idx_list = [r[0]]
        for i in range(1, len(r) - 1):
            if HOLE("prev_gt1"):
                idx_list.append(r[i] - 1)
            idx_list.append(r[i])
        if HOLE("last_cond"):
            idx_list.append(r[-1] - 1)
        idx = np.asarray(idx_list)
        self.X_thresholds_ = X_sorted[idx].to_numpy().astype(np.float64)
        self.y_thresholds_ = y_iso[idx]
        self.f_ = interp1d(self.X_thresholds_, self.y_thresholds_, kind='linear', bounds_error=False, fill_value=(self.y_thresholds_[0], self.y_thresholds_[-1]))
        return self

    def predict(self, X):
        return self.f_(X)
