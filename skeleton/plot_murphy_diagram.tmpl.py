def plot_murphy_diagram(
    y_obs: npt.ArrayLike,
    y_pred: npt.ArrayLike,
    weights: Optional[npt.ArrayLike] = None,
    *,
    etas: Union[int, npt.ArrayLike] = 100,
    functional: str = "mean",
    level: float = 0.5,
    ax: Optional[mpl.axes.Axes] = None,
):
    r"""Plot a Murphy diagram.

    A Murphy diagram plots the scores of elementary scoring functions `ElementaryScore`
    over a range of their free parameter `eta`. This shows, if a model dominates all
    others over a wide class of scoring functions or if the ranking is very much
    dependent on the choice of scoring function.
    See [Notes](#notes) for further details.

    Parameters
    ----------
    y_obs : array-like of shape (n_obs)
        Observed values of the response variable.
        For binary classification, y_obs is expected to be in the interval [0, 1].
    y_pred : array-like of shape (n_obs) or (n_obs, n_models)
        Predicted values, e.g. for the conditional expectation of the response,
        `E(Y|X)`.
    weights : array-like of shape (n_obs) or None
        Case weights.
    etas : int or array-like
        If an integer is given, equidistant points between min and max y values are
        generater. If an array-like is given, those points are used.
    functional : str
        The functional that is induced by the identification function `V`. Options are:

        - `"mean"`. Argument `level` is neglected.
        - `"median"`. Argument `level` is neglected.
        - `"expectile"`
        - `"quantile"`
    level : float
        The level of the expectile of quantile. (Often called \(\alpha\).)
        It must be `0 < level < 1`.
        `level=0.5` and `functional="expectile"` gives the mean.
        `level=0.5` and `functional="quantile"` gives the median.
    ax : matplotlib.axes.Axes
        Axes object to draw the plot onto, otherwise uses the current Axes.

    Returns
    -------
    ax :
        Either the matplotlib axes or the plotly figure. This is configurable by
        setting the `plot_backend` via
        [`model_diagnostics.set_config`][model_diagnostics.set_config] or
        [`model_diagnostics.config_context`][model_diagnostics.config_context].

    Notes
    -----
    [](){#notes}
    For details, refer to `[Ehm2015]`.

    References
    ----------
    `[Ehm2015]`

    :   W. Ehm, T. Gneiting, A. Jordan, F. Krüger.
        "Of Quantiles and Expectiles: Consistent Scoring Functions, Choquet
        Representations, and Forecast Rankings".
        [arxiv:1503.08195](https://arxiv.org/abs/1503.08195).
    """
    if ax is None:
        plot_backend = get_config()["plot_backend"]
        if plot_backend == "matplotlib":
            ax = plt.gca()
        else:
            import plotly.graph_objects as go

            fig = ax = go.Figure()
    elif isinstance(ax, mpl.axes.Axes):
        plot_backend = "matplotlib"
    elif is_plotly_figure(ax):
        import plotly.graph_objects as go

        plot_backend = "plotly"
        fig = ax
    else:
        msg = (
            "The ax argument must be None, a matplotlib Axes or a plotly Figure, "
            f"got {type(ax)}."
        )
        raise ValueError(msg)

    if (n_cols := length_of_second_dimension(y_obs)) > 0:
        if n_cols == 1:
            y_obs = get_second_dimension(y_obs, 0)
        else:
            msg = (
                f"Array-like y_obs has more than 2 dimensions, y_obs.shape[1]={n_cols}"
            )
            raise ValueError(msg)

    y_pred_min, y_pred_max = get_array_min_max(y_pred)
    y_obs_min, y_obs_max = get_array_min_max(y_obs)
    y_min, y_max = min(y_pred_min, y_obs_min), max(y_pred_max, y_obs_max)

    if y_min == y_max:
        msg = "All values y_obs and y_pred are one single and same value."
        raise ValueError(msg)
    elif isinstance(etas, numbers.Integral):
        etas = np.linspace(y_min, y_max, num=etas, endpoint=True)
    else:
        etas = np.asarray(etas).astype(float)
        if etas.ndim > 1:
            etas = etas.reshape(max(etas.shape))

    def elementary_score(y_obs, y_pred, weights, eta):
        sf = ElementaryScore(eta, functional=functional, level=level)
        return sf(y_obs=y_obs, y_pred=y_pred, weights=weights)

    n_pred = length_of_second_dimension(y_pred)
    pred_names, _ = get_sorted_array_names(y_pred)

    for i in range(len(pred_names)):
        y_pred_i = y_pred if n_pred == 0 else get_second_dimension(y_pred, i)

        y_plot = [
            elementary_score(y_obs=y_obs, y_pred=y_pred_i, weights=weights, eta=eta)
            for eta in etas
        ]
        label = pred_names[i] if n_pred >= 2 else None
        if plot_backend == "matplotlib":
            ax.plot(etas, y_plot, label=label)
        else:
            fig.add_scatter(
                x=etas,
                y=y_plot,
                mode="lines",
                line={"color": get_plotly_color(i)},
                name=label,
            )

    xlabel = "eta"
    ylabel = "score"
    title = "Murphy Diagram"
    if n_pred <= 1 and len(pred_names[0]) > 0:
        title = title + " " + pred_names[0]

    if plot_backend == "matplotlib":
        if n_pred >= 2:
            ax.legend()
        ax.set_title(title)
        ax.set(xlabel=xlabel, ylabel=ylabel)
    else:
        if n_pred <= 1:
            fig.update_layout(showlegend=False)
        fig.update_layout(xaxis_title=xlabel, yaxis_title=ylabel, title=title)

    return ax
