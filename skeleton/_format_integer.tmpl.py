def _format_integer(x):
    """Nicely round and format large integers."""
    # https://stackoverflow.com/a/45846841
    x = float(f"{x:.3g}")
    magnitude = 0
    while abs(x) >= 1000 and magnitude < 4:
        magnitude += 1
        x /= 1000.0
    return "{}{}".format(
        f"{x:f}".rstrip("0").rstrip("."), ["", "k", "M", "G", "T"][magnitude]
    )
