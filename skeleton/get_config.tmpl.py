def get_config():
    return _global_config.copy()
