def quantile_lower(x, wx=None, level=0.5):
    return np.quantile(x, level, method='inverted_cdf')
