def safe_index_rows(x, indices):
    index = np.asarray(indices)
    if index.dtype.kind not in ('i', 'u'):
        msg = 'Only integer indices are allowed for indexing rows.'
        raise ValueError(msg)
    if is_pyarrow_table(x) or is_pyarrow_array(x):
        return x.take(indices)
    elif hasattr(x, 'iloc'):
        return x.take(indices, axis=0)
    elif isinstance(x, (list, tuple)):
        return [x[idx] for idx in indices]
    else:
        return x[indices]
