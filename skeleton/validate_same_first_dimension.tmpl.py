def validate_same_first_dimension(a: AL_or_polars, b: AL_or_polars) -> bool:
    """Validate that 2 array-like have the same length of the first dimension."""
    if length_of_first_dimension(a) != length_of_first_dimension(b):
        msg = (
            "The two array-like objects don't have the same length of their first "
            "dimension."
        )
        raise ValueError(msg)
    else:
        return True
