def decompose(y_obs: npt.ArrayLike, y_pred: npt.ArrayLike, weights: Optional[npt.ArrayLike]=None, *, scoring_function: Callable[..., Any], functional: Optional[str]=None, level: Optional[float]=None) -> pl.DataFrame:
    if functional is None:
        if hasattr(scoring_function, 'functional'):
            functional = scoring_function.functional
        else:
            msg = HOLE('msg1')
            raise ValueError(msg)
    if level is None:
        level = 0.5
        if functional in ('expectile', 'quantile'):
            if hasattr(scoring_function, 'level'):
                level = float(scoring_function.level)
            else:
                msg = HOLE('msg2')
                raise ValueError(msg)
    allowed_functionals = ('mean', 'median', 'expectile', 'quantile')
    if functional not in allowed_functionals:
        msg = HOLE('msg3')
        raise ValueError(msg)
    if functional in ('expectile', 'quantile') and (level <= 0 or level >= 1):
        msg = HOLE('msg4')
        raise ValueError(msg)
    if functional == 'median':
        functional = 'quantile'
        level = 0.5
    validate_same_first_dimension(y_obs, y_pred)
    n_pred = length_of_second_dimension(y_pred)
    pred_names, _ = get_sorted_array_names(y_pred)
    y_o = np.asarray(y_obs)
    if weights is None:
        w = None
    else:
        validate_same_first_dimension(weights, y_o)
        w = np.asarray(weights)
        if w.ndim > 1:
            msg = HOLE('msg5')
            raise ValueError(msg)
    if functional == 'mean':
        iso = IsotonicRegression_skl(y_min=None, y_max=None, out_of_bounds="clip")
        marginal = np.average(y_o, weights=w)
    else:
        iso = IsotonicRegression(functional=functional, level=level)
        if functional == 'expectile':
            marginal = expectile(y_o, alpha=level, weights=w)
        elif functional == 'quantile':
            marginal = 0.5 * (quantile_lower(y_o, level=level) + quantile_upper(y_o, level=level))
    if y_o[0] == marginal == y_o[-1]:
        try:
            scoring_function(y_o[0], marginal)
        except ValueError as exc:
            msg = HOLE('msg6')
            raise ValueError(msg) from exc
    y_min = np.amin(y_o)
    y_min_allowed = True
    try:
        scoring_function(y_o[:1], np.array([y_min]), None if w is None else w[:1])
    except ValueError:
        y_min_allowed = False
    marginal = np.full_like(y_o, fill_value=marginal, dtype=float)
    score_marginal = scoring_function(y_o, marginal, w)
    df_list = []
    for i in range(len(pred_names)):
        x = y_pred if n_pred == 0 else get_second_dimension(y_pred, i)
        iso.fit(x, y_o, sample_weight=w)
        recalibrated = np.atleast_1d(np.squeeze(iso.predict(x)))
        if not y_min_allowed and np.amin(recalibrated) <= y_min:
            above = recalibrated[recalibrated > y_min]
            val1 = np.amin(above) if above.size > 0 else y_min
            mask = recalibrated <= val1
            re2 = recalibrated[mask]
            w2 = None if w is None else w[mask]
            if functional == 'mean':
                recalibrated[mask] = np.average(re2, weights=w2)
            elif functional == 'expectile':
                recalibrated[mask] = expectile(re2, alpha=level, weights=w2)
            elif functional == 'quantile':
                lower = quantile_lower(re2, level=level)
                upper = quantile_upper(re2, level=level)
                recalibrated[mask] = 0.5 * (lower + upper)
        score = scoring_function(y_o, x, w)
        try:
            score_recalibrated = scoring_function(y_o, recalibrated, w)
        except ValueError as exc:
            msg = HOLE('msg7')
            raise ValueError(msg) from exc
        df = pl.DataFrame({'model': pred_names[i], 'miscalibration': score - score_recalibrated, 'discrimination': score_marginal - score_recalibrated, 'uncertainty': score_marginal, 'score': score})
        df_list.append(df)
    df = pl.concat(df_list)
    if n_pred <= 1:
        df = df.drop('model')
    return df
