def get_second_dimension(a: npt.ArrayLike, i: int) -> npt.ArrayLike:
    """Get i-th column of a, e.g. a[:, i]."""
    if hasattr(a, "iloc"):
        # pandas
        return a.iloc[:, i]
    elif hasattr(a, "column") and callable(a.column):
        # pyarrow
        return a.column(i)  # a[i] would also work
    elif isinstance(a, (list, tuple)):
        return np.array([row[i] for row in a])
    else:
        # numpy or polars
        return a[:, i]
