def validate_2_arrays(
    a: npt.ArrayLike, b: npt.ArrayLike
) -> tuple[np.ndarray, np.ndarray]:
    """Validate 2 arrays.

    Both arrays are checked to have same dimensions and shapes.
    They are returned as numpy arrays.

    Returns
    -------
    a : ndarray
        Input as an ndarray
    b : ndarray
        Input as an ndarray
    """
    # Note: If the input is a pyarrow array, np.asarray produces a read-only ndarray.
    a = np.asarray(a)
    b = np.asarray(b)
    # Integers wrap around: unsigned ones in differences like y_pred - y_obs, signed
    # ones narrower than 64 bit in squares of such differences (int32 from 46341 on).
    if a.dtype.kind == "u" or (a.dtype.kind == "i" and a.dtype.itemsize < 8):
        a = a.astype(np.float64)
    if b.dtype.kind == "u" or (b.dtype.kind == "i" and b.dtype.itemsize < 8):
        b = b.astype(np.float64)
    if a.ndim != b.ndim:
        msg = f"Arrays must have the same dimension, got {a.ndim=} and {b.ndim=}."
        raise ValueError(msg)
    for i in range(a.ndim):
        if a.shape[i] != b.shape[i]:
            msg = f"Arrays must have the same shape, got {a.shape=} and {b.shape=}."
            raise ValueError(msg)
    return a, b
