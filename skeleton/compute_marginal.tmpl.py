def compute_marginal(y_obs: npt.ArrayLike, y_pred: npt.ArrayLike, X: Optional[npt.ArrayLike]=None, feature_name: Optional[Union[str, int]]=None, predict_function: Optional[Callable]=None, weights: Optional[npt.ArrayLike]=None, *, n_bins: int=10, bin_method: str='sturges', n_max: int=1000, rng: Optional[Union[np.random.Generator, int]]=None):
    validate_same_first_dimension(y_obs, y_pred)
    n_pred = length_of_second_dimension(y_pred)
    pred_names, _ = get_sorted_array_names(y_pred)
    y_obs = np.asarray(y_obs)
    if weights is not None:
        validate_same_first_dimension(weights, y_obs)
        w = np.asarray(weights)
        if w.ndim > 1:
            msg = f'The array weights must be 1-dimensional, got weights.ndim={w.ndim}.'
            raise ValueError(msg)
    else:
        w = np.ones_like(y_obs, dtype=float)
    if feature_name is None:
        feature_input = feature = None
    elif X is None:
        msg = 'X must be a data container like a (polars) dataframe or an (numpy) array.'
        raise ValueError(msg)
    elif not isinstance(feature_name, (int, str)):
        msg = f"The argument 'feature_name' must be an int or str; got {feature_name}"
        raise ValueError(msg)
    elif isinstance(feature_name, int):
        feature_index = feature_name
        feature_input = get_second_dimension(X, feature_name)
    else:
        X_names, _ = get_sorted_array_names(X)
        feature_index = X_names.index(feature_name)
        feature_input = get_second_dimension(X, feature_index)
    n_obs = length_of_first_dimension(y_pred)
    df_list = []
    with pl.StringCache():
        if feature_input is not None:
            feature, n_bins, f_binned = bin_feature(feature=feature_input, feature_name=feature_name, n_obs=n_obs, n_bins=n_bins, bin_method=bin_method)
            feature_name = feature.name
            is_cat_or_string = feature.dtype in [pl.Categorical, pl.Enum, pl.Utf8, pl.Object]
        for i in range(len(pred_names)):
            x = np.asarray(y_pred if n_pred == 0 else get_second_dimension(y_pred, i))
            if feature is None:
                y_obs_mean = np.average(y_obs, weights=w)
                y_pred_mean = np.average(x, weights=w)
                weights_sum = np.sum(w)
                count = y_obs.shape[0]
                y_obs_stddev = np.average((y_obs - y_obs_mean) ** 2, weights=w) / np.amax([1, count - 1])
                y_pred_stddev = np.average((x - y_pred_mean) ** 2, weights=w) / np.amax([1, count - 1])
                df = pl.DataFrame({'y_obs_mean': [y_obs_mean], 'y_pred_mean': [y_pred_mean], 'count': pl.Series([count], dtype=pl.UInt32), 'weights': [weights_sum], 'y_obs_stderr': [np.sqrt(y_obs_stddev)], 'y_pred_stderr': [np.sqrt(y_pred_stddev)]})
            else:
                df = pl.DataFrame({'y_obs': y_obs, 'y_pred': x, feature_name: feature, 'weights': w})
                agg_list = [pl.count('y_obs').alias('count'), pl.col('weights').sum().alias('weights_sum'), *chain.from_iterable(([pl.col(c + '_mean').first(), ((pl.col('weights') * (pl.col(c) - pl.col(c + '_mean')) ** 2).sum() / pl.col('weights').sum()).alias(c + '_variance')] for c in ['y_obs', 'y_pred']))]
                groupby_name = 'bin'
                df = df.hstack([f_binned.get_column('bin')])
                if not is_cat_or_string:
                    df = df.hstack([f_binned.get_column('bin_edges')])
                    agg_list += [pl.col(feature_name).mean(), pl.col(feature_name).std(ddof=0).alias('__feature_std'), pl.col('bin_edges').first()]
                df = df.lazy().select(pl.all(), ((pl.col('weights') * pl.col('y_obs')).sum().over(groupby_name) / pl.col('weights').sum().over(groupby_name)).alias('y_obs_mean'), ((pl.col('weights') * pl.col('y_pred')).sum().over(groupby_name) / pl.col('weights').sum().over(groupby_name)).alias('y_pred_mean')).group_by(groupby_name).agg(agg_list).with_columns([pl.when(pl.col('count') > 1).then(pl.col(c + '_variance') / (pl.col('count') - 1)).otherwise(pl.col(c + '_variance')).sqrt().alias(c + '_stderr') for c in ('y_obs', 'y_pred')])
                if is_cat_or_string:
                    df = df.with_columns(pl.col(groupby_name).alias(feature_name))
                df = df.with_columns(pl.when(pl.col(feature_name).is_null()).then(pl.max('count') + 1).otherwise(pl.col('count')).alias('__priority')).sort('__priority', descending=True).head(n_bins).sort(feature_name, descending=False).select(pl.col(feature_name), pl.col('y_obs_mean'), pl.col('y_pred_mean'), pl.col('y_obs_stderr'), pl.col('y_pred_stderr'), pl.col('weights_sum').alias('weights'), pl.col('count'), *([] if is_cat_or_string else [pl.col('bin_edges'), pl.col('__feature_std')]))
                if not is_cat_or_string:
                    df = df.with_columns(pl.when(pl.col('bin_edges').is_null()).then(pl.concat_list(pl.lit(None), pl.col('__feature_std'), pl.lit(None))).otherwise(pl.concat_list(pl.col('bin_edges').arr.first(), pl.col('__feature_std'), pl.col('bin_edges').arr.last())).list.to_array(3).alias('bin_edges'))
                df = df.collect()
            if n_pred > 0:
                model_col_name = 'model_' if feature_name == 'model' else 'model'
                df = df.with_columns(pl.Series(model_col_name, [pred_names[i]] * df.shape[0]))
            with_pd = predict_function is not None and feature_name is not None
            if with_pd:
                feature_col = df.get_column(feature_name)
                if is_cat_or_string:
                    real_values = set(feature.drop_nulls().unique().cast(pl.String).to_list())
                    is_real = [v is None or v in real_values for v in feature_col.cast(pl.String).to_list()]
                else:
                    is_real = [True] * df.shape[0]
                grid = feature_col.filter(pl.Series(is_real, dtype=pl.Boolean))
                pd_values = compute_partial_dependence(pred_fun=predict_function, X=X, feature_index=feature_index, grid=grid, weights=weights, n_max=n_max, rng=rng)
                pd_iter = iter(np.asarray(pd_values, dtype=float).tolist())
                df = df.with_columns(pl.Series(name='partial_dependence', values=[next(pd_iter) if r else None for r in is_real], dtype=pl.Float64))
            col_selection = []
            if n_pred > 0:
                col_selection.append(model_col_name)
            if feature_name is not None and feature_name in df.columns:
                col_selection.append(str(feature_name))
            col_selection += ['y_obs_mean', 'y_pred_mean', 'y_obs_stderr', 'y_pred_stderr', 'count', 'weights']
            if feature_name in df.columns and (not is_cat_or_string):
                col_selection += ['bin_edges']
            if with_pd:
                col_selection += ['partial_dependence']
            df_list.append(df.select(col_selection))
        df = pl.concat(df_list)
    return df
