def gpava(fun, y, w=None):
    if w is None:
        y = np.asarray(y)
        w = np.ones_like(y, dtype=float)
    else:
        y, w = validate_2_arrays(y, w)
        w = w.astype(float)
    n: int = y.shape[0]
    x = y.astype(float)
    r = np.full(shape=n + 1, fill_value=-1, dtype=np.intp)
    r[0] = 0
    r[1] = 1
    b: int = 0
    xb_prev = HOLE("init_x")
    i = 1
    while i < n:
        b += 1
        xb = HOLE("read_x")
        if HOLE("viol"):
            b -= 1
            xb = fun(y[r[b]:r[b + 1] + 1], w[r[b]:r[b + 1] + 1])
            while i < n - 1 and HOLE("up"):
                i += 1
                xb = fun(y[r[b]:i + 1], w[r[b]:i + 1])
            while b >= 1 and HOLE("down"):
                b -= 1
                xb = fun(y[r[b]:i + 1], w[r[b]:i + 1])
        x[b] = xb_prev = xb
        r[b + 1] = i + 1
        i += 1
    f = n - 1
    for k in range(b, -1, -1):
        t = r[k]
        xk = x[k]
        for i in range(f, t - 1, -1):
            x[i] = xk
        f = t - 1
    return (x, r[:b + 2])
