def quantile_upper(x, wx=None, level=0.5):
    return -np.quantile(-x, float(1 - Decimal(str(level))), method='inverted_cdf')
