def plot_reliability_diagram(
    y_obs: npt.ArrayLike,
    y_pred: npt.ArrayLike,
    weights: Optional[npt.ArrayLike] = None,
    *,
    functional: str = "mean",
    level: float = 0.5,
    n_bootstrap: Optional[str] = None,
    confidence_level: float = 0.9,
    diagram_type: str = "reliability",
    ax: Optional[mpl.axes.Axes] = None,
):
    r"""Plot a reliability diagram.

    A reliability diagram or calibration curve assesses auto-calibration. It plots the
    conditional expectation given the predictions `E(y_obs|y_pred)` (y-axis) vs the
    predictions `y_pred` (x-axis).
    The conditional expectation is estimated via isotonic regression (PAV algorithm)
    of `y_obs` on `y_pred`.
    See [Notes](#notes) for further details.

    Parameters
    ----------
    y_obs : array-like of shape (n_obs)
        Observed values of the response variable.
        For binary classification, y_obs is expected to be in the interval [0, 1].
    y_pred : array-like of shape (n_obs) or (n_obs, n_models)
        Predicted values, e.g. for the conditional expectation of the response,
        `E(Y|X)`.
    weights : array-like of shape (n_obs) or None
        Case weights.
    functional : str
        The functional that is induced by the identification function `V`. Options are:

        - `"mean"`. Argument `level` is neglected.
        - `"median"`. Argument `level` is neglected.
        - `"expectile"`
        - `"quantile"`

    level : float
        The level of the expectile or quantile. (Often called \(\alpha\).)
        It must be `0 <= level <= 1`.
        `level=0.5` and `functional="expectile"` gives the mean.
        `level=0.5` and `functional="quantile"` gives the median.
    n_bootstrap : int or None
        If not `None`, then `scipy.stats.bootstrap` with `n_resamples=n_bootstrap`
        is used to calculate confidence intervals at level `confidence_level`.
    confidence_level : float
        Confidence level for bootstrap uncertainty regions.
    diagram_type: str
        - `"reliability"`: Plot a reliability diagram.
        - `"bias"`: Plot roughly a 45 degree rotated reliability diagram. The resulting
          plot is similar to `plot_bias`, i.e. `y_pred - E(y_obs|y_pred)` vs `y_pred`.
    ax : matplotlib.axes.Axes or plotly Figure
        Axes object to draw the plot onto, otherwise uses the current Axes.

    Returns
    -------
    ax :
        Either the matplotlib axes or the plotly figure. This is configurable by
        setting the `plot_backend` via
        [`model_diagnostics.set_config`][model_diagnostics.set_config] or
        [`model_diagnostics.config_context`][model_diagnostics.config_context].

    Notes
    -----
    [](){#notes}
    The expectation conditional on the predictions is \(E(Y|y_{pred})\). This object is
    estimated by the pool-adjacent violator (PAV) algorithm, which has very desirable
    properties:

        - It is non-parametric without any tuning parameter. Thus, the results are
          easily reproducible.
        - Optimal selection of bins
        - Statistical consistent estimator

    For details, refer to `[Dimitriadis2021]`.

    References
    ----------
    `[Dimitriadis2021]`

    :   T. Dimitriadis, T. Gneiting, and A. I. Jordan.
        "Stable reliability diagrams for probabilistic classifiers".
        In: Proceedings of the National Academy of Sciences 118.8 (2021), e2016191118.
        [doi:10.1073/pnas.2016191118](https://doi.org/10.1073/pnas.2016191118).
    """
    if ax is None:
        plot_backend = get_config()["plot_backend"]
        if plot_backend == "matplotlib":
            ax = plt.gca()
        else:
            import plotly.graph_objects as go

            fig = ax = go.Figure()
    elif isinstance(ax, mpl.axes.Axes):
        plot_backend = "matplotlib"
    elif is_plotly_figure(ax):
        import plotly.graph_objects as go

        plot_backend = "plotly"
        fig = ax
    else:
        msg = (
            "The ax argument must be None, a matplotlib Axes or a plotly Figure, "
            f"got {type(ax)}."
        )
        raise ValueError(msg)

    if diagram_type not in ("reliability", "bias"):
        msg = (
            "Parameter diagram_type must be either 'reliability', 'bias', "
            f"got {diagram_type}."
        )
        raise ValueError(msg)

    if (n_cols := length_of_second_dimension(y_obs)) > 0:
        if n_cols == 1:
            y_obs = get_second_dimension(y_obs, 0)
        else:
            msg = (
                f"Array-like y_obs has more than 2 dimensions, y_obs.shape[1]={n_cols}"
            )
            raise ValueError(msg)

    validate_same_first_dimension(y_obs, y_pred)
    if weights is not None:
        validate_same_first_dimension(weights, y_obs)

    y_min, y_max = get_array_min_max(y_pred)
    if diagram_type == "reliability":
        if plot_backend == "matplotlib":
            ax.plot([y_min, y_max], [y_min, y_max], color="k", linestyle="dotted")
        else:
            fig.add_scatter(
                x=[y_min, y_max],
                y=[y_min, y_max],
                mode="lines",
                line={"color": "black", "dash": "dot"},
                showlegend=False,
            )
    elif plot_backend == "matplotlib":
        # horizontal line at y=0

        # The following plots in axis coordinates
        # ax.axhline(y=0, xmin=0, xmax=1, color="k", linestyle="dotted")
        # but we plot in data coordinates instead.
        ax.hlines(0, xmin=y_min, xmax=y_max, color="k", linestyle="dotted")
    else:
        # horizontal line at y=0
        fig.add_hline(y=0, line={"color": "black", "dash": "dot"}, showlegend=False)

    if n_bootstrap is not None:
        if functional == "mean":

            def iso_statistic(y_obs, y_pred, weights=None, x_values=None):
                iso_b = (
                    IsotonicRegression_skl(out_of_bounds="clip")
                    .set_output(transform="default")
                    .fit(y_pred, y_obs, sample_weight=weights)
                )
                return iso_b.predict(x_values)

        else:

            def iso_statistic(y_obs, y_pred, weights=None, x_values=None):
                iso_b = IsotonicRegression(functional=functional, level=level).fit(
                    y_pred, y_obs, sample_weight=weights
                )
                return iso_b.predict(x_values)

    n_pred = length_of_second_dimension(y_pred)
    pred_names, _ = get_sorted_array_names(y_pred)

    for i in range(len(pred_names)):
        y_pred_i = y_pred if n_pred == 0 else get_second_dimension(y_pred, i)

        if functional == "mean":
            iso = (
                IsotonicRegression_skl()
                .set_output(transform="default")
                .fit(y_pred_i, y_obs, sample_weight=weights)
            )
        else:
            iso = IsotonicRegression(functional=functional, level=level).fit(
                y_pred_i, y_obs, sample_weight=weights
            )

        # confidence intervals
        if n_bootstrap is not None:
            data: tuple[npt.ArrayLike, ...]
            data = (y_obs, y_pred_i) if weights is None else (y_obs, y_pred_i, weights)

            boot = bootstrap(
                data=data,
                statistic=partial(iso_statistic, x_values=iso.X_thresholds_),
                n_resamples=n_bootstrap,
                paired=True,
                confidence_level=confidence_level,
                # Note: method="bca" might result in
                # DegenerateDataWarning: The BCa confidence interval cannot be
                # calculated. This problem is known to occur when the distribution is
                # degenerate or the statistic is np.min.
                method="basic",
            )

            # We make the interval conservatively monotone increasing by applying
            # np.maximum.accumulate etc.
            # Conservative here means smaller intervals such that it is more likely
            # for the prediction to be out of the intervals leading to the conclusion
            # of "not auto-calibrated".
            lower = np.maximum.accumulate(boot.confidence_interval.low)
            upper = np.minimum.accumulate(boot.confidence_interval.high[::-1])[::-1]
            if diagram_type == "bias":
                lower = iso.X_thresholds_ - lower
                upper = iso.X_thresholds_ - upper
            if plot_backend == "matplotlib":
                ax.fill_between(iso.X_thresholds_, lower, upper, alpha=0.1)
            else:
                # plotly has not equivalent of fill_between and needs a bit more coding
                color = get_plotly_color(i)
                fig.add_scatter(
                    x=np.r_[iso.X_thresholds_, iso.X_thresholds_[::-1]],
                    y=np.r_[lower, upper[::-1]],
                    fill="toself",
                    fillcolor=color,
                    hoverinfo="skip",
                    line={"color": color},
                    mode="lines",
                    opacity=0.1,
                    showlegend=False,
                )

        # reliability curve
        label = pred_names[i] if n_pred >= 2 else None

        y_plot = (
            iso.y_thresholds_
            if diagram_type == "reliability"
            else iso.X_thresholds_ - iso.y_thresholds_
        )
        if plot_backend == "matplotlib":
            ax.plot(iso.X_thresholds_, y_plot, label=label)
        else:
            fig.add_scatter(
                x=iso.X_thresholds_,
                y=y_plot,
                mode="lines",
                line={"color": get_plotly_color(i)},
                name=label,
            )

    xlabel_mapping = {
        "mean": "E(Y|X)",
        "median": "median(Y|X)",
        "expectile": f"{level}-expectile(Y|X)",
        "quantile": f"{level}-quantile(Y|X)",
    }
    ylabel_mapping = {
        "mean": "E(Y|prediction)",
        "median": "median(Y|prediction)",
        "expectile": f"{level}-expectile(Y|prediction)",
        "quantile": f"{level}-quantile(Y|prediction)",
    }
    xlabel = "prediction for " + xlabel_mapping[functional]
    if diagram_type == "reliability":
        ylabel = "estimated " + ylabel_mapping[functional]
        title = "Reliability Diagram"
    else:
        ylabel = "prediction - estimated " + ylabel_mapping[functional]
        title = "Bias Reliability Diagram"

    if n_pred <= 1 and len(pred_names[0]) > 0:
        title = title + " " + pred_names[0]

    if plot_backend == "matplotlib":
        if n_pred >= 2:
            ax.legend()
        ax.set_title(title)
        ax.set(xlabel=xlabel, ylabel=ylabel)
    else:
        if n_pred <= 1:
            fig.update_layout(showlegend=False)
        fig.update_layout(xaxis_title=xlabel, yaxis_title=ylabel, title=title)

    return ax
