def array_name(a: Optional[npt.ArrayLike], default: str = "") -> str:
    """Extract name from array if it exists."""
    if a is None:
        name = default
    elif hasattr(a, "name"):
        # pandas and polars Series
        name = a.name
    elif hasattr(a, "_name"):
        # pyarrow Array / ChunkedArray
        name = a._name  # noqa: SLF001
    else:
        name = default

    if name is None or not name:  # not name is same as name == ""
        # The name attribute could be None, at least for pandas.Series, or "".
        name = default

    return name
