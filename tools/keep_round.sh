#!/bin/sh
# keep_round.sh <round> [pids...]: confirm + test the two changes of every property of one round.  The two changes of a
# property share one scratch worktree, so they run one after the other; properties run in parallel.
r=$1; shift
mkdir -p /tmp/seedwork_md/r${r}logs
pids=${*:-"C01 C02 C03 C04 C05 C06 C07 C08 C09 C10 C11 C12 C13 C14 C15 C16 C17 C18 C19 C20"}
for p in $pids; do echo $p; done | xargs -P7 -L1 sh -c 'for m in m1 m2; do python3 /verif/tools/keep_mutant.py $0 $m $0 --round='$r' > /tmp/seedwork_md/r'$r'logs/$0_$m.log 2>&1; done'
grep -h "confirmed\|CONFIRMED" /tmp/seedwork_md/r${r}logs/C*_m?.log | cut -c1-330
