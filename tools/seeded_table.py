#!/usr/bin/env python3
"""Writes seeded/RESULTS.md from seeded/*/m*/meta.json."""
import glob, json, os
rows = []
for p in sorted(glob.glob("/verif/seeded/*/*m[0-9]/meta.json")):
    m = json.load(open(p))
    pid, mk = p.split("/")[-3], p.split("/")[-2]
    chk = m.get("checks_run_against_it", {})
    how = []
    for c, v in chk.items():
        if not v.get("detected"):
            how.append(f"{c}: MISSED")
        else:
            rp = v.get("replay") or {}
            if rp.get("kind") == "failing-input":
                how.append(f"{c}: failing input ({'; '.join((rp.get('clauses') or ['?'])[:1])[:90]})")
            else:
                how.append(f"{c}: broken obligation ({', '.join((rp.get('broken') or ['?'])[:2])[:90]}), no-failing-input-found")
    rows.append(f"| {pid}/{mk} | {m.get('summary', '')[:160].replace('|', '/')} | {m.get('needs', '')[:140].replace('|', '/')} | {'<br>'.join(how)} |")
open("/verif/seeded/RESULTS.md", "w").write("# Seeded changes\n\n| id | change | needs | checks |\n|---|---|---|---|\n" + "\n".join(rows) + "\n")
print(len(rows), "rows")
