#!/usr/bin/env python3
"""Re-runs every stored seeded change against the CURRENT checks (those recorded in its meta.json) and rewrites
the outcome in the meta file; prints one line per change.  Scratch worktrees /tmp/seedwork_md/Cxx must exist
(tools/mk_worktrees.sh creates them, mk_worktrees.sh --remove deletes them)."""
import glob, json, os, subprocess, sys
rows = []
only = set(sys.argv[1:])            # optional property ids: retest_all.py C01 C02 (run several groups in parallel)
for p in sorted(glob.glob("/verif/seeded/*/*m[0-9]/meta.json")):
    pid, name = p.split("/")[-3], p.split("/")[-2]
    if only and pid not in only:
        continue
    m = json.load(open(p))
    checks = list(m.get("checks_run_against_it", {}).keys()) or [pid]
    wt = f"/tmp/seedwork_md/{pid}"
    head = subprocess.run(["git", "-C", "/repo", "rev-parse", "HEAD"], capture_output=True, text=True).stdout.strip()
    subprocess.run(f"git -C {wt} reset -q --hard && git -C {wt} checkout -q --detach {head}", shell=True)
    r = subprocess.run(["python3", "/verif/tools/try_mutant.py", os.path.dirname(p), wt] + checks, capture_output=True, text=True)
    try:
        d = json.loads(r.stdout.strip().splitlines()[-1])
    except Exception:
        print(pid, name, "ERROR", r.stdout[-200:], r.stderr[-200:]); continue
    if d.get("error"):
        print(pid, name, "PATCH-ERROR", d["error"][:120]); continue
    summ = {k: dict(detected=v["exit"] == 1, with_failing_input=bool(v["lines"]) and any(l.startswith("VIOLATION") and "no-failing-input-found" not in l for l in v["lines"]),
                    replay=v["replay"], secs=v["secs"]) for k, v in d.get("checks", {}).items()}
    m["checks_run_against_it"] = summ
    m["retested_at_repo_head"] = head[:7]
    json.dump(m, open(p, "w"), indent=1)
    ok = any(v["detected"] for v in summ.values())
    print(pid, name, "demo", d.get("demo_clean"), d.get("demo_mutated"), "lost", d.get("baseline_lost"), "DETECTED" if ok else "MISSED",
          {k: ("input" if v["with_failing_input"] else ("obligation" if v["detected"] else "no")) for k, v in summ.items()}, flush=True)
