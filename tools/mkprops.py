#!/usr/bin/env python3
"""One-shot helper (not part of any check): writes coq/props/<ID>.v from a list of
(theorem name, lemma it is closed by, comment) by asking coqtop for the lemma's
statement, so that the property file shows the full statement.  The output is
then owned by hand and committed."""
import re, subprocess, sys, os
COQ = os.path.join(os.path.dirname(os.path.dirname(os.path.abspath(__file__))), "coq")

def statement(imports, opens, lemma):
    src = imports + "\n" + opens + "\nSet Printing Width 110.\nCheck " + lemma + ".\n"
    r = subprocess.run(["coqtop", "-Q", ".", "MD", "-w", "none", "-quiet"], input=src, cwd=COQ, capture_output=True, text=True)
    out = r.stdout
    m = re.search(re.escape(lemma) + r"\s*:\s*(.*?)(?=\n\nCoq <|\Z)", out, re.S)
    if not m:
        raise SystemExit(f"no statement for {lemma}: {out[-500:]} {r.stderr[-500:]}")
    return m.group(1).strip()

def write(pid, header, imports, opens, items):
    out = [f"(* {header} *)", imports, opens, ""]
    for name, lemma, comment in items:
        st = statement(imports, opens, lemma)
        if comment:
            out.append(f"(* {comment} *)")
        out.append(f"Theorem {pid}_{name} :\n  {st}.\nProof. exact {lemma}. Qed.\nPrint Assumptions {pid}_{name}.\n")
    open(os.path.join(COQ, "props", pid + ".v"), "w").write("\n".join(out))

if __name__ == "__main__":
    spec = {}
    exec(open(sys.argv[1]).read(), spec)
    write(spec["pid"], spec["header"], spec["imports"], spec["opens"], spec["items"])
