#!/usr/bin/env python3
"""mk_tmpl.py <repo-relative file> <function> <name>: (re)writes skeleton/<name>.tmpl.py as the hole-free
pinned source of the function (whole-function skeleton: any change of the AST is then a broken tie)."""
import ast, sys
path, fn, name = sys.argv[1:4]
src = open("/repo/" + path).read()
tree = ast.parse(src)
node = None
for n in ast.walk(tree):
    if isinstance(n, (ast.FunctionDef, ast.ClassDef)) and n.name == fn:
        node = n
        break
seg = ast.get_source_segment(src, node)
open(f"/verif/skeleton/{name}.tmpl.py", "w").write(seg + "\n")
import os
h = f"/verif/skeleton/{name}.holes.json"
if not os.path.exists(h):
    open(h, "w").write("{}\n")
