#!/usr/bin/env python3
"""usage: baseline_check.py <worktree>   -- runs the pinned test suite in the worktree (imports from <worktree>/src)
and reports whether every test in the stable baseline (408 tests) still passes."""
import json, os, subprocess, sys, tempfile
import xml.etree.ElementTree as ET
wt = os.path.abspath(sys.argv[1])
base = json.load(open("/root/.vp/BASELINE.json"))
stable = set(base["stable_pass"])
fd, junit = tempfile.mkstemp(suffix=".xml"); os.close(fd)
env = dict(os.environ, PYTHONPATH=os.path.join(wt, "src"), PYTHONHASHSEED="0")
r = subprocess.run(["/venv/bin/python", "-m", "pytest", "-ra", "-q", "-p", "no:cacheprovider", "--timeout=900",
                    "--continue-on-collection-errors", f"--junitxml={junit}"], cwd=wt, env=env, capture_output=True, text=True)
passed = set()
for tc in ET.parse(junit).getroot().iter("testcase"):
    if not any(ch.tag in ("failure", "error", "skipped") for ch in tc):
        passed.add(f"{tc.get('classname')}::{tc.get('name')}")
os.unlink(junit)
missing = sorted(stable - passed)
chk = subprocess.run(["/venv/bin/python", "-c", "import model_diagnostics;print(model_diagnostics.__file__)"], env=env, capture_output=True, text=True, cwd=wt)
print("imported from:", chk.stdout.strip())
print(f"baseline tests: {len(stable)}; still passing: {len(stable & passed)}; no longer passing: {len(missing)}")
for m in missing[:40]:
    print("  LOST:", m)
sys.exit(1 if missing else 0)
