#!/usr/bin/env python3
"""Developer tool (not a registered check): confirm a seeded change and run checks against it.

  try_mutant.py <mutant-dir> <worktree> <pid> [<pid> ...] [--skip-confirm]

<mutant-dir> holds patch.diff, demo.py, meta.json.  The patch is applied to the scratch
<worktree> (a git worktree of /repo outside /repo and /verif), the baseline suite and the
demo are run there, then a scratch COPY of /verif (so that generated files of the live
/verif are not disturbed) runs `./check <pid>` with VERIF_REPO=<worktree>.  The worktree is
reverted afterwards.  Prints one JSON line with the outcome."""
import json, os, shutil, subprocess, sys, time

def sh(cmd, **kw):
    return subprocess.run(cmd, shell=isinstance(cmd, str), capture_output=True, text=True, **kw)

def main():
    args = [a for a in sys.argv[1:] if not a.startswith("--")]
    skip = "--skip-confirm" in sys.argv
    mdir, wt, pids = os.path.abspath(args[0]), os.path.abspath(args[1]), args[2:]
    out = dict(mutant=mdir, pids=pids)
    sh(f"git -C {wt} reset -q --hard && git -C {wt} clean -fdq")
    env = dict(os.environ, PYTHONPATH=f"{wt}/src", PYTHONHASHSEED="0", MPLBACKEND="Agg")
    demo = os.path.join(mdir, "demo.py")
    if not skip:
        r = sh(["/venv/bin/python", demo], env=env, cwd=mdir)
        out["demo_clean"] = r.returncode
    r = sh(f"git -C {wt} apply {mdir}/patch.diff || git -C {wt} apply --3way {mdir}/patch.diff")
    if r.returncode:
        print(json.dumps(dict(out, error="patch does not apply: " + r.stderr[-300:]))); return 2
    try:
        if not skip:
            r = sh(["/venv/bin/python", demo], env=env, cwd=mdir)
            out["demo_mutated"] = r.returncode
            out["demo_tail"] = (r.stdout + r.stderr)[-400:]
            r = sh(["python3", "/verif/tools/baseline_check.py", wt])
            out["baseline_lost"] = r.returncode
            out["baseline_tail"] = r.stdout.strip().splitlines()[-1] if r.stdout.strip() else r.stderr[-200:]
        scratch = f"/tmp/vrun/{os.path.basename(os.path.dirname(mdir + '/'))}_{os.path.basename(mdir)}_{os.getpid()}"
        os.makedirs(scratch, exist_ok=True)
        sh(f"rsync -a --exclude .git --exclude replays --exclude build/corr /verif/ {scratch}/verif/")
        out["checks"] = {}
        for pid in pids:
            t0 = time.time()
            r = sh(["./check", pid, "--tier", "quick"], cwd=f"{scratch}/verif", env=dict(os.environ, VERIF_REPO=wt))
            lines = [l for l in r.stdout.splitlines() if l.startswith(("VIOLATION", "KNOWN-FINDING")) or l.startswith(pid + ":")]
            rp = None
            for l in lines:
                if l.startswith("VIOLATION") and "replay=" in l:
                    p = l.split("replay=")[1].split()[0]
                    try:
                        d = json.load(open(p))
                        rp = dict(kind=d.get("kind"), broken=[b["name"] for b in d.get("broken", [])][:8], case=str(d.get("case"))[:300], clauses=d.get("clauses"))
                    except Exception as e:
                        rp = str(e)
            out["checks"][pid] = dict(exit=r.returncode, lines=lines, replay=rp, secs=round(time.time() - t0), err=r.stderr[-300:] if r.returncode not in (0, 1) else "")
        shutil.rmtree(scratch, ignore_errors=True)
    finally:
        sh(f"git -C {wt} reset -q --hard && git -C {wt} clean -fdq")
    print(json.dumps(out))
    return 0

if __name__ == "__main__":
    sys.exit(main())
