#!/bin/sh
# Recreates the scratch worktrees the seeded-change tools expect (/tmp/seedwork_md/C01..C20 at /repo's HEAD, and
# /tmp/seedwork_md/tools/baseline_check.py).  Remove them again when done:  mk_worktrees.sh --remove
if [ "$1" = "--remove" ]; then
  for i in 01 02 03 04 05 06 07 08 09 10 11 12 13 14 15 16 17 18 19 20; do git -C /repo worktree remove --force /tmp/seedwork_md/C$i 2>/dev/null; done
  git -C /repo worktree prune; rm -rf /tmp/seedwork_md /tmp/vrun; exit 0
fi
mkdir -p /tmp/seedwork_md/tools; cp /verif/tools/baseline_check.py /tmp/seedwork_md/tools/
for i in 01 02 03 04 05 06 07 08 09 10 11 12 13 14 15 16 17 18 19 20; do
  [ -d /tmp/seedwork_md/C$i ] || git -C /repo worktree add --detach /tmp/seedwork_md/C$i HEAD >/dev/null
done
git -C /repo worktree list | wc -l
