pid = "C15"
header = """C15 - Elementary scores are non-negative, consistent, integrate to standard scores.
   World R.  gen_elem_spo is ElementaryScore.score_per_obs as translated from scoring.py on every run.
   elem_val V eta y z        = (1{eta<=z} - 1{eta<=y}) * V(y, eta)     (mean, expectile)
   elem_val_strict V eta y z = (1{eta<z}  - 1{eta<y})  * V(y, eta)     (quantile, median)
   The strict indicators for the quantile/median are the library fix 42d574f ("fix: ElementaryScore for
   quantiles is negative when eta equals y_obs > y_pred"); before it the non-strict formula was used for all
   functionals, and the last two theorems record, for that OLD formula, the refutation of non-negativity and of
   consistency at eta = observation (the finding that led to the fix).  If the fix were reverted, the
   translated gen_elem_spo would no longer match spec_elem and bridge_elem would fail.
   wtotal sc S c = sum_i w_i sc(y_i, c); the sample's functional t is given by its first-order condition.
   Integrals are Coquelicot is_RInt over [min(y,z), max(y,z)] (the integrand vanishes outside)."""
imports = """From Coq Require Import Reals List Bool.
From Coquelicot Require Import Coquelicot.
Import ListNotations.
From MD Require Import lib.NumpyR lib.NumpyR2 spec.Scores theory.Bregman gen.Gen_ident gen.Gen_scoring proofs.ScoreProps proofs.ScoreGen proofs.Consistency proofs.ElemIntegral."""
opens = "Open Scope R_scope."
items = [
 ("generated_mean", "elem_gen_mean", "tie to the translated code"),
 ("generated_expectile", "elem_gen_expectile", None),
 ("generated_quantile", "elem_gen_quantile", None),
 ("generated_median", "elem_gen_median", None),
 ("level_guard", "g_elem_init_guard", None),
 ("nonneg_mean", "elem_nonneg_mean", ">= 0 for every eta, observation and prediction"),
 ("nonneg_expectile", "elem_nonneg_expectile", None),
 ("nonneg_quantile", "elem_strict_nonneg_quantile", None),
 ("zero", "elem_zero", "0 when prediction equals observation"),
 ("zero_quantile", "elem_strict_zero", None),
 ("consistent_mean", "elem_consistent_mean", "minimised in expectation by the functional of the sample, for EVERY eta (data values included)"),
 ("consistent_expectile", "elem_consistent_expectile", None),
 ("consistent_quantile", "elem_consistent_quantile", None),
 ("integral_mean", "elem_integral_mean_score", "integrated over eta: half the squared error / the pinball loss / half the degree-2 expectile score"),
 ("integral_quantile", "elem_integral_quantile_strict", None),
 ("integral_expectile", "elem_integral_expectile_score", None),
 ("zero_outside", "elem_val_zero_outside", "the integrand vanishes outside [min(y,z), max(y,z)]"),
 ("zero_outside_strict", "elem_strict_zero_outside", None),
 ("murphy_area_mean", "murphy_area_mean_score", "Murphy diagram: the area under the average elementary score is the average score"),
 ("murphy_area_quantile", "murphy_area_quantile_strict", None),
 ("murphy_area_expectile", "murphy_area_expectile_score", None),
 ("murphy_nonneg_mean", "murphy_nonneg_mean", "... and the curve is non-negative"),
 ("murphy_nonneg_expectile", "murphy_nonneg_expectile", None),
 ("murphy_nonneg_quantile", "murphy_nonneg_quantile_strict", None),
 ("old_formula_nonneg_refuted", "elem_nonneg_quantile_refuted", "the pre-fix formula (non-strict indicators for the quantile): refuted"),
 ("old_formula_consistent_refuted", "elem_consistent_quantile_refuted", None),
]
