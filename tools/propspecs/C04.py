pid = "C04"
header = """C04 - Scoring functions are non-negative, zero at perfect forecasts, order-sensitive.
   World R.  Every theorem is about the GENERATED functions gen_*_spo of gen/Gen_scoring.v, which
   translate/gen_r.py regenerates from scoring.py on every run; they are connected to the hand
   specifications (spec/Scores.v) by the bridge lemmas of bridge/Bridge_scoring.v.
   h = degree, a = level, result = Ok s | ValueErr; *_ok is the definedness predicate
   (no division by zero, no log of a non-positive number, no power outside its real domain),
   so `defined` = never NaN / finite.  hes_dom / hqs_dom are the documented domains."""
imports = """From Coq Require Import Reals List Bool.
Import ListNotations.
From MD Require Import lib.NumpyR spec.Scores gen.Gen_ident gen.Gen_scoring proofs.ScoreProps proofs.ScoreGen."""
opens = "Open Scope R_scope."
items = [
 ("hes_domain", "g_hes_domain", "homogeneous expectile scores (squared error, Poisson, Gamma deviance are members): rejected with ValueError exactly outside the documented domain"),
 ("hes_defined", "g_hes_defined", None),
 ("hes_nonneg", "g_hes_nonneg", None),
 ("hes_zero", "g_hes_zero", None),
 ("hes_order", "g_hes_order", "moving the prediction further away on the same side never lowers the score"),
 ("hqs_domain", "g_hqs_domain", "homogeneous quantile scores (pinball loss is the member of degree 1)"),
 ("hqs_defined", "g_hqs_defined", None),
 ("hqs_nonneg", "g_hqs_nonneg", None),
 ("hqs_zero", "g_hqs_zero", None),
 ("hqs_order", "g_hqs_order", None),
 ("logloss_defined", "g_ll_defined", "log loss for y in [0,1], z in (0,1); any1 is the sample-wide np.any flag, flag_ok says it is set whenever this observation sets it"),
 ("logloss_nonneg", "g_ll_nonneg", None),
 ("logloss_zero", "g_ll_zero", None),
 ("logloss_order", "g_ll_order", None),
 ("named_members", "g_named_members", "SquaredError, PoissonDeviance, GammaDeviance, PinballLoss inherit all of the above"),
 ("hes_level_guard", "g_hes_init_guard", "constructors reject levels outside (0,1)"),
 ("hqs_level_guard", "g_hqs_init_guard", None),
 ("array_ok", "lift2_ok", "arrays: the call on vectors returns the per-observation values, and raises iff some observation is out of domain"),
 ("array_err", "lift2_err", None),
]
