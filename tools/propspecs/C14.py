pid = "C14"
header = """C14 - Homogeneous scores scale with their degree and reduce to the named special cases.
   World R, about the GENERATED gen_*_spo (gen/Gen_scoring.v).  h = degree, a = level.
   Rpower c h = c^h for c > 0 (h = 0 gives 1: scale invariance)."""
imports = """From Coq Require Import Reals List Bool.
Import ListNotations.
From MD Require Import lib.NumpyR spec.Scores theory.Powers gen.Gen_ident gen.Gen_scoring proofs.ScoreProps proofs.ScoreGen."""
opens = "Open Scope R_scope."
items = [
 ("hes_homogeneous", "g_hes_homogeneous", "S(c y, c z) = c^h S(y, z) for every c > 0 and every accepted pair"),
 ("hqs_homogeneous", "g_hqs_homogeneous", None),
 ("named_members", "g_named_members", "SquaredError / PoissonDeviance / GammaDeviance / PinballLoss are the members (2, 1/2), (1, 1/2), (0, 1/2), quantile degree 1"),
 ("squared_error", "g_squared_error", "and have the textbook closed forms"),
 ("poisson", "g_poisson", None),
 ("gamma", "g_gamma", None),
 ("pinball", "g_pinball", None),
 ("hes_half_symmetric", "g_hes_half", "at level 1/2 the asymmetric scores reduce to the symmetric ones"),
 ("hqs_half_symmetric", "g_hqs_half", None),
]
