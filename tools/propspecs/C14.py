pid = "C14"
header = """C14 - Homogeneous scores scale with their degree and reduce to the named special cases.
   World R, about the GENERATED gen_*_spo (gen/Gen_scoring.v).  h = degree, a = level.
   Rpower c h = c^h for c > 0 (h = 0 gives 1: scale invariance).  Limits are Coquelicot is_lim (value at the point ignored)."""
imports = """From Coq Require Import Reals List Bool.
Import ListNotations.
From Coquelicot Require Import Coquelicot.
From MD Require Import lib.NumpyR spec.Scores theory.Powers gen.Gen_ident gen.Gen_scoring proofs.ScoreProps proofs.ScoreGen proofs.Consistency proofs.ScoreLimits."""
opens = "Open Scope R_scope."
items = [
 ("hes_homogeneous", "g_hes_homogeneous", "S(c y, c z) = c^h S(y, z) for every c > 0 and every accepted pair"),
 ("hqs_homogeneous", "g_hqs_homogeneous", None),
 ("named_members", "g_named_members", "SquaredError / PoissonDeviance / GammaDeviance / PinballLoss are the members (2, 1/2), (1, 1/2), (0, 1/2), quantile degree 1"),
 ("squared_error", "g_squared_error", "and have the textbook closed forms"),
 ("poisson", "g_poisson", None),
 ("gamma", "g_gamma", None),
 ("pinball", "g_pinball", None),
 ("hes_half_symmetric", "g_hes_half", "at level 1/2 the asymmetric scores reduce to the symmetric ones"),
 ("hqs_half_symmetric", "g_hqs_half", None),
 ("general_formula", "breg_general", "the closed forms at degrees 1 and 0 are the limits of the general formula (hes_general / hqs_general = the expression the code evaluates away from 0 and 1)"),
 ("limit_degree_1", "hes_limit_degree_1", None),
 ("limit_degree_0", "hes_limit_degree_0", None),
 ("closed_form_1", "breg_1", None),
 ("closed_form_0", "breg_0", None),
 ("quantile_limit_degree_0", "hqs_limit_degree_0", None),
 ("score_continuous_in_degree_at_1", "hes_val_limit_degree_1", "hence the scores are continuous in the degree at 1 and 0"),
 ("score_continuous_in_degree_at_0", "hes_val_limit_degree_0", None),
 ("quantile_score_continuous_in_degree_at_0", "hqs_val_limit_degree_0", None),
]
