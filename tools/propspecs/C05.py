pid = "C05"
header = """C05 - Scores are consistent: the empirical functional minimises the average score.
   World R.  A weighted sample is S : list (y, w) with w > 0; wtotal sc S c = sum_i w_i * sc y_i c is the
   total (= average times the positive weight sum) score of the constant forecast c.  The sample's own
   functional t is characterised by its first-order condition: wsumV V S t = sum_i w_i V(y_i,t) = 0 for
   the mean / expectile, and  sum_i w_i (1{t>y_i} - a) <= 0 <= sum_i w_i (1{t>=y_i} - a)  for every value
   between the lower and the upper empirical quantile.  hes_val / hqs_val are the values the GENERATED
   score_per_obs returns on its domain (first three theorems: tie to gen/Gen_scoring.v)."""
imports = """From Coq Require Import Reals List Bool.
Import ListNotations.
From MD Require Import lib.NumpyR spec.Scores theory.Bregman gen.Gen_ident gen.Gen_scoring proofs.ScoreProps proofs.ScoreGen proofs.Consistency."""
opens = "Open Scope R_scope."
items = [
 ("hes_value_is_generated", "hes_val_is_gen", "tie: on its domain the generated score_per_obs returns exactly the value the consistency theorems speak about"),
 ("hqs_value_is_generated", "hqs_val_is_gen", None),
 ("logloss_value_is_generated", "g_ll_value", None),
 ("mean_consistent", "mean_consistent", "Bregman-type scores at level 1/2 (squared error, Poisson / Gamma deviance, every degree): the weighted sample mean beats every admissible constant"),
 ("expectile_consistent", "expectile_consistent", "asymmetric (level a) versions: the weighted sample expectile"),
 ("logloss_consistent", "logloss_consistent", None),
 ("quantile_consistent", "quantile_consistent", "quantile-type scores (pinball loss, every degree): any value between lower and upper empirical quantile"),
]
