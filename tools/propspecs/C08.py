pid = "C08"
header = """C08 - Identification functions are oriented residuals vanishing at the functional.
   gen_V is the translation of identification_function (gen/Gen_ident.v, regenerated from
   identification.py on every run).  Per-sample statements take rational samples (every float is one):
   S : list (y, w), and use the executable empirical functionals of model/Functionals.v
   (wmean, expectile_Q, qlow = inverted-CDF lower quantile, count_le)."""
imports = """From Coq Require Import Reals QArith Qreals List Bool.
Import ListNotations.
From MD Require Import lib.NumpyR lib.QLists spec.Scores model.Functionals gen.Gen_ident proofs.IdentProps."""
opens = "Open Scope R_scope."
items = [
 ("monotone", "V_monotone", "non-decreasing in the prediction, every functional, every level"),
 ("defined", "V_defined", None),
 ("level_guard", "V_level_guard", None),
 ("functional_guard", "V_functional_guard", None),
 ("median_alias", "V_median_alias", None),
 ("expectile_half_is_mean", "V_expectile_half_is_mean", None),
 ("closed_forms", "V_closed_forms", None),
 ("mean_zero", "V_mean_zero", "weighted sample average is zero at the weighted sample mean"),
 ("expectile_zero", "V_expectile_zero", "... and at the weighted sample expectile"),
 ("quantile_sum", "V_quantile_sum", "quantile: the sample sum is (number of observations <= prediction) - n * level"),
 ("quantile_negative_below", "V_quantile_negative_below", "negative for every prediction below the lower empirical quantile"),
 ("quantile_nonneg_from", "V_quantile_nonneg_from", "non-negative from the lower empirical quantile onwards"),
]
