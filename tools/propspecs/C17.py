pid = "C17"
header = """C17 - Results do not depend on the container or numeric dtype of the inputs.
   PARTIAL by nature: in a mathematical model a container does not exist.  What is proved is the second
   sentence of the property - the aggregate score (gen_call = the translation of
   _BaseScoringFunction.__call__, which no class overrides: checked by the translator on every run) is the
   weighted average of the per-observation scores and is unchanged by rescaling the weights - and that the
   vector call is the per-observation function lifted element-wise (so it cannot depend on anything but the
   numbers).  The first sentence (lists, tuples, int64/float64 ndarrays, polars Series give the same scores,
   identification values, decompositions, bias/marginal tables and isotonic fits) is decided by the
   correspondence harness harness/run_containers.py, which applies the abstraction 'container -> numbers'
   and compares every public result with the float64-ndarray result; pandas/pyarrow are not installed."""
imports = """From Coq Require Import Reals List Bool.
Import ListNotations.
From MD Require Import lib.NumpyR gen.Gen_ident gen.Gen_scoring proofs.ScoreGen proofs.CallProps."""
opens = "Open Scope R_scope."
items = [
 ("call_is_weighted_average", "call_is_wavg", "aggregate = np.average(score_per_obs, weights)"),
 ("call_weighted_value", "call_weighted_value", None),
 ("call_raises_iff", "call_raises_iff_spo_raises", None),
 ("call_scale_invariant", "call_scale_invariant", "unchanged by rescaling all weights"),
 ("unit_weights_are_plain_mean", "wavg_unit_weights", None),
 ("array_is_elementwise", "lift2_ok", "the vector call is the per-observation function applied element-wise"),
 ("array_raises_iff", "lift2_err", None),
]
