#!/usr/bin/env python3
"""keep_mutant.py <PID-of-mutant> <m> <check-pid> [<check-pid>...]: confirm a seeded change produced by a
sub-agent (demo passes on clean tree, fails with the change, baseline suite intact), run the named checks
against it in a scratch copy, and keep it under /verif/seeded/<PID>/<m>/ with the outcome in meta.json."""
import json, os, shutil, subprocess, sys
args = [a for a in sys.argv[1:] if not a.startswith("--round")]
rnd = next((a.split("=")[1] for a in sys.argv[1:] if a.startswith("--round=")), "")
pid, m, checks = args[0], args[1], args[2:]
src = f"/tmp/seedwork_md/{pid}-out{rnd}/{m}"
name = (f"r{rnd}" if rnd else "") + m
if not os.path.exists(src):
    src = f"/verif/seeded/{pid}/{name}"
wt = f"/tmp/seedwork_md/R{rnd}_{pid}" if rnd in ("3", "4", "5", "6") and os.path.exists(f"/tmp/seedwork_md/R{rnd}_{pid}") else f"/tmp/seedwork_md/{pid}"
r = subprocess.run(["python3", "/verif/tools/try_mutant.py", src, wt] + checks, capture_output=True, text=True)
d = json.loads(r.stdout.strip().splitlines()[-1])
ok = d.get("demo_clean") == 0 and d.get("demo_mutated") == 1 and d.get("baseline_lost") == 0
dst = f"/verif/seeded/{pid}/{name}"
summary = {k: dict(detected=v["exit"] == 1, with_failing_input=bool(v["lines"]) and "no-failing-input-found" not in v["lines"][0],
                   replay=v["replay"], secs=v["secs"]) for k, v in d.get("checks", {}).items()}
print(pid, name, "confirmed" if ok else "NOT CONFIRMED", json.dumps(summary)[:600])
if ok:
    os.makedirs(dst, exist_ok=True)
    if os.path.abspath(src) != os.path.abspath(dst):
        for f in ("patch.diff", "demo.py", "meta.json"):
            shutil.copy(os.path.join(src, f), dst)
    meta = json.load(open(os.path.join(dst, "meta.json")))
    meta["breaks_property"] = pid
    meta["confirmed_by_maintainer"] = dict(demo_on_clean_tree="exit 0", demo_with_change="exit 1", baseline_408_tests="all still pass",
                                           ran=[f"python3 tools/try_mutant.py {src} /tmp/seedwork_md/{pid} " + " ".join(checks)])
    meta["checks_run_against_it"] = summary
    json.dump(meta, open(os.path.join(dst, "meta.json"), "w"), indent=1)
