#!/usr/bin/env python3
"""Regenerates MANIFEST.json from the table below (single source of truth)."""
import json

CLAIMED = {
 "C10": dict(
   text="Machine-checked proof (Coq, world Q, axiom-free) about the executable model of compute_marginal (model/Marginal.v on top of the Binning, Bias and PartialDep models): every output row is the definition applied to the rows of its group "
        "(weighted means, Bessel-corrected stderr^2, count, weights), counts and weights sum to the totals, null values keep their own group, y_pred_mean - y_obs_mean equals the Bias model's mean bias row by row, the bin_edges triple is "
        "(lower, std^2 of the members' feature values, upper) with consecutive, disjoint bins spanning [min, max] and containing every member, the partial-dependence column equals the definitional partial dependence at each real feature value, "
        "and the pooled category is never shown to the predictor. Tie: whole-function skeleton of compute_marginal and correspondence (every output row and every matrix handed to the predictor compared inside Coq; the real compute_bias is called on the same input). "
        "Genuine defects found and repaired: pooled-category detection (fix 7801489), float grid truncation (fix 6654639).",
   note="Partial: sqrt exposed squared; infinite and Boolean feature values are outside the model; the predictor is assumed row-wise; numpy's Generator.choice is an oracle (indices drawn by the harness with the documented call); "
        "permutation invariance is stated after binning; polars' group_by engine is tied by correspondence only.",
   technique="Coq proof (list induction over the shared group machinery) + whole-function skeleton + exact correspondence with recording predictor", ref="4 C10"),

 "C20": dict(
   text="Machine-checked proof (Coq, axiom-free) about model/Validate.v, an abstract argument descriptor (level as a rational, functional / bin-method class, n_bins, the lengths, weight rank and sign class, scoring kind) and, per entry point (18 of them), "
        "the outcome Ok | ValueError | NotImplementedError | other in the order the real prelude tests: validate_ok_iff (the EXACT accept set), constraint_enforced, constraint_value_error (ValueError, resp. NotImplementedError for weighted quantile regression, "
        "for every in-scope entry point), valid_accepted and per-clause readings, for all rational levels, integer n_bins and lengths. Tie: every `if ...: raise` guard is extracted from the AST and compared with a committed expected list, and the descriptor space "
        "(701k descriptors incl. single-observation and length-1 mismatch classes, 1.49M real calls) is enumerated EXHAUSTIVELY against the real entry points with outcomes compared inside Coq. One genuine defect repaired (fix 872bdaf: ShapeError instead of ValueError in plot_reliability_diagram).",
   note="Reading of the text fixed in comments of proofs/ValidateProps.v: level counts only where documented as used; bin constraints only when a feature is binned; the private IsotonicRegression class is outside the exception-class clause; "
        "third-party raises (np.average, polars, sklearn) are modelled by their observed class.",
   technique="Coq proof (case analysis + lia/lra) + guard extraction from source + exhaustive enumeration of the descriptor space against the implementation", ref="4 C20"),

 "C06": dict(
   text="Machine-checked proof (Coq) about the executable model of decompose (model/Decompose.v, generic in the per-observation score): exact additive identity score = mcb - dsc + unc, score = weighted average, "
        "uncertainty independent of the forecasts and equal to the score of the marginal (best constant for squared error), miscalibration >= 0 and discrimination >= 0 against ALL monotone competitors for squared error, "
        "degree-2 expectile scores and pinball loss (exact Q arithmetic) and for every Bregman degree incl. Poisson/Gamma (world R: recalibrated forecast scores no worse than the forecast and than any admissible constant), "
        "discrimination 0 for constant forecasts (mean, expectile), miscalibration 0 at fixed points of the recalibration. Tie: whole-function skeleton of decompose and a correspondence run with a recording scoring function "
        "(marginal, recalibrated vector of every column, the four numbers and the exception class compared inside Coq for 12 score configurations). Two genuine defects repaired (fixes e52a7ce, and d3b9226/04732ba under C07).",
   note="The sign statements are proved for EVERY library score (asymmetric homogeneous scores and quantile scores of every degree and level, log loss with recalibrated values in (0,1)) in world R, dsc = 0 for constant forecasts for all functionals, "
        "and mcb = 0 for the output of a recalibration (idempotence). Not proved: log loss when a block is recalibrated to exactly 0 or 1 (outside the real-valued specification, as in C04). scikit-learn's IsotonicRegression (used for the mean) is an oracle "
        "compared with the model on every case. Float rounding: comparator 1e-9, sign judge 1e-12 relative.",
   technique="Coq proof (ring identity, optimality certificate of C01-C03, Bregman sub-gradient inequality) + whole-function skeleton + vm_compute correspondence with recorded score tables", ref="4 C06"),
 "C07": dict(
   text="Machine-checked proof (Coq) about model/Decompose.v: each column of a forecast matrix gets the single-column result; score and uncertainty are invariant under any permutation of the rows (all functionals); all four columns are "
        "permutation invariant for the mean functional (via uniqueness of the optimal fit among functions of the forecast), unconditionally for squared error; discrimination and uncertainty are unchanged by any strictly increasing relabelling of the forecasts; "
        "explicit = inferred functional/level, mean ignores level, median = quantile 1/2. Tie as C06; the judge evaluates permutation, replication (integer weights vs repeated rows), relabelling (2x+1, x^3, exp), column independence and aliases "
        "on the implementation for every generated case. Two genuine defects repaired (fixes d3b9226 median alias, 04732ba repair path located by value).",
   note="Permutation invariance of all four columns (every functional, incl. the repair path of the repaired code) and replication by integer weights (mean, expectile) are proved, assuming both calls succeed "
        "(transfer of success/exception class between row orders is judged on the implementation, not proved).",
   technique="Coq proof (Permutation, uniqueness of the isotonic fit among functions of X) + whole-function skeleton + correspondence + metamorphic judge", ref="4 C07"),
 "C19": dict(
   text="Mostly correspondence (stated plainly): model/Plots.v composes the IsoFit, elementary-score and Bias models; proved in Coq (axiom-free): diagonal spans all predictions, reliability vertices lie on the fit, are monotone, span the column, "
        "bias variant = prediction minus fit, curve i depends on column i only, Murphy points are the weighted average elementary scores (>= 0) at exactly the requested etas, the default eta grid runs from the min to the max of all observations and predictions, "
        "bias-plot points are compute_bias's means. Decided by correspondence: the Line2D / errorbar data of the Axes returned by the real functions (Agg backend) equal the model (curves compared as functions, 1e-9), labels, returned object is the given ax, configuration unchanged.",
   note="Not modelled: n_bootstrap, plotly backend (not installed). Extension beyond the three plots the property names: plot_marginal is modelled too (model/PlotMarginal.v: lines = table means, PD line = table PD, bars = weights / total) "
        "and compared on its artists. scikit-learn's fit for the mean is compared with the model. Known findings: plot_bias(feature=None, 1-D y_pred) raises TypeError; plot_marginal crashes for an all-null numerical feature and for y_pred of shape (n,1).",
   technique="Coq proof about compositions + correspondence on matplotlib artists + judge by brute force", ref="4 C19"),

 "C09": dict(
   text="Machine-checked proof (Coq, world Q, axiom-free) about the executable model of compute_bias (model/Bias.v on top of model/Binning.v): every output row is the definition applied to the rows of its group "
        "(weighted mean of V, count, weight sum, Bessel-corrected stderr^2, t^2 and degrees of freedom), counts and weights sum to the totals, weight-averaged group means equal the overall mean, "
        "null values keep their own (first) group, the whole table is invariant under permutation of the RAW rows (binning included: compute_bias_perm_full, every feature type and method), and head(n_bins) never drops a group. Tie: correspondence with the real compute_bias "
        "over feature types x 10 bin methods x functionals x weights x 1-3 models, compared inside Coq.",
   note="Partial: the polars group_by/window engine is not modelled (its meaning is tied by correspondence only); sqrt and the Student-t CDF are not rational: stderr is compared squared and p_value against "
        "2*scipy.special.stdtr(df, -sqrt(t^2)) computed from the model's pieces; 'identical on repeated calls' is observed (two calls compared).",
   technique="Coq proof (list induction, Permutation) + vm_compute correspondence + judge by exact per-group definition", ref="4 C09"),
 "C11": dict(
   text="Machine-checked proof (Coq) about the executable model of IsotonicRegression.fit/predict (model/IsoFit.v: stable sort by (X, y in tie order), isotonic_regression, threshold index selection incl. special cases, "
        "np.interp with constant fill): prediction at each training X equals the fitted value of that row, equal X gives equal prediction (all four functionals), optimality among ALL REAL monotone functions of X "
        "(mean, expectile, quantile, median; world R), predictions are total/finite, monotone in the fitted direction for every pair of queries, between neighbouring fitted values, and constant beyond the training range. "
        "Tie: skeleton+leaves of the class and correspondence (thresholds vertex-exact on exact inputs, predictions 1e-9, 4 X dtypes). A genuine defect (NaN predictions for non-float64 X with ties) was found and repaired (fix 7007a15).",
   note="Row-order independence is proved in full (thresholds and predictions at every query point, every functional, both directions, with or without weights). scikit-learn (mean, out_of_bounds='clip') "
        "is compared on every mean case as a third opinion, not modelled. scipy interp1d is modelled by np.interp semantics.",
   technique="Coq proof (sort, thresholds, interpolation on top of the certificate) + skeleton/leaf translation + vm_compute correspondence", ref="4 C11"),
 "C13": dict(
   text="Machine-checked proof (Coq, world Q, axiom-free) about the executable model of bin_feature: every row gets exactly one bin, null/NaN rows the null bin and only they; for ANY non-decreasing edge vector the reported "
        "edges contain the value (left-open, first bin closed), bin numbers are monotone in the value, equal values share a bin; quantile/uniform give at most n_bins groups incl. the null bin; strings: the most frequent "
        "categories are kept with ties in natural order, k >= 2 pooled categories, label 'other k' is fresh against every category (and every declared enum category), label is the count for k < 1000. "
        "Tie: correspondence with the real bin_feature over float/int/bool/str/Categorical/Enum features with null/NaN/inf, 10 bin methods. Four genuine defects were found and repaired (fixes 3ff5ebb, f02e33e, 9ce4ae5, b2b5cba); bin_numeric_accepts / bin_string_accepts prove that every documented feature type is accepted.",
   note="Partial: five of numpy's eight histogram rules (auto, fd, doane, scott, stone) are not rational; their interior edges enter the model as data (sortedness is a hypothesis of bin_contains for them). sturges (the library default), sqrt and rice "
        "are computed inside Coq incl. binary64 rounding of the edges (model/NumpyRules.v) and compared with np.histogram_bin_edges bit for bit. np.quantile(inverted_cdf) is modelled by its definition. "
        "Known findings: float range overflow / adjacent floats inside np.histogram_bin_edges. Four genuine defects repaired (3ff5ebb, f02e33e, 9ce4ae5, b2b5cba).",
   technique="Coq proof (list induction) + vm_compute correspondence + judge by brute force", ref="4 C13"),

 "C17": dict(
   text="Partial by nature (a container does not exist in a mathematical model). Proved in Coq about the translated __call__ (gen_call): the aggregate score is the weighted average of the per-observation scores, "
        "raises iff score_per_obs raises, is unchanged by rescaling all weights, unit weights = plain mean, and vector calls are the per-observation function applied element-wise. "
        "Container/dtype independence of scores, identification values, decompositions, bias and marginal tables and isotonic fits is decided by correspondence: the same numbers as list, tuple, int64/float64 ndarray, "
        "polars Series (float and int) and mixed int/float list through every public function, compared with the float64-ndarray result (1e-12). One defect was repaired (fix 074046b), two are recorded as known findings.",
   note="The decisive evidence for the first sentence of the property is the correspondence run, not a theorem (stated in DESIGN.md section 4 C17). pandas / pyarrow containers are not installed and not covered. "
        "KNOWN findings (known_findings.json): mixed int/float Python lists raise TypeError at two polars construction sites; integer-dtype features are binned differently by numpy's histogram rules.",
   technique="Coq proof about translated __call__ + container correspondence harness (7 container kinds x public API)", ref="4 C17"),

 "C12": dict(
   text="Machine-checked proof (Coq) about the executable model of isotonic_regression for all four functionals, all levels, both directions, with NO hypothesis beyond 'the call returned a result': "
        "the full block contract (length, range within data, r from 0 to n strictly increasing, constant inside and different across blocks; r is determined by the values), monotone fit, "
        "already-monotone input unchanged, idempotence, exact commutation with reversal (exceptions included), positive affine equivariance, weight-scale invariance, None = unit weights, "
        "and integer weights = repeated observations (mean, expectile; values). Tie: skeleton+leaves of pava/gpava/isotonic_regression/quantile_lower/quantile_upper and correspondence over all functionals "
        "with exact block-vector comparison on the dyadic-exact stream. Additionally a bit-exact binary64 twin of the mean path (model/PavaFloat.v, Coq primitive floats) satisfies the block contract for EVERY float input "
        "(NaN, infinities, overflow included) and is compared bit for bit with the implementation; the same for the quantile / median path (model/GpavaQFloat.v, C12_float_quantile_*).",
   note="Partial: 'inputs are never modified' is observed (byte comparison of the caller's arrays around every call), not proved; replication is proved for the values only. Equalities of values are Qeq. "
        "All theorems are closed under the global context except replication (standard real-number axioms) and the three monotonicity theorems of the binary64 twin "
        "(C12_float_monotone*: the standard library's FloatAxioms.eqb_spec / ltb_spec / leb_spec; primitive float operations are kernel primitives).",
   technique="Coq proof (certificate invariant, lock-step simulation for equivariances, uniqueness for replication) + skeleton/leaf translation + vm_compute correspondence", ref="4 C12"),
 "C15": dict(
   text="Machine-checked proof (Coq, classical reals + Coquelicot) about ElementaryScore.score_per_obs translated from source on every run: >= 0 and 0 at y=z for every eta, observation and prediction; "
        "minimised in expectation by the sample's functional for EVERY eta incl. data values (mean, expectile, quantile); integrals over eta equal half the squared error, the pinball loss and half the degree-2 expectile score "
        "(is_RInt); Murphy curve non-negative with area equal to the average score. A genuine defect was found (quantile/median negative at eta = y_obs > y_pred) and repaired in /repo (fix 42d574f); "
        "the refutation of the old formula is kept as a theorem.",
   note="As C04 (translator + round trip, judge grid includes eta on data values and midpoint integration). Axioms: standard real-number/classical axioms only (also under Coquelicot).",
   technique="Coq proof over R incl. Coquelicot integrals + translation from source + round trip", ref="4 C15"),
 "C16": dict(
   text="Machine-checked proof (Coq, world Q, axiom-free) about the executable model of compute_partial_dependence with an arbitrary row-wise predictor: the stacked computation (tile/repeat/assign/one batch prediction/reshape/average) "
        "equals the definitional partial dependence, the rows handed to the predictor differ from the sampled rows in the feature column only, rows and weights are sub-sampled by the same indices, one value per grid point, weight-scale invariance. "
        "Tie: whole-function skeletons of compute_partial_dependence / safe_index_rows / safe_assign_column and a correspondence run in which every matrix the real function hands to the predictor is compared exactly with the model's. "
        "A genuine defect (float grid truncated into integer columns) was found and repaired in /repo (fix 6654639).",
   note="Partial (harness observations, not theorems): caller's X/grid/weights unchanged; the subsample is numpy's seeded draw without replacement (oracle: indices drawn by the harness with the documented call); equal seeds give equal results; "
        "containers (float/int ndarray, list of rows, polars frame) are a correspondence dimension. The predictor is assumed row-wise.",
   technique="Coq proof (list induction) + whole-function skeleton match + exact correspondence incl. recorded predictor inputs", ref="4 C16"),

 "C04": dict(
   text="Machine-checked proof (Coq, classical reals) for ALL real degrees, levels in (0,1) and pairs (y,z): the per-observation score functions, "
        "as regenerated from scoring.py by the fail-closed translator on every run (gen/Gen_scoring.v), raise ValueError exactly outside the documented domain, "
        "are defined (no division by zero / log or power outside its domain) inside it, are >= 0, are 0 at y=z, and are order-sensitive; log loss on y in [0,1], z in (0,1); "
        "named classes are members of the families; vector calls lift per-observation results.",
   note="Trusted: the translator (validated on every run by a round trip: Python closures printed from the same IR vs the real functions on ~58k structured points, "
        "exceptions and nan/inf classes included) and lib/NumpyR.v's reading of numpy primitives. Float rounding not modelled. Axioms: the standard library's real-number axioms only.",
   technique="Coq proof over R about code translated from source on every run + bridge lemmas + translator round trip", ref="4 C04"),
 "C05": dict(
   text="Machine-checked proof (Coq, classical reals): for every finite positively weighted sample and every admissible constant c, the total (hence average) score at the sample's "
        "own functional (characterised by its first-order condition: weighted identification sum zero, resp. the two one-sided quantile inequalities) is <= the score at c, "
        "for all Bregman-type scores of every degree (incl. squared error, Poisson, Gamma), their asymmetric versions, log loss, and all quantile-type scores (incl. pinball). "
        "Values are tied to the generated score_per_obs by hes_val_is_gen / hqs_val_is_gen; __call__ is checked to be np.average of score_per_obs by the translator.",
   note="As C04. The aggregate __call__ is compared with the weighted average of score_per_obs on random int/float inputs with fractional weights in every run.",
   technique="Coq proof over R (sub-gradient inequalities summed over the sample) + translation from source + round trip", ref="4 C05"),
 "C08": dict(
   text="Machine-checked proof (Coq) about identification_function translated in full from identification.py on every run: non-decreasing in the prediction for every functional and level, "
        "guards, aliases (median = quantile 1/2, expectile 1/2 = mean), closed forms; per rational sample: weighted sum zero at the weighted mean and at the exact weighted expectile, "
        "quantile sum = count_le - n*level, negative below the lower empirical quantile and non-negative from it on.",
   note="As C04; sample theorems are over rational samples (every float is one) transported to R.",
   technique="Coq proof (R per observation, Q->R per sample) + translation from source + round trip", ref="4 C08"),
 "C14": dict(
   text="Machine-checked proof (Coq, classical reals) about the generated score functions: S(cy,cz) = c^degree * S(y,z) for all c>0, all real degrees, all accepted pairs, both families; "
        "SquaredError/PoissonDeviance/GammaDeviance/PinballLoss are the family members with the constructor arguments read from source, with their textbook closed forms; level 1/2 reduces to the symmetric score.",
   note="Partial: 'closed forms at degrees 0 and 1 are the limits of the general formula' is stated but only proved where proofs/ScoreLimits.v says so (see props/C14.v header). Otherwise as C04.",
   technique="Coq proof over R + translation from source + round trip", ref="4 C14"),

 "C01": dict(
   text="Machine-checked proof (Coq) about the executable model of isotonic_regression(functional='mean') (model/Pava.v, model/Isotonic.v): "
        "for every non-empty rational y, every strictly positive w (or none), both directions: totality, monotonicity, optimality against all REAL "
        "monotone competitors with the Pythagorean gap, uniqueness, preservation of weighted totals. Tie to source: skeleton match + translated leaves "
        "of pava/isotonic_regression with bridge lemmas, and a correspondence run (model evaluated by vm_compute vs the real function).",
   note="Exact arithmetic (Q, transported to R); optimality is not proved about rounded arithmetic (1e-9 relative tolerance in the comparator of the rational model; block vectors compared exactly on the dyadic-exact stream). "
        "A bit-exact binary64 twin of the mean PAVA (model/PavaFloat.v, Coq primitive floats) is compared with the implementation bit for bit and proved equal to the rational model on every run whose operations are all exact. "
        "The max-min formula is proved too (both directions, quantified form and executable fold). Axioms: only the standard library's real-number axioms.",
   technique="Coq proof (GPAVA certificate invariant + optimality from certificate) + skeleton/leaf translation + vm_compute correspondence", ref="4 C01"),
 "C02": dict(
   text="Machine-checked proof (Coq) about the executable model of the quantile/median path of isotonic_regression (gpava with the inverted-CDF lower quantile, "
        "upper quantile per block, running minimum, midpoint): totality, monotonicity, pinball-optimality against all real monotone sequences, range within data, "
        "flatness of the block loss between lower and upper quantile, result >= lower solution. Tie: skeleton+leaves of gpava/quantile_lower/quantile_upper/isotonic_regression and correspondence.",
   note="'Between the smallest and the largest optimal solution' is proved in full (the lower-quantile GPAVA solution is the pointwise smallest, the mirrored one the pointwise largest minimiser; the result lies between). "
        "np.quantile(method='inverted_cdf') is modelled by its definition and compared with numpy on every run. Float-unsafe (level, n) pairs are judged by loss, not by value. "
        "Additionally a bit-exact binary64 twin of the whole quantile / median path (model/GpavaQFloat.v, Coq primitive floats, numpy's float index computation included) is compared with the implementation bit for bit "
        "and satisfies structural theorems for every float input (C02_float_*).",
   technique="Coq proof (GPAVA certificate, pinball sub-gradient instance) + skeleton/leaf translation + vm_compute correspondence", ref="4 C02"),
 "C03": dict(
   text="Machine-checked proof (Coq) about the model of isotonic_regression(functional='expectile'): totality, monotonicity, optimality and uniqueness for the asymmetric squared loss "
        "against all real monotone competitors, level 1/2 equals the mean fit, identification function sums to zero per block. Tie: skeleton+leaves of gpava/isotonic_regression and correspondence.",
   note="scipy.stats.expectile is modelled by an exact rational root (expectile_Q, proved to be a root) and compared with scipy at 1e-9 on every run. The max-min formula is proved too.",
   technique="Coq proof (GPAVA certificate, asymmetric-LS instance) + skeleton/leaf translation + vm_compute correspondence", ref="4 C03"),

 "C18": dict(
   text="Machine-checked proof (Coq) by induction over arbitrary flat histories of the state machine model/Config.v: "
        "restore on every exit path, invalid name raises ValueError and changes nothing, get_config is a snapshot; "
        "the model is tied to _config.py by a skeleton match of the three functions and by running exhaustive (<=4 ops) and "
        "random nested histories through the real context manager and comparing traces inside Coq.",
   note="Trusted: Coq kernel; skeleton matcher; harness patches find_spec to make plotly settable in half of the runs. "
        "Theorems are closed under the global context (no axioms).",
   technique="Coq proof by induction over histories + skeleton match + trace correspondence", ref="4 C18"),
}
PENDING = ["C%02d" % i for i in range(1, 21)]


def main():
    checks = []
    for pid in sorted(CLAIMED):
        c = CLAIMED[pid]
        checks.append(dict(
            property_id=pid,
            quick_cmd=f"./check {pid} --tier quick",
            thorough_cmd=f"./check {pid} --tier thorough",
            evidence_file=f"/verif/evidence/{pid}.json",
            replay_cmd_template=f"./check {pid} --replay {{path}}",
            engine="coq",
            level_claimed=dict(category="proof", text=c["text"], design_ref="DESIGN.md section " + c["ref"]),
            level_note=c["note"],
            technique=c["technique"]))
    na = [dict(property_id=p, reason="check not built yet in this session (planned, see DESIGN.md section 4)")
          for p in PENDING if p not in CLAIMED]
    m = dict(
        version=1,
        setup_cmd="./check --setup",
        hooks=dict(guard="MODEL_DIAGNOSTICS_VERIF", enable="no source hooks are needed; checks import /repo/src directly with PYTHONPATH",
                   baseline_off_cmd="cd /repo && /venv/bin/python -m pytest -ra -q -p no:cacheprovider --timeout=900 --continue-on-collection-errors",
                   source_commits=[], add_only=True),
        engines=[dict(name="coq", path="/verif/coq", serves_properties=sorted(CLAIMED),
                      kind_free_text="Coq 8.16.1 development: models, theorems, bridge lemmas to code regenerated from /repo, comparators evaluated with vm_compute")],
        checks=checks,
        notes="Driver: ./check <ID>. Every check regenerates coq/gen from /repo's working tree, rebuilds incrementally, re-checks the "
              "property theorems with Print Assumptions, runs the model/implementation correspondence, and searches for a failing input when an obligation breaks.",
        not_applicable=na)
    json.dump(m, open("MANIFEST.json", "w"), indent=1)


if __name__ == "__main__":
    main()
