#!/usr/bin/env python3
"""Regenerates MANIFEST.json from the table below (single source of truth)."""
import json

CLAIMED = {
 "C01": dict(
   text="Machine-checked proof (Coq) about the executable model of isotonic_regression(functional='mean') (model/Pava.v, model/Isotonic.v): "
        "for every non-empty rational y, every strictly positive w (or none), both directions: totality, monotonicity, optimality against all REAL "
        "monotone competitors with the Pythagorean gap, uniqueness, preservation of weighted totals. Tie to source: skeleton match + translated leaves "
        "of pava/isotonic_regression with bridge lemmas, and a correspondence run (model evaluated by vm_compute vs the real function).",
   note="Exact arithmetic (Q, transported to R); float rounding not modelled (1e-9 relative tolerance in the comparator; block vectors compared exactly on the dyadic-exact stream). "
        "max-min formula is not proved (kept as full statement; uniqueness pins the same object). Axioms: only the standard library's real-number axioms.",
   technique="Coq proof (GPAVA certificate invariant + optimality from certificate) + skeleton/leaf translation + vm_compute correspondence", ref="4 C01"),
 "C02": dict(
   text="Machine-checked proof (Coq) about the executable model of the quantile/median path of isotonic_regression (gpava with the inverted-CDF lower quantile, "
        "upper quantile per block, running minimum, midpoint): totality, monotonicity, pinball-optimality against all real monotone sequences, range within data, "
        "flatness of the block loss between lower and upper quantile, result >= lower solution. Tie: skeleton+leaves of gpava/quantile_lower/quantile_upper/isotonic_regression and correspondence.",
   note="Partial: 'between the smallest and the largest optimal solution' is proved only as result >= lower-quantile solution; np.quantile(method='inverted_cdf') is modelled by its definition "
        "and compared with numpy on every run. Float-unsafe (level, n) pairs are judged by loss, not by value.",
   technique="Coq proof (GPAVA certificate, pinball sub-gradient instance) + skeleton/leaf translation + vm_compute correspondence", ref="4 C02"),
 "C03": dict(
   text="Machine-checked proof (Coq) about the model of isotonic_regression(functional='expectile'): totality, monotonicity, optimality and uniqueness for the asymmetric squared loss "
        "against all real monotone competitors, level 1/2 equals the mean fit, identification function sums to zero per block. Tie: skeleton+leaves of gpava/isotonic_regression and correspondence.",
   note="scipy.stats.expectile is modelled by an exact rational root (expectile_Q, proved to be a root) and compared with scipy at 1e-9 on every run. max-min formula not proved (uniqueness pins the object).",
   technique="Coq proof (GPAVA certificate, asymmetric-LS instance) + skeleton/leaf translation + vm_compute correspondence", ref="4 C03"),

 "C18": dict(
   text="Machine-checked proof (Coq) by induction over arbitrary flat histories of the state machine model/Config.v: "
        "restore on every exit path, invalid name raises ValueError and changes nothing, get_config is a snapshot; "
        "the model is tied to _config.py by a skeleton match of the three functions and by running exhaustive (<=4 ops) and "
        "random nested histories through the real context manager and comparing traces inside Coq.",
   note="Trusted: Coq kernel; skeleton matcher; harness patches find_spec to make plotly settable in half of the runs. "
        "Theorems are closed under the global context (no axioms).",
   technique="Coq proof by induction over histories + skeleton match + trace correspondence", ref="4 C18"),
}
PENDING = ["C%02d" % i for i in range(1, 21)]


def main():
    checks = []
    for pid in sorted(CLAIMED):
        c = CLAIMED[pid]
        checks.append(dict(
            property_id=pid,
            quick_cmd=f"./check {pid} --tier quick",
            thorough_cmd=f"./check {pid} --tier thorough",
            evidence_file=f"/verif/evidence/{pid}.json",
            replay_cmd_template=f"./check {pid} --replay {{path}}",
            engine="coq",
            level_claimed=dict(category="proof", text=c["text"], design_ref="DESIGN.md section " + c["ref"]),
            level_note=c["note"],
            technique=c["technique"]))
    na = [dict(property_id=p, reason="check not built yet in this session (planned, see DESIGN.md section 4)")
          for p in PENDING if p not in CLAIMED]
    m = dict(
        version=1,
        setup_cmd="./check --setup",
        hooks=dict(guard="MODEL_DIAGNOSTICS_VERIF", enable="no source hooks are needed; checks import /repo/src directly with PYTHONPATH",
                   baseline_off_cmd="cd /repo && /venv/bin/python -m pytest -ra -q -p no:cacheprovider --timeout=900 --continue-on-collection-errors",
                   source_commits=[], add_only=True),
        engines=[dict(name="coq", path="/verif/coq", serves_properties=sorted(CLAIMED),
                      kind_free_text="Coq 8.16.1 development: models, theorems, bridge lemmas to code regenerated from /repo, comparators evaluated with vm_compute")],
        checks=checks,
        notes="Driver: ./check <ID>. Every check regenerates coq/gen from /repo's working tree, rebuilds incrementally, re-checks the "
              "property theorems with Print Assumptions, runs the model/implementation correspondence, and searches for a failing input when an obligation breaks.",
        not_applicable=na)
    json.dump(m, open("MANIFEST.json", "w"), indent=1)


if __name__ == "__main__":
    main()
