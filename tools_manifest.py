#!/usr/bin/env python3
"""Regenerates MANIFEST.json from the table below (single source of truth)."""
import json

CLAIMED = {
 "C18": dict(
   text="Machine-checked proof (Coq) by induction over arbitrary flat histories of the state machine model/Config.v: "
        "restore on every exit path, invalid name raises ValueError and changes nothing, get_config is a snapshot; "
        "the model is tied to _config.py by a skeleton match of the three functions and by running exhaustive (<=4 ops) and "
        "random nested histories through the real context manager and comparing traces inside Coq.",
   note="Trusted: Coq kernel; skeleton matcher; harness patches find_spec to make plotly settable in half of the runs. "
        "Theorems are closed under the global context (no axioms).",
   technique="Coq proof by induction over histories + skeleton match + trace correspondence", ref="4 C18"),
}
PENDING = ["C%02d" % i for i in range(1, 21)]


def main():
    checks = []
    for pid in sorted(CLAIMED):
        c = CLAIMED[pid]
        checks.append(dict(
            property_id=pid,
            quick_cmd=f"./check {pid} --tier quick",
            thorough_cmd=f"./check {pid} --tier thorough",
            evidence_file=f"/verif/evidence/{pid}.json",
            replay_cmd_template=f"./check {pid} --replay {{path}}",
            engine="coq",
            level_claimed=dict(category="proof", text=c["text"], design_ref="DESIGN.md section " + c["ref"]),
            level_note=c["note"],
            technique=c["technique"]))
    na = [dict(property_id=p, reason="check not built yet in this session (planned, see DESIGN.md section 4)")
          for p in PENDING if p not in CLAIMED]
    m = dict(
        version=1,
        setup_cmd="./check --setup",
        hooks=dict(guard="MODEL_DIAGNOSTICS_VERIF", enable="no source hooks are needed; checks import /repo/src directly with PYTHONPATH",
                   baseline_off_cmd="cd /repo && /venv/bin/python -m pytest -ra -q -p no:cacheprovider --timeout=900 --continue-on-collection-errors",
                   source_commits=[], add_only=True),
        engines=[dict(name="coq", path="/verif/coq", serves_properties=sorted(CLAIMED),
                      kind_free_text="Coq 8.16.1 development: models, theorems, bridge lemmas to code regenerated from /repo, comparators evaluated with vm_compute")],
        checks=checks,
        notes="Driver: ./check <ID>. Every check regenerates coq/gen from /repo's working tree, rebuilds incrementally, re-checks the "
              "property theorems with Print Assumptions, runs the model/implementation correspondence, and searches for a failing input when an obligation breaks.",
        not_applicable=na)
    json.dump(m, open("MANIFEST.json", "w"), indent=1)


if __name__ == "__main__":
    main()
